(** Lemmas about the sampler model (Model.v).  The facts about binary32 arithmetic come from F32Facts.v
    (proved there from Flocq); [exp] is the Section variable [E] with four hypotheses. *)
From Coq Require Import ZArith List Bool SpecFloat Lia Reals Lra Permutation Sorted.
From V Require Import Sample.F32 Sample.Model Sample.F32Facts.
Import ListNotations.
Open Scope Z_scope.

Lemma flt_nan_r : forall a b, is_nan b = true -> flt a b = false.
Proof. intros a [s|s| |s m e] H; try easy. now destruct a as [s'|[|]| |[|] m' e']. Qed.

Lemma firstn_In : forall (A : Type) (n : nat) (l : list A) (x : A), In x (firstn n l) -> In x l.
Proof. intros A n l x H. rewrite <- (firstn_skipn n l). apply in_or_app. now left. Qed.

Lemma skipn_In : forall (A : Type) (n : nat) (l : list A) (x : A), In x (skipn n l) -> In x l.
Proof. intros A n l x H. rewrite <- (firstn_skipn n l). apply in_or_app. now right. Qed.

Definition numl (l : list tok) : Prop := Forall (fun t => num (tv t)) l.

Lemma numl_In : forall l t, numl l -> In t l -> num (tv t).
Proof. intros l t H Hin. exact (proj1 (Forall_forall _ _) H t Hin). Qed.

Lemma numl_firstn : forall n l, numl l -> numl (firstn n l).
Proof. intros n l H. apply Forall_forall. intros t Ht. apply (numl_In l); [easy|]. now apply firstn_In in Ht. Qed.

(** * greedy *)
Lemma greedy_from_max : forall l mx, num (tv mx) -> numl l ->
  In (greedy_from mx l) (mx :: l) /\ num (tv (greedy_from mx l)) /\
  (rk (tv mx) <= rk (tv (greedy_from mx l)))%R /\
  forall t, In t l -> (rk (tv t) <= rk (tv (greedy_from mx l)))%R.
Proof.
  induction l as [|t r IH]; intros mx Hm Hl; cbn [greedy_from].
  - split; [now left|]. split; [easy|]. split; [lra|]. intros t [].
  - inversion Hl as [|? ? Ht Hr]; subst.
    set (mx' := if fgt (tv t) (tv mx) then t else mx).
    assert (Hm' : num (tv mx')) by (unfold mx'; now destruct (fgt (tv t) (tv mx))).
    assert (Ge : (rk (tv mx) <= rk (tv mx'))%R /\ (rk (tv t) <= rk (tv mx'))%R).
    { unfold mx', fgt. destruct (flt (tv mx) (tv t)) eqn:F.
      - apply flt_true_iff in F; try easy. lra.
      - apply flt_false_iff in F; try easy. lra. }
    destruct (IH mx' Hm' Hr) as (I1 & I2 & I3 & I4).
    split; [|split; [easy|split]].
    + destruct I1 as [I1|I1].
      * rewrite <- I1. unfold mx'. destruct (fgt (tv t) (tv mx)); [right; now left|now left].
      * right; now right.
    + lra.
    + intros u [<-|Hu]; [lra|now apply I4].
Qed.

(** * enumerate *)
Lemma enumerate_length : forall l s, length (enumerate s l) = length l.
Proof. induction l; intros; cbn; [easy|now rewrite IHl]. Qed.

Lemma enumerate_map_tv : forall l s, map tv (enumerate s l) = l.
Proof. induction l; intros; cbn; [easy|now rewrite IHl]. Qed.

Lemma enumerate_In : forall l s t, In t (enumerate s l) ->
  s <= tid t < s + Z.of_nat (length l) /\ nth_error l (Z.to_nat (tid t - s)) = Some (tv t).
Proof.
  induction l as [|v r IH]; intros s t H; [easy|].
  cbn [enumerate] in H. destruct H as [<-|H].
  - cbn [tid tv fst snd length]. split; [lia|]. now rewrite Z.sub_diag.
  - apply IH in H. destruct H as [H1 H2]. cbn [length]. split; [lia|].
    replace (Z.to_nat (tid t - s)) with (S (Z.to_nat (tid t - (s + 1)))) by lia. exact H2.
Qed.

Lemma enumerate_numl : forall l s, Forall num l -> numl (enumerate s l).
Proof. induction l; intros s H; cbn; constructor; inversion H; subst; [easy|now apply IHl]. Qed.

Lemma enumerate_vals : forall l s v, In v l -> exists t, In t (enumerate s l) /\ tv t = v.
Proof.
  induction l as [|a r IH]; intros s v H; [easy|]. destruct H as [<-|H].
  - exists (s, a). split; [now left|easy].
  - destruct (IH (s + 1) v H) as (t & T1 & T2). exists t. split; [now right|easy].
Qed.

(** * topK: the specification-level sort, and what any legal topK result satisfies *)
Definition desc (a b : tok) : Prop := flt (tv a) (tv b) = false.
Definition descR (a b : tok) : Prop := (rk (tv b) <= rk (tv a))%R.

Lemma insert_desc_perm : forall x l, Permutation (insert_desc x l) (x :: l).
Proof.
  induction l as [|y r IH]; cbn [insert_desc]; [easy|].
  destruct (flt (tv x) (tv y)); [|easy].
  rewrite IH. apply perm_swap.
Qed.

Lemma sort_desc_perm : forall l, Permutation (sort_desc l) l.
Proof.
  induction l as [|x r IH]; [easy|]. unfold sort_desc in *. cbn [fold_right].
  rewrite insert_desc_perm. now constructor.
Qed.

Lemma numl_perm : forall l l', Permutation l l' -> numl l -> numl l'.
Proof. intros l l' P H. unfold numl. now rewrite <- P. Qed.

Lemma insert_desc_sorted : forall x l, num (tv x) -> numl l ->
  StronglySorted descR l -> StronglySorted descR (insert_desc x l).
Proof.
  induction l as [|y r IH]; intros Hx Hl Hs; cbn [insert_desc].
  - constructor; constructor.
  - inversion Hl as [|? ? Hy Hr]; subst. inversion Hs as [|? ? Sr Fy]; subst.
    destruct (flt (tv x) (tv y)) eqn:F.
    + apply flt_true_iff in F; try easy.
      constructor; [now apply IH|].
      apply Forall_forall. intros t Ht.
      apply (Permutation_in _ (insert_desc_perm x r)) in Ht. destruct Ht as [<-|Ht].
      * unfold descR. lra.
      * now apply (proj1 (Forall_forall _ _) Fy).
    + apply flt_false_iff in F; try easy.
      constructor; [now constructor|].
      constructor; [exact F|].
      apply Forall_forall. intros t Ht. apply (proj1 (Forall_forall _ _) Fy) in Ht. unfold descR in *. lra.
Qed.

Lemma sort_desc_sorted : forall l, numl l -> StronglySorted descR (sort_desc l).
Proof.
  induction l as [|x r IH]; intros H; [constructor|]. inversion H; subst.
  unfold sort_desc in *. cbn [fold_right]. apply insert_desc_sorted; try easy.
  - apply (numl_perm r); [|easy]. symmetry. apply sort_desc_perm.
  - now apply IH.
Qed.

Lemma descR_desc : forall l, numl l -> StronglySorted descR l -> StronglySorted desc l.
Proof.
  induction l as [|x r IH]; intros Hl Hs; [constructor|].
  inversion Hl; subst. inversion Hs as [|? ? Sr Fx]; subst. constructor; [now apply IH|].
  apply Forall_forall. intros t Ht. unfold desc. apply flt_false_iff; try easy.
  - now apply (numl_In r).
  - now apply (proj1 (Forall_forall _ _) Fx).
Qed.

Lemma desc_descR : forall l, numl l -> StronglySorted desc l -> StronglySorted descR l.
Proof.
  induction l as [|x r IH]; intros Hl Hs; [constructor|].
  inversion Hl; subst. inversion Hs as [|? ? Sr Fx]; subst. constructor; [now apply IH|].
  apply Forall_forall. intros t Ht. unfold descR. apply flt_false_iff; try easy.
  - now apply (numl_In r).
  - now apply (proj1 (Forall_forall _ _) Fx).
Qed.

(** a legal result of topK: the first [eff_k] tokens of *some* descending arrangement of the input (the Go code's
    pdqsort / heap produce one such arrangement; which one, among equal values, is not specified) *)
Definition legal_topk (ts : list tok) (k : Z) (S : list tok) : Prop :=
  exists L, Permutation L ts /\ StronglySorted desc L /\ S = firstn (eff_k (length ts) k) L.

Lemma topK_legal : forall ts k, numl ts -> legal_topk ts k (topK ts k).
Proof.
  intros ts k H. exists (sort_desc ts). split; [apply sort_desc_perm|]. split.
  - apply descR_desc; [|now apply sort_desc_sorted]. apply (numl_perm ts); [|easy]. symmetry; apply sort_desc_perm.
  - unfold topK, eff_k. destruct ((Z.of_nat (length ts) <=? k) || (k <=? 0)); [|easy].
    rewrite <- (Permutation_length (sort_desc_perm ts)). now rewrite firstn_all.
Qed.

Lemma legal_facts : forall ts k S, numl ts -> ts <> [] -> legal_topk ts k S ->
  numl S /\ incl S ts /\ (length S <= length ts)%nat /\
  exists h rest, S = h :: rest /\ forall t, In t ts -> (rk (tv t) <= rk (tv h))%R.
Proof.
  intros ts k S Hn Hne (L & P & Ss & ->).
  assert (HL : numl L) by (apply (numl_perm ts); [now symmetry|easy]).
  assert (Hk : (1 <= eff_k (length ts) k)%nat).
  { unfold eff_k. destruct ts; [easy|]. cbn [length].
    destruct ((Z.of_nat (S (length ts)) <=? k) || (k <=? 0)) eqn:X; [lia|].
    apply orb_false_iff in X. lia. }
  split; [now apply numl_firstn|]. split.
  { intros t Ht. apply firstn_In in Ht. now apply (Permutation_in _ P). }
  split. { rewrite firstn_length, (Permutation_length P). lia. }
  destruct L as [|h L']. { apply Permutation_nil in P. now subst. }
  exists h, (firstn (eff_k (length ts) k - 1) L'). split.
  - destruct (eff_k (length ts) k); [lia|]. cbn. now rewrite Nat.sub_0_r.
  - intros t Ht. apply (Permutation_in _ (Permutation_sym P)) in Ht.
    apply desc_descR in Ss; [|easy]. inversion Ss as [|? ? _ Fh]; subst.
    destruct Ht as [<-|Ht]; [lra|]. now apply (proj1 (Forall_forall _ _) Fh).
Qed.

(** tokens outside a legal topK result are not larger than any token inside *)
Lemma legal_rest : forall ts k S, numl ts -> legal_topk ts k S ->
  exists rest, Permutation (S ++ rest) ts /\ forall s t, In s S -> In t rest -> flt (tv s) (tv t) = false.
Proof.
  intros ts k S Hn (L & P & Ss & ->). generalize (eff_k (length ts) k). intros n.
  exists (skipn n L). split; [now rewrite firstn_skipn|].
  clear P Hn. revert n. induction L as [|x L IH]; intros n s t Hs Ht.
  - now rewrite firstn_nil in Hs.
  - destruct n; [easy|]. cbn in Hs, Ht. inversion Ss as [|? ? SL Fx]; subst. destruct Hs as [<-|Hs].
    + apply (proj1 (Forall_forall _ _) Fx). now apply (skipn_In _ n).
    + now apply (IH SL n).
Qed.

(** * slices.BinarySearchFunc: the invariant holds on any list, sorted or not *)
Definition nthv (x : list tok) (i : nat) : sf := tv (nth i x (0, fnan)).

Lemma bsearch_spec : forall fuel x target i j,
  (i <= j <= length x)%nat -> (j - i < fuel)%nat ->
  (i = 0%nat \/ flt (nthv x (i - 1)) target = true) ->
  (j = length x \/ flt (nthv x j) target = false) ->
  let k := bsearch fuel x target i j in
  (i <= k <= j)%nat /\ (k = 0%nat \/ flt (nthv x (k - 1)) target = true) /\
  (k = length x \/ flt (nthv x k) target = false).
Proof.
  induction fuel as [|f IH]; intros x target i j Hij Hf Hi Hj; [lia|].
  cbn [bsearch]. destruct (i <? j)%nat eqn:L.
  - apply Nat.ltb_lt in L.
    assert (Hh : (i <= (i + j) / 2 < j)%nat).
    { split; [apply Nat.div_le_lower_bound; lia|apply Nat.div_lt_upper_bound; lia]. }
    set (h := ((i + j) / 2)%nat) in *.
    fold (nthv x h). destruct (flt (nthv x h) target) eqn:F.
    + destruct (IH x target (S h) j) as (K1 & K2 & K3); try lia; try easy.
      { right. now replace (S h - 1)%nat with h by lia. }
      repeat split; try easy; lia.
    + destruct (IH x target i h) as (K1 & K2 & K3); try lia; try easy.
      { now right. }
      repeat split; try easy; lia.
  - apply Nat.ltb_ge in L. assert (i = j) by lia. subst. repeat split; try easy; lia.
Qed.

(** * cumulative sums *)
Lemma cumsum_length : forall l s, length (cumsum s l) = length l.
Proof. induction l; intros; cbn; [easy|now rewrite IHl]. Qed.

Lemma cumsum_nth0 : forall l s t, nth_error l 0 = Some t ->
  nth_error (cumsum s l) 0 = Some (tid t, fadd s (tv t)).
Proof. intros [|a r] s t H; [easy|]. cbn in *. now inversion H. Qed.

Lemma cumsum_nthS : forall l s k a, nth_error (cumsum s l) k = Some a ->
  forall t, nth_error l (S k) = Some t ->
  nth_error (cumsum s l) (S k) = Some (tid t, fadd (tv a) (tv t)).
Proof.
  induction l as [|x r IH]; intros s k a Ha t Ht; [easy|].
  cbn [cumsum] in *. destruct k.
  - cbn in Ha. inversion Ha; subst. cbn [nth_error] in *. cbn [tv snd]. now apply cumsum_nth0.
  - cbn [nth_error] in *. now apply (IH _ _ a).
Qed.

Lemma cumsum_tid : forall l s k a, nth_error (cumsum s l) k = Some a ->
  exists t, nth_error l k = Some t /\ tid a = tid t.
Proof.
  induction l as [|x r IH]; intros s k a Ha; [now destruct k|].
  cbn [cumsum] in Ha. destruct k.
  - cbn in Ha. inversion Ha; subst. exists x. now split.
  - cbn [nth_error] in *. exact (IH _ _ _ Ha).
Qed.

Definition nonneg (t : tok) : Prop := num (tv t) /\ (0 <= rk (tv t))%R.

Lemma cumsum_nonneg : forall l s, num s -> (0 <= rk s)%R -> Forall nonneg l -> Forall nonneg (cumsum s l).
Proof.
  induction l as [|x r IH]; intros s Hs Ps Hl; [constructor|]. inversion Hl as [|? ? [Hx Px] Hr]; subst.
  cbn [cumsum]. destruct (fadd_nonneg s (tv x) Hs Hx Ps Px) as (A1 & A2 & A3).
  constructor; [split; [easy|cbn [tv snd]; lra]|]. apply IH; try easy. lra.
Qed.

Lemma last_nth_error : forall (l : list tok) d, l <> [] -> nth_error l (length l - 1) = Some (last l d).
Proof.
  induction l as [|x r IH]; intros d H; [easy|]. destruct r as [|y r'].
  - reflexivity.
  - cbn [length]. replace (S (S (length r')) - 1)%nat with (S (length (y :: r') - 1)) by (cbn; lia).
    cbn [nth_error]. rewrite (IH d); easy.
Qed.

(** * folds of the softmax *)
Lemma max_fold : forall l acc, num acc -> numl l ->
  let m := fold_left (fun m t => if fgt (tv t) m then tv t else m) l acc in
  num m /\ (rk acc <= rk m)%R /\ (forall t, In t l -> (rk (tv t) <= rk m)%R) /\
  (m = acc \/ exists t, In t l /\ tv t = m).
Proof.
  induction l as [|x r IH]; intros acc Ha Hl; cbn [fold_left].
  - split; [easy|]. split; [lra|]. split; [intros t []|now left].
  - inversion Hl as [|? ? Hx Hr]; subst.
    set (acc' := if fgt (tv x) acc then tv x else acc).
    assert (Ha' : num acc') by (unfold acc'; now destruct (fgt (tv x) acc)).
    assert (Ge : (rk acc <= rk acc')%R /\ (rk (tv x) <= rk acc')%R /\ (acc' = acc \/ acc' = tv x)).
    { unfold acc', fgt. destruct (flt acc (tv x)) eqn:F.
      - apply flt_true_iff in F; try easy. repeat split; try lra. now right.
      - apply flt_false_iff in F; try easy. repeat split; try lra. now left. }
    destruct (IH acc' Ha' Hr) as (I1 & I2 & I3 & I4).
    split; [easy|]. split; [lra|]. split.
    + intros t [<-|Ht]; [lra|now apply I3].
    + destruct I4 as [I4|(t & T1 & T2)].
      * destruct Ge as (_ & _ & [G|G]); [left; congruence|right; exists x; split; [now left|congruence]].
      * right. exists t. split; [now right|easy].
Qed.

Lemma sum_fold : forall l acc, num acc -> (0 <= rk acc)%R -> Forall nonneg l ->
  let s := fold_left (fun s t => fadd s (tv t)) l acc in
  num s /\ (rk acc <= rk s)%R /\ forall t, In t l -> (rk (tv t) <= rk s)%R.
Proof.
  induction l as [|x r IH]; intros acc Ha Pa Hl; cbn [fold_left].
  - split; [easy|]. split; [lra|]. intros t [].
  - inversion Hl as [|? ? [Hx Px] Hr]; subst.
    destruct (fadd_nonneg acc (tv x) Ha Hx Pa Px) as (A1 & A2 & A3).
    destruct (IH (fadd acc (tv x)) A1 ltac:(lra) Hr) as (I1 & I2 & I3).
    split; [easy|]. split; [lra|]. intros t [<-|Ht]; [lra|now apply I3].
Qed.

(** * topP / minP cuts *)
Lemma topP_cut_pos : forall l p s, l <> [] -> (1 <= topP_cut p s l <= length l)%nat.
Proof.
  induction l as [|x r IH]; intros p s H; [easy|]. cbn [topP_cut length].
  destruct (fgt (fadd s (tv x)) p); [lia|]. destruct r; [cbn; lia|].
  specialize (IH p (fadd s (tv x)) ltac:(easy)). lia.
Qed.

Lemma minP_cut_le : forall l thr, (minP_cut thr l <= length l)%nat.
Proof. induction l; intros; cbn; [lia|]. destruct (flt (tv a) thr); [lia|]. specialize (IHl thr). lia. Qed.

Lemma minP_cut_kept : forall l thr j, (j < minP_cut thr l)%nat -> flt (nthv l j) thr = false.
Proof.
  induction l as [|x r IH]; intros thr j H; [cbn in H; lia|].
  cbn [minP_cut] in H. destruct (flt (tv x) thr) eqn:F; [lia|].
  destruct j; [exact F|]. unfold nthv. cbn [nth]. apply IH. lia.
Qed.

(** partial sums as topP computes them: the sum of the first j+1 values, starting from s *)
Fixpoint psum (s : sf) (l : list tok) (j : nat) : sf :=
  match l with
  | [] => s
  | t :: r => match j with O => fadd s (tv t) | S j' => psum (fadd s (tv t)) r j' end
  end.

Lemma topP_cut_before : forall l p s j, (S j < topP_cut p s l)%nat -> fgt (psum s l j) p = false.
Proof.
  induction l as [|x r IH]; intros p s j H; [cbn in H; lia|].
  cbn [topP_cut] in H. destruct (fgt (fadd s (tv x)) p) eqn:F; [lia|].
  destruct j; [exact F|]. cbn [psum]. apply IH. lia.
Qed.

(** * The pipeline after topK *)
Section Sampler.
Variable E : sf -> sf.
(** the hypotheses on the exp oracle  x |-> float32(math.Exp(float64(x)))  (tested on every run, props/c18.py) *)
Hypothesis E_range : forall x, num x -> (rk x <= 0)%R -> num (E x) /\ (0 <= rk (E x) <= 1)%R.
Hypothesis E_zero : forall x, is_zero x = true -> E x = fone.
Hypothesis E_ninf : is_zero (E ninf) = true.

Definition scaled (T : sf) (S : list tok) : list tok := map (fun x => (tid x, scale T (tv x))) S.

Lemma scaled_numl : forall T S, num T -> is_inf T = false -> (0 < rk T)%R -> numl S -> numl (scaled T S).
Proof.
  intros T S HT FT PT HS. apply Forall_forall. intros t Ht. apply in_map_iff in Ht. destruct Ht as (x & <- & Hx).
  cbn [tv snd]. apply scale_num; try easy. now apply (numl_In S).
Qed.

(** softmax o temperature is a value-wise map; what the resulting probabilities satisfy *)
Lemma softmax_scaled : forall T S, num T -> is_inf T = false -> (0 < rk T)%R -> numl S ->
  (exists t, In t S /\ tv t <> ninf) ->
  exists PV : sf -> sf,
    softmax E (scaled T S) = map (fun t => (tid t, PV (tv t))) S /\
    forall t, In t S -> num (PV (tv t)) /\ (0 <= rk (PV (tv t)))%R /\ (tv t = ninf -> is_zero (PV (tv t)) = true).
Proof.
  intros T S HT FT PT HS (w & Hw & Nw).
  set (sc := scaled T S). set (mx := max_logit sc).
  set (es := map (fun t => (tid t, E (sm_diff mx (tv t)))) sc).
  set (sum := fold_left (fun s t => fadd s (tv t)) es fzero).
  exists (fun v => fdiv (E (sm_diff mx (scale T v))) sum). split.
  { unfold softmax. fold sc. fold mx. fold es. fold sum. unfold es, sc, scaled. rewrite !map_map. apply map_ext. now intros [i v]. }
  assert (Hsc : numl sc) by now apply scaled_numl.
  destruct (max_fold sc ninf num_ninf Hsc) as (M1 & M2 & M3 & M4). fold (max_logit sc) in M1, M2, M3, M4. fold mx in M1, M2, M3, M4.
  assert (G0 := BIG_pos).
  (* the maximum is not -Inf *)
  assert (Mn : mx <> ninf).
  { intros X. assert (Hsw : In (tid w, scale T (tv w)) sc) by (apply in_map_iff; now exists w).
    apply M3 in Hsw. cbn [tv snd] in Hsw. rewrite X, rk_ninf in Hsw.
    destruct (scale_num T (tv w) HT FT PT (numl_In S w HS Hw)) as (S1 & S2 & S3 & S4).
    assert (Q := rk_range _ S1). assert (rk (scale T (tv w)) = (- BIG)%R) by lra.
    apply (rk_ninf_iff _ S1) in H.
    destruct (tv w) as [s|[|]| |s m e] eqn:Ew; try easy.
    - specialize (S4 eq_refl). now rewrite H in S4.
    - specialize (S3 eq_refl). now rewrite H in S3.
    - specialize (S4 eq_refl). now rewrite H in S4. }
  (* the differences are numbers <= 0 *)
  assert (Hd : forall v, num v -> (rk v <= rk mx)%R -> num (sm_diff mx v) /\ (rk (sm_diff mx v) <= 0)%R).
  { intros v Hv Le. unfold sm_diff. destruct (is_pinf v) eqn:Pv.
    - split; [apply num_fzero|rewrite rk_fzero; lra].
    - destruct (is_pinf mx) eqn:Pm.
      + assert (mx = pinf) by (destruct mx as [s|[|]| |s m e]; easy). subst mx. rewrite H.
        rewrite fsub_pinf_r; [|apply Hv|easy]. split; [apply num_ninf|rewrite rk_ninf; lra].
      + apply fsub_le; try easy. destruct mx as [s|[|]| |s m e]; easy. }
  (* the exponentials are in [0,1] *)
  assert (He : Forall nonneg es).
  { apply Forall_forall. intros t Ht. apply in_map_iff in Ht. destruct Ht as (x & <- & Hx).
    cbn [tv snd]. destruct (Hd (tv x) (numl_In sc x Hsc Hx) (M3 x Hx)) as (D1 & D2).
    destruct (E_range _ D1 D2) as (E1 & E2). split; cbn [tv snd]; [easy|lra]. }
  (* one of them is 1, so the sum is positive *)
  destruct (sum_fold es fzero num_fzero ltac:(rewrite rk_fzero; lra) He) as (U1 & U2 & U3). fold sum in U1, U2, U3.
  assert (Ps : (1 <= rk sum)%R).
  { destruct M4 as [M4|(t & T1 & T2)]; [easy|].
    assert (In (tid t, E (sm_diff mx (tv t))) es) by (apply in_map_iff; now exists t).
    apply U3 in H. cbn [tv snd] in H. rewrite T2 in H.
    assert (is_zero (sm_diff mx mx) = true).
    { unfold sm_diff. destruct (is_pinf mx) eqn:Pm; [easy|]. apply fsub_self; [apply M1|]. destruct mx as [s|[|]| |s m e]; easy. }
    rewrite (E_zero _ H0), rk_fone in H. exact H. }
  intros t Ht.
  assert (Hst : In (tid t, scale T (tv t)) sc) by (apply in_map_iff; now exists t).
  destruct (Hd (scale T (tv t)) (numl_In sc _ Hsc Hst) (M3 _ Hst)) as (D1 & D2).
  destruct (E_range _ D1 D2) as (E1 & E2).
  destruct (fdiv_prob _ sum E1 U1 E2 ltac:(lra)) as (F1 & F2 & F3).
  split; [easy|]. split; [easy|]. intros Nt. apply F3.
  destruct (scale_num T (tv t) HT FT PT (numl_In S t HS Ht)) as (_ & S2 & _). rewrite Nt in *. rewrite (S2 eq_refl).
  unfold sm_diff. cbn [is_pinf ninf]. rewrite fsub_ninf_l; [exact E_ninf|apply M1|]. destruct mx as [s|[|]| |s m e]; easy.
Qed.

Lemma nth_firstn_lt : forall (l : list tok) n j d, (j < n)%nat -> nth j (firstn n l) d = nth j l d.
Proof.
  induction l as [|x r IH]; intros n j d H; [now rewrite firstn_nil|].
  destruct n; [lia|]. cbn [firstn]. destruct j; [easy|]. cbn [nth]. apply IH. lia.
Qed.

Lemma nth_error_firstn_lt : forall (l : list tok) n j t, nth_error (firstn n l) j = Some t -> (j < n)%nat /\ nth_error l j = Some t.
Proof.
  induction l as [|x r IH]; intros n j t H; [rewrite firstn_nil in H; now destruct j|].
  destruct n; [now destruct j|]. cbn [firstn] in H. destruct j; [split; [lia|easy]|].
  cbn [nth_error] in *. apply IH in H. split; [lia|easy].
Qed.

Lemma Forall_firstn : forall (P : tok -> Prop) n l, Forall P l -> Forall P (firstn n l).
Proof. intros P n l H. apply Forall_forall. intros t Ht. apply firstn_In in Ht. exact (proj1 (Forall_forall _ _) H t Ht). Qed.

(** topP then minP keep a non-empty prefix [firstn c]; what holds for every kept position *)
Lemma filters_spec : forall probs p mp, probs <> [] -> Forall nonneg probs -> num mp -> (0 <= rk mp <= 1)%R ->
  exists c, (1 <= c <= length probs)%nat /\ minP (topP probs p) mp = Some (firstn c probs) /\
    (forall j, (j < c)%nat -> flt (nthv probs j) (fmul (nthv probs 0) mp) = false) /\
    (feq p fone = false -> forall j, (S j < c)%nat -> fgt (psum fzero probs j) p = false).
Proof.
  intros probs p mp Hne Hnn Hmp Pmp.
  remember (if feq p fone then length probs else topP_cut p fzero probs) as c1 eqn:Ec1.
  assert (Hc1 : (1 <= c1 <= length probs)%nat).
  { subst c1. destruct (feq p fone); [destruct probs; [easy|cbn; lia]|now apply topP_cut_pos]. }
  assert (Ht : topP probs p = firstn c1 probs).
  { unfold topP. subst c1. destruct (feq p fone); [now rewrite firstn_all|easy]. }
  destruct probs as [|t0 rest]; [easy|]. destruct c1 as [|c1']; [lia|].
  set (thr := fmul (tv t0) mp).
  assert (F0 : flt (tv t0) thr = false).
  { inversion Hnn as [|? ? [N0 P0] _]; subst.
    destruct (fmul_unit_r mp (tv t0) Hmp N0 Pmp P0) as [Fa Fb]. fold thr in Fa, Fb.
    destruct (is_nan thr) eqn:Nn; [now apply flt_nan_r|]. destruct (Fb eq_refl) as (Fb1 & Fb2).
    apply flt_false_iff; try easy; lra. }
  set (kept := firstn (S c1') (t0 :: rest)) in *.
  set (c2 := minP_cut thr kept).
  assert (Hc2 : (1 <= c2 <= S c1')%nat).
  { unfold c2. split.
    - unfold kept. cbn [firstn minP_cut]. rewrite F0. lia.
    - etransitivity; [apply minP_cut_le|]. unfold kept. rewrite firstn_length. lia. }
  exists c2. split; [lia|]. split.
  { rewrite Ht. fold kept. unfold minP. unfold kept at 1. cbn [firstn]. fold thr.
    change (t0 :: firstn c1' rest) with kept. fold c2. unfold kept. rewrite firstn_firstn. f_equal. f_equal. lia. }
  split.
  - intros j Hj. change (nthv (t0 :: rest) 0) with (tv t0). fold thr.
    assert (X := minP_cut_kept kept thr j Hj). unfold nthv in *. unfold kept in X. rewrite nth_firstn_lt in X by lia. exact X.
  - intros Fp j Hj. rewrite Fp in Ec1. apply topP_cut_before. rewrite <- Ec1. lia.
Qed.

(** the tail of sample(): on a non-empty list of non-negative numbers a token is returned (no NaN error, no index
    out of range), and unless it is the first one its own value is not a zero *)
Lemma pick_spec : forall ts r, ts <> [] -> Forall nonneg ts -> num r -> (0 <= rk r <= 1)%R ->
  exists k a t, nth_error ts k = Some t /\ pick ts r = Tok a /\ tid a = tid t /\
    (k = 0%nat \/ is_zero (tv t) = false).
Proof.
  intros ts r Hne Hnn Hr Pr.
  set (cs := cumsum fzero ts).
  assert (Hcs : Forall nonneg cs) by (apply cumsum_nonneg; [apply num_fzero|rewrite rk_fzero; lra|easy]).
  assert (Hlen : length cs = length ts) by apply cumsum_length.
  assert (Hn : (1 <= length cs)%nat) by (rewrite Hlen; destruct ts; [easy|cbn; lia]).
  assert (Hcne : cs <> []) by (destruct cs; [cbn in Hn; lia|easy]).
  set (total := tv (last cs (0, fnan))).
  assert (Hl := last_nth_error cs (0, fnan) Hcne).
  assert (Htot : nonneg (last cs (0, fnan))) by (apply nth_error_In in Hl; exact (proj1 (Forall_forall _ _) Hcs _ Hl)).
  destruct Htot as [Nt Pt]. fold total in Nt, Pt.
  set (r' := fmul r total).
  destruct (fmul_unit_l r total Hr Nt Pr Pt) as [Ra Rb]. fold r' in Ra, Rb.
  destruct (bsearch_spec (S (length cs)) cs r' 0 (length cs) ltac:(lia) ltac:(lia) (or_introl eq_refl) (or_introl eq_refl)) as (K1 & K2 & K3).
  set (k := bsearch (S (length cs)) cs r' 0 (length cs)) in *.
  assert (Hk : (k < length cs)%nat).
  { destruct (Nat.eq_dec k (length cs)) as [Ek|]; [|lia]. exfalso.
    destruct K2 as [K2|K2]; [lia|]. rewrite Ek in K2. unfold nthv in K2.
    rewrite (nth_error_nth _ _ _ Hl) in K2. fold total in K2.
    destruct (is_nan r') eqn:Nr; [rewrite flt_nan_r in K2; easy|].
    destruct (Rb eq_refl) as (Rb1 & Rb2). apply flt_true_iff in K2; try easy. lra. }
  destruct (nth_error cs k) as [a|] eqn:Ea; [|apply nth_error_None in Ea; lia].
  destruct (cumsum_tid ts fzero k a Ea) as (t & Tt & Ti).
  exists k, a, t. split; [easy|]. split.
  { unfold pick. destruct ts; [easy|]. fold cs. fold total. fold r'. fold k. destruct Nt as [_ Nt]. now rewrite Nt, Ea. }
  split; [easy|].
  destruct k as [|k']; [now left|right].
  destruct K2 as [K2|K2]; [lia|]. destruct K3 as [K3|K3]; [lia|].
  replace (S k' - 1)%nat with k' in K2 by lia.
  destruct (nth_error cs k') as [a'|] eqn:Ea'; [|apply nth_error_None in Ea'; lia].
  assert (Ea2 := cumsum_nthS ts fzero k' a' Ea' t Tt). fold cs in Ea2. rewrite Ea in Ea2. inversion Ea2; subst a.
  unfold nthv in K2, K3. rewrite (nth_error_nth _ _ _ Ea') in K2. rewrite (nth_error_nth _ _ _ Ea) in K3. cbn [tv snd] in K3.
  destruct (is_zero (tv t)) eqn:Z; [exfalso|easy].
  assert (Na' : num (tv a')) by (apply nth_error_In in Ea'; exact (proj1 (proj1 (Forall_forall _ _) Hcs _ Ea'))).
  destruct (fadd_zero_r (tv a') (tv t) Na' Z) as (Z1 & Z2).
  destruct (is_nan r') eqn:Nr; [rewrite flt_nan_r in K2; easy|].
  destruct (Rb eq_refl) as (Rb1 & Rb2).
  apply flt_true_iff in K2; try easy. apply flt_false_iff in K3; try easy. lra.
Qed.

(** ** everything after topK: a token is returned; it is one of the tokens of the list, inside the prefix kept by
    topP and minP, and - unless it is the first, i.e. a maximal, token - its logit is not -Inf *)
Theorem after_topk_spec : forall pr S r,
  num (eff_temp (p_temp pr)) -> is_inf (eff_temp (p_temp pr)) = false -> (0 < rk (eff_temp (p_temp pr)))%R ->
  num (p_minp pr) -> (0 <= rk (p_minp pr) <= 1)%R ->
  numl S -> (exists t, In t S /\ tv t <> ninf) -> num r -> (0 <= rk r <= 1)%R ->
  let probs := softmax E (temperature S (p_temp pr)) in
  exists k t a, nth_error S k = Some t /\ after_topk E pr S r = Tok a /\ tid a = tid t /\
    (k = 0%nat \/ tv t <> ninf) /\
    flt (nthv probs k) (fmul (nthv probs 0) (p_minp pr)) = false /\
    (feq (p_topp pr) fone = false -> forall j, (j < k)%nat -> fgt (psum fzero probs j) (p_topp pr) = false).
Proof.
  intros pr S r HT FT PT Hmp Pmp HS Hw Hr Pr probs.
  assert (Et : temperature S (p_temp pr) = scaled (eff_temp (p_temp pr)) S) by reflexivity.
  destruct (softmax_scaled _ S HT FT PT HS Hw) as (PV & Eq & HPV).
  assert (Ep : probs = map (fun t => (tid t, PV (tv t))) S) by (unfold probs; now rewrite Et).
  assert (Hne : S <> []) by (destruct Hw as (w & Hw & _); now destruct S).
  assert (Hpne : probs <> []) by (rewrite Ep; destruct S; easy).
  assert (Hnn : Forall nonneg probs).
  { rewrite Ep. apply Forall_forall. intros x Hx. apply in_map_iff in Hx. destruct Hx as (t & <- & Ht).
    destruct (HPV t Ht) as (P1 & P2 & _). now split. }
  destruct (filters_spec probs (p_topp pr) (p_minp pr) Hpne Hnn Hmp Pmp) as (c & Hc & Ef & Fa & Fb).
  assert (Hkne : firstn c probs <> []) by (destruct probs; [easy|]; destruct c; [lia|easy]).
  destruct (pick_spec (firstn c probs) r Hkne (Forall_firstn _ _ _ Hnn) Hr Pr) as (k & a & t' & Tk & Pk & Ti & Kz).
  apply nth_error_firstn_lt in Tk. destruct Tk as [Kc Tk].
  rewrite Ep in Tk. rewrite nth_error_map in Tk. destruct (nth_error S k) as [t|] eqn:Es; [|easy].
  cbn in Tk. inversion Tk; subst t'. clear Tk.
  exists k, t, a. split; [easy|]. split.
  { unfold after_topk. fold probs. now rewrite Ef. }
  split; [easy|]. split.
  { destruct Kz as [Kz|Kz]; [now left|right]. intros X. cbn [tv snd] in Kz.
    destruct (HPV t (nth_error_In _ _ Es)) as (_ & _ & P3). now rewrite (P3 X) in Kz. }
  split; [now apply Fa|]. intros Fp j Hj. apply (Fb Fp). lia.
Qed.


(** * sample / Sample *)
(** the parameters the theorems speak about: numbers, the temperature not infinite *)
Definition params_ok (temp topp minp : sf) : Prop := num temp /\ is_inf temp = false /\ num topp /\ num minp.
(** a draw of rng.Float32(): a number in [0,1] *)
Definition draw_ok (r : sf) : Prop := num r /\ (0 <= rk r <= 1)%R.

Lemma new_sampler_facts : forall temp k topp minp, params_ok temp topp minp ->
  let pr := new_sampler temp k topp minp in
  num (p_minp pr) /\ (0 <= rk (p_minp pr) <= 1)%R /\
  (feq (p_temp pr) fzero = false ->
     num (eff_temp (p_temp pr)) /\ is_inf (eff_temp (p_temp pr)) = false /\ (0 < rk (eff_temp (p_temp pr)))%R).
Proof.
  intros temp k topp minp (Ht & Ft & Hp & Hm). cbn [new_sampler p_minp p_temp].
  destruct (clamp01_unit minp Hm) as (C1 & C2). split; [easy|]. split; [easy|].
  intros Fz. destruct (clamp_temp_pos temp Ht Ft) as (T1 & T2 & T3). now apply eff_temp_num; [| |apply T3].
Qed.

Lemma not_ninf_rk : forall x, num x -> x <> ninf -> (- BIG < rk x)%R.
Proof.
  intros x Hx Nx. assert (Q := rk_range x Hx). destruct (Req_dec (rk x) (- BIG)) as [X|X]; [|lra].
  apply (rk_ninf_iff x Hx) in X. easy.
Qed.

Lemma rk_gt_not_ninf : forall x, (- BIG < rk x)%R -> x <> ninf.
Proof. intros x H X. subst. rewrite rk_ninf in H. lra. Qed.

(** ** the weighted path on any legal topK result *)
Theorem after_topk_legal : forall temp k topp minp logits r S,
  params_ok temp topp minp -> draw_ok r -> Forall num logits ->
  (exists x, In x logits /\ x <> ninf) ->
  let pr := new_sampler temp k topp minp in
  feq (p_temp pr) fzero = false ->
  legal_topk (enumerate 0 logits) k S ->
  let probs := softmax E (temperature S (p_temp pr)) in
  exists i t a, nth_error S i = Some t /\ after_topk E pr S r = Tok a /\ tid a = tid t /\
    (* inside the vocabulary, and the logit of the returned id is the token's value, not -Inf *)
    0 <= tid a < Z.of_nat (length logits) /\ nth_error logits (Z.to_nat (tid a)) = Some (tv t) /\ tv t <> ninf /\
    (* inside the min-p set and the top-p prefix computed on S *)
    flt (nthv probs i) (fmul (nthv probs 0) (p_minp pr)) = false /\
    (feq (p_topp pr) fone = false -> forall j, (j < i)%nat -> fgt (psum fzero probs j) (p_topp pr) = false).
Proof.
  intros temp k topp minp logits r S Hp (Hr & Pr) Hl (x & Hx & Nx) pr Fz HS probs.
  destruct (new_sampler_facts temp k topp minp Hp) as (M1 & M2 & M3). fold pr in M1, M2, M3.
  destruct (M3 Fz) as (T1 & T2 & T3).
  set (ts := enumerate 0 logits) in *.
  assert (Hts : numl ts) by now apply enumerate_numl.
  assert (Hne : ts <> []) by (unfold ts; destruct logits; [easy|easy]).
  destruct (legal_facts ts k S Hts Hne HS) as (L1 & L2 & L3 & h & rest & ES & Hh).
  destruct (enumerate_vals logits 0 x Hx) as (tx & Tx1 & Tx2). fold ts in Tx1.
  assert (Nh : tv h <> ninf).
  { apply rk_gt_not_ninf. assert (A := Hh tx Tx1). rewrite Tx2 in A.
    assert (B := not_ninf_rk x (proj1 (Forall_forall _ _) Hl x Hx) Nx). lra. }
  assert (Hw : exists t, In t S /\ tv t <> ninf) by (exists h; split; [rewrite ES; now left|easy]).
  destruct (after_topk_spec pr S r T1 T2 T3 M1 M2 L1 Hw Hr Pr) as (i & t & a & A1 & A2 & A3 & A4 & A5 & A6).
  exists i, t, a. split; [easy|]. split; [easy|]. split; [easy|].
  assert (It : In t ts) by (apply L2; now apply nth_error_In in A1).
  destruct (enumerate_In logits 0 t It) as (R1 & R2). rewrite Z.sub_0_r in R2.
  split; [rewrite A3; lia|]. split; [now rewrite A3|]. split.
  { destruct A4 as [A4|A4]; [|easy]. subst i. rewrite ES in A1. cbn in A1. now inversion A1; subst. }
  split; [easy|easy].
Qed.

(** ** Sample: a token, inside the vocabulary, whose logit is not -Inf, whenever some logit is not -Inf *)
Theorem Sample_admissible : forall temp k topp minp logits r,
  params_ok temp topp minp -> draw_ok r -> Forall num logits ->
  (exists x, In x logits /\ x <> ninf) ->
  exists a v, Sample E (new_sampler temp k topp minp) logits r = Tok a /\
    0 <= tid a < Z.of_nat (length logits) /\ nth_error logits (Z.to_nat (tid a)) = Some v /\ v <> ninf.
Proof.
  intros temp k topp minp logits r Hp Hr Hl (x & Hx & Nx).
  set (pr := new_sampler temp k topp minp).
  unfold Sample. destruct logits as [|l0 lr]; [easy|]. cbv beta iota. set (logits := l0 :: lr) in *.
  set (ts := enumerate 0 logits).
  assert (Hts : numl ts) by now apply enumerate_numl.
  unfold sample. destruct ts as [|t0 trest] eqn:Ets. { easy. }
  destruct (feq (p_temp pr) fzero) eqn:Fz.
  - inversion Hts as [|? ? H0 Hrest]; subst.
    destruct (greedy_from_max trest t0 H0 Hrest) as (G1 & G2 & G3 & G4).
    set (g := greedy_from t0 trest) in *. rewrite <- Ets in G1.
    destruct (enumerate_In logits 0 g G1) as (R1 & R2). rewrite Z.sub_0_r in R2.
    exists g, (tv g). split; [easy|]. split; [lia|]. split; [easy|].
    destruct (enumerate_vals logits 0 x Hx) as (tx & Tx1 & Tx2). fold ts in Tx1. rewrite Ets in Tx1.
    apply rk_gt_not_ninf.
    assert (B := not_ninf_rk x (proj1 (Forall_forall _ _) Hl x Hx) Nx).
    destruct Tx1 as [<-|Tx1]; [rewrite Tx2 in G3; lra|]. apply G4 in Tx1. rewrite Tx2 in Tx1. lra.
  - rewrite <- Ets.
    destruct (after_topk_legal temp k topp minp logits r (topK ts (p_topk pr)) Hp Hr Hl (ex_intro _ x (conj Hx Nx)) Fz)
      as (i & t & a & A1 & A2 & A3 & A4 & A5 & A6 & _).
    { apply topK_legal. fold ts. now rewrite Ets. }
    exists a, (tv t). fold pr in A2. fold ts in A2. now repeat split.
Qed.

(** ** temperature zero: a highest-logit token *)
Theorem Sample_greedy : forall temp k topp minp logits r,
  Forall num logits -> logits <> [] ->
  feq (p_temp (new_sampler temp k topp minp)) fzero = true ->
  exists a, Sample E (new_sampler temp k topp minp) logits r = Tok a /\
    0 <= tid a < Z.of_nat (length logits) /\ nth_error logits (Z.to_nat (tid a)) = Some (tv a) /\
    forall x, In x logits -> flt (tv a) x = false.
Proof.
  intros temp k topp minp logits r Hl Hne Fz.
  unfold Sample. destruct logits as [|l0 lr]; [easy|]. cbv beta iota. set (logits := l0 :: lr) in *.
  set (ts := enumerate 0 logits).
  assert (Hts : numl ts) by now apply enumerate_numl.
  unfold sample. destruct ts as [|t0 trest] eqn:Ets. { easy. }
  rewrite Fz. inversion Hts as [|? ? H0 Hrest]; subst.
  destruct (greedy_from_max trest t0 H0 Hrest) as (G1 & G2 & G3 & G4).
  set (g := greedy_from t0 trest) in *. rewrite <- Ets in G1.
  destruct (enumerate_In logits 0 g G1) as (R1 & R2). rewrite Z.sub_0_r in R2.
  exists g. split; [easy|]. split; [lia|]. split; [easy|].
  intros x Hx. destruct (enumerate_vals logits 0 x Hx) as (tx & Tx1 & Tx2). fold ts in Tx1. rewrite Ets in Tx1.
  apply flt_false_iff; [easy|exact (proj1 (Forall_forall _ _) Hl x Hx)|].
  destruct Tx1 as [<-|Tx1]; [now rewrite <- Tx2|]. apply G4 in Tx1. now rewrite Tx2 in Tx1.
Qed.

(** ** all logits -Inf (everything masked): the NaN guard reports an error, nothing panics *)
Hypothesis E_nan : is_nan (E fnan) = true.

Lemma flt_nan_l : forall a b, is_nan a = true -> flt a b = false.
Proof. intros [s|s| |s m e] b H; try easy. Qed.
Lemma fadd_nan_r : forall x y, is_nan y = true -> is_nan (fadd x y) = true.
Proof. intros x [s|s| |s m e] H; try easy. now destruct x. Qed.
Lemma fdiv_nan_r : forall x y, is_nan y = true -> is_nan (fdiv x y) = true.
Proof. intros x [s|s| |s m e] H; try easy. now destruct x. Qed.

Definition alln (l : list tok) : Prop := Forall (fun t => is_nan (tv t) = true) l.

Lemma cumsum_alln : forall l s, alln l -> alln (cumsum s l).
Proof.
  induction l as [|x r IH]; intros s H; [constructor|]. inversion H; subst. cbn [cumsum].
  constructor; [cbn [tv snd]; now apply fadd_nan_r|now apply IH].
Qed.

Lemma pick_alln : forall ts r, ts <> [] -> alln ts -> pick ts r = ErrNaN.
Proof.
  intros ts r Hne H. unfold pick. destruct ts as [|t0 rest] eqn:Ets; [easy|]. rewrite <- Ets in *.
  set (cs := cumsum fzero ts).
  assert (Hcs : alln cs) by now apply cumsum_alln.
  assert (Hcne : cs <> []) by (unfold cs; rewrite Ets; easy).
  assert (Hl := last_nth_error cs (0, fnan) Hcne). apply nth_error_In in Hl.
  now rewrite (proj1 (Forall_forall _ _) Hcs _ Hl).
Qed.

Lemma filters_alln : forall probs p mp r, probs <> [] -> alln probs ->
  match minP (topP probs p) mp with Some ts' => pick ts' r = ErrNaN | None => False end.
Proof.
  intros probs p mp r Hne H.
  assert (Ht : exists c1, (1 <= c1)%nat /\ topP probs p = firstn c1 probs).
  { unfold topP. destruct (feq p fone).
    - exists (length probs). split; [destruct probs; [easy|cbn; lia]|now rewrite firstn_all].
    - exists (topP_cut p fzero probs). split; [now apply topP_cut_pos|easy]. }
  destruct Ht as (c1 & Hc1 & ->). destruct probs as [|t0 rest]; [easy|]. destruct c1 as [|c1']; [lia|].
  cbn [firstn minP]. set (kept := t0 :: firstn c1' rest). set (thr := fmul (tv t0) mp).
  assert (Hk : alln kept) by (inversion H; subst; constructor; [easy|now apply Forall_firstn]).
  apply pick_alln.
  - unfold kept. cbn [minP_cut]. inversion H; subst. now rewrite flt_nan_l.
  - now apply Forall_firstn.
Qed.

Lemma max_logit_all_ninf : forall l, Forall (fun t => tv t = ninf) l -> max_logit l = ninf.
Proof.
  unfold max_logit. induction l as [|x r IH]; intros H; [easy|]. inversion H as [|? ? Hx Hr]; subst.
  cbn [fold_left]. rewrite Hx. cbn. now apply IH.
Qed.

Theorem after_topk_all_masked : forall pr S r,
  num (eff_temp (p_temp pr)) -> is_inf (eff_temp (p_temp pr)) = false -> (0 < rk (eff_temp (p_temp pr)))%R ->
  S <> [] -> Forall (fun t => tv t = ninf) S -> after_topk E pr S r = ErrNaN.
Proof.
  intros pr S r HT FT PT Hne Hall. unfold after_topk.
  set (T := eff_temp (p_temp pr)) in *.
  assert (Hsc : Forall (fun t => tv t = ninf) (temperature S (p_temp pr))).
  { unfold temperature. fold T. apply Forall_forall. intros t Ht. apply in_map_iff in Ht. destruct Ht as (x & <- & Hx).
    cbn [tv snd]. rewrite (proj1 (Forall_forall _ _) Hall x Hx). now apply scale_num; [| | |apply num_ninf|]. }
  set (sc := temperature S (p_temp pr)) in *.
  assert (Hsne : sc <> []) by (unfold sc, temperature; destruct S; easy).
  assert (Hp : alln (softmax E sc)).
  { unfold softmax. rewrite (max_logit_all_ninf sc Hsc).
    apply Forall_forall. intros t Ht. apply in_map_iff in Ht. destruct Ht as (x & <- & Hx). cbn [tv snd].
    apply fdiv_nan_r.
    destruct sc as [|s0 srest]; [easy|]. cbn [map fold_left]. inversion Hsc as [|? ? H0 _]; subst.
    rewrite H0. change (sm_diff ninf ninf) with fnan.
    generalize (map (fun t => (tid t, E (sm_diff ninf (tv t)))) srest).
    assert (N0 : is_nan (fadd fzero (tv (tid s0, E fnan))) = true) by (apply fadd_nan_r; exact E_nan).
    revert N0. generalize (fadd fzero (tv (tid s0, E fnan))).
    intros acc Na l. revert acc Na. induction l as [|y l IH]; intros acc Na; [easy|]. cbn [fold_left].
    apply IH. now destruct acc. }
  assert (Hpne : softmax E sc <> []) by (unfold softmax; destruct sc; easy).
  assert (X := filters_alln (softmax E sc) (p_topp pr) (p_minp pr) r Hpne Hp).
  now destruct (minP (topP (softmax E sc) (p_topp pr)) (p_minp pr)).
Qed.

Theorem Sample_all_masked : forall temp k topp minp logits r,
  params_ok temp topp minp -> logits <> [] -> Forall (fun x => x = ninf) logits ->
  feq (p_temp (new_sampler temp k topp minp)) fzero = false ->
  Sample E (new_sampler temp k topp minp) logits r = ErrNaN.
Proof.
  intros temp k topp minp logits r Hp Hne Hall Fz.
  set (pr := new_sampler temp k topp minp) in *.
  destruct (new_sampler_facts temp k topp minp Hp) as (_ & _ & M3). fold pr in M3. destruct (M3 Fz) as (T1 & T2 & T3).
  unfold Sample. destruct logits as [|l0 lr]; [easy|]. cbv beta iota. set (logits := l0 :: lr) in *.
  set (ts := enumerate 0 logits).
  assert (Hl : Forall num logits).
  { apply Forall_forall. intros x Hx. rewrite (proj1 (Forall_forall _ _) Hall x Hx). apply num_ninf. }
  assert (Hts : numl ts) by now apply enumerate_numl.
  assert (Htne : ts <> []) by easy.
  unfold sample. destruct ts as [|t0 trest] eqn:Ets; [easy|]. rewrite Fz. rewrite <- Ets in *.
  destruct (legal_facts ts (p_topk pr) (topK ts (p_topk pr)) Hts Htne (topK_legal ts _ Hts)) as (L1 & L2 & L3 & h & rest & ES & _).
  apply after_topk_all_masked; try easy.
  - now rewrite ES.
  - apply Forall_forall. intros t Ht. apply L2 in Ht. destruct (enumerate_In logits 0 t Ht) as (_ & R2).
    apply nth_error_In in R2. exact (proj1 (Forall_forall _ _) Hall _ R2).
Qed.

(** ** bounds safety: Sample never indexes out of range *)
Theorem Sample_no_panic : forall temp k topp minp logits r,
  params_ok temp topp minp -> draw_ok r -> Forall num logits ->
  Sample E (new_sampler temp k topp minp) logits r <> Panic.
Proof.
  intros temp k topp minp logits r Hp Hr Hl.
  destruct logits as [|l0 lr] eqn:El; [easy|]. rewrite <- El in *. assert (Hne : logits <> []) by now rewrite El.
  destruct (feq (p_temp (new_sampler temp k topp minp)) fzero) eqn:Fz.
  - destruct (Sample_greedy temp k topp minp logits r Hl Hne Fz) as (a & -> & _). easy.
  - destruct (forallb is_ninf logits) eqn:Fa.
    + rewrite Sample_all_masked; try easy.
      apply Forall_forall. intros x Hx. rewrite forallb_forall in Fa. specialize (Fa x Hx).
      destruct x as [s|[|]| |s m e]; easy.
    + assert (Ex : exists x, In x logits /\ x <> ninf).
      { destruct (existsb (fun x => negb (is_ninf x)) logits) eqn:Eb.
        - apply existsb_exists in Eb. destruct Eb as (x & X1 & X2). exists x. split; [easy|]. intros ->. easy.
        - exfalso. assert (forallb is_ninf logits = true); [|congruence].
          apply forallb_forall. intros x Hx.
          destruct (is_ninf x) eqn:Nx; [easy|]. exfalso.
          assert (existsb (fun x => negb (is_ninf x)) logits = true) by (apply existsb_exists; exists x; now rewrite Nx).
          congruence. }
      destruct (Sample_admissible temp k topp minp logits r Hp Hr Hl Ex) as (a & v & -> & _). easy.
Qed.

End Sampler.

(** * determinism: the result is a function of logits, parameters and the draws consumed *)
Fixpoint ndraws (pr : params) (stream : list (list sf)) : nat :=
  match stream with
  | [] => O
  | l :: rest => (if draws pr l then 1 else 0) + ndraws pr rest
  end.

Lemma Sample_stream_draws : forall E pr stream rs1 rs2,
  firstn (ndraws pr stream) rs1 = firstn (ndraws pr stream) rs2 ->
  (ndraws pr stream <= length rs1)%nat -> (ndraws pr stream <= length rs2)%nat ->
  Sample_stream E pr stream rs1 = Sample_stream E pr stream rs2.
Proof.
  intros E pr. induction stream as [|l rest IH]; intros rs1 rs2 H L1 L2; [easy|].
  cbn [Sample_stream ndraws] in *. destruct (draws pr l).
  - destruct rs1 as [|a rs1]; [cbn in L1; lia|]. destruct rs2 as [|b rs2]; [cbn in L2; lia|].
    cbn in H. inversion H; subst. f_equal. apply IH; [easy|cbn in L1; lia|cbn in L2; lia].
  - f_equal. now apply IH.
Qed.
