(** Lemmas about the sampler model. *)
From Coq Require Import ZArith List Bool SpecFloat Lia.
From V Require Import Sample.F32 Sample.Model.
Import ListNotations.
Open Scope Z_scope.

Lemma greedy_from_In : forall l mx, In (greedy_from mx l) (mx :: l).
Proof.
  induction l as [|t r IH]; intros mx; cbn [greedy_from].
  - now left.
  - destruct (IH (if fgt (tv t) (tv mx) then t else mx)) as [H|H].
    + destruct (fgt (tv t) (tv mx)); rewrite <- H; [right; now left | now left].
    + right; now right.
Qed.
