(** The probabilities computed from a descending list of logits are descending (so that "the first tokens whose
    cumulative probability exceeds p" and "the tokens before the first one below the threshold" are the textbook top-p
    and min-p sets).  Needs one more hypothesis on the exp oracle: monotonicity on the non-positive numbers. *)
From Coq Require Import ZArith List Bool SpecFloat Lia Reals Lra Permutation Sorted.
From V Require Import Sample.F32 Sample.Model Sample.F32Facts Sample.F32Mono Sample.Proofs.
Import ListNotations.
Open Scope Z_scope.

Lemma StronglySorted_map_mono : forall (R R' : tok -> tok -> Prop) (f : tok -> tok) l,
  (forall a b, In a l -> In b l -> R a b -> R' (f a) (f b)) ->
  StronglySorted R l -> StronglySorted R' (map f l).
Proof.
  induction l as [|x r IH]; intros Hf Hs; [constructor|]. inversion Hs as [|? ? Sr Fx]; subst. cbn [map]. constructor.
  - apply IH; [|easy]. intros a b Ha Hb. apply Hf; now right.
  - apply Forall_forall. intros y Hy. apply in_map_iff in Hy. destruct Hy as (z & <- & Hz).
    apply Hf; [now left|now right|]. exact (proj1 (Forall_forall _ _) Fx z Hz).
Qed.

Section Mono.
Variable E : sf -> sf.
Hypothesis E_range : forall x, num x -> (rk x <= 0)%R -> num (E x) /\ (0 <= rk (E x) <= 1)%R.
Hypothesis E_zero : forall x, is_zero x = true -> E x = fone.
Hypothesis E_mono : forall x y, num x -> num y -> (rk x <= rk y)%R -> (rk y <= 0)%R -> (rk (E x) <= rk (E y))%R.

Theorem probs_sorted : forall T S, num T -> is_inf T = false -> (0 < rk T)%R -> numl S ->
  (exists t, In t S /\ tv t <> ninf) ->
  StronglySorted descR S -> StronglySorted descR (softmax E (scaled T S)).
Proof.
  intros T S HT FT PT HS (w & Hw & Nw) Sorted.
  set (sc := scaled T S). set (mx := max_logit sc).
  set (es := map (fun t => (tid t, E (sm_diff mx (tv t)))) sc).
  set (sum := fold_left (fun s t => fadd s (tv t)) es fzero).
  assert (Eq : softmax E sc = map (fun t => (tid t, fdiv (E (sm_diff mx (scale T (tv t)))) sum)) S).
  { unfold softmax. fold mx. fold es. fold sum. unfold es, sc, scaled. rewrite !map_map. apply map_ext. now intros [i v]. }
  assert (Hsc : numl sc) by now apply scaled_numl.
  destruct (max_fold sc ninf num_ninf Hsc) as (M1 & M2 & M3 & M4). fold (max_logit sc) in M1, M2, M3, M4. fold mx in M1, M2, M3, M4.
  assert (G0 := BIG_pos).
  assert (Mn : mx <> ninf).
  { intros X. assert (Hsw : In (tid w, scale T (tv w)) sc) by (apply in_map_iff; now exists w).
    apply M3 in Hsw. cbn [tv snd] in Hsw. rewrite X, rk_ninf in Hsw.
    destruct (scale_num T (tv w) HT FT PT (numl_In S w HS Hw)) as (S1 & S2 & S3 & S4).
    assert (Q := rk_range _ S1). assert (rk (scale T (tv w)) = (- BIG)%R) by lra.
    apply (rk_ninf_iff _ S1) in H.
    destruct (tv w) as [s|[|]| |s m e] eqn:Ew; try easy.
    - specialize (S4 eq_refl). now rewrite H in S4.
    - specialize (S3 eq_refl). now rewrite H in S3.
    - specialize (S4 eq_refl). now rewrite H in S4. }
  assert (Hd : forall v, num v -> (rk v <= rk mx)%R -> num (sm_diff mx v) /\ (rk (sm_diff mx v) <= 0)%R).
  { intros v Hv Le. unfold sm_diff. destruct (is_pinf v) eqn:Pv.
    - split; [apply num_fzero|rewrite rk_fzero; lra].
    - destruct (is_pinf mx) eqn:Pm.
      + assert (mx = pinf) by (destruct mx as [s|[|]| |s m e]; easy). subst mx. rewrite H.
        rewrite fsub_pinf_r; [|apply Hv|easy]. split; [apply num_ninf|rewrite rk_ninf; lra].
      + apply fsub_le; try easy. destruct mx as [s|[|]| |s m e]; easy. }
  assert (He : Forall nonneg es).
  { apply Forall_forall. intros t Ht. apply in_map_iff in Ht. destruct Ht as (x & <- & Hx).
    cbn [tv snd]. destruct (Hd (tv x) (numl_In sc x Hsc Hx) (M3 x Hx)) as (D1 & D2).
    destruct (E_range _ D1 D2) as (E1 & E2). split; cbn [tv snd]; [easy|lra]. }
  destruct (sum_fold es fzero num_fzero ltac:(rewrite rk_fzero; lra) He) as (U1 & U2 & U3). fold sum in U1, U2, U3.
  assert (Ps : (1 <= rk sum)%R).
  { destruct M4 as [M4|(t & T1 & T2)]; [easy|].
    assert (In (tid t, E (sm_diff mx (tv t))) es) by (apply in_map_iff; now exists t).
    apply U3 in H. cbn [tv snd] in H. rewrite T2 in H.
    assert (is_zero (sm_diff mx mx) = true).
    { unfold sm_diff. destruct (is_pinf mx) eqn:Pm; [easy|]. apply fsub_self; [apply M1|]. destruct mx as [s|[|]| |s m e]; easy. }
    rewrite (E_zero _ H0), rk_fone in H. exact H. }
  fold sc. rewrite Eq. apply (StronglySorted_map_mono descR descR); [|easy].
  intros a b Ha Hb Rab. unfold descR in *. cbn [tv snd].
  assert (Hsa : In (tid a, scale T (tv a)) sc) by (apply in_map_iff; now exists a).
  assert (Hsb : In (tid b, scale T (tv b)) sc) by (apply in_map_iff; now exists b).
  assert (Na := numl_In sc _ Hsc Hsa). assert (Nb := numl_In sc _ Hsc Hsb). cbn [tv snd] in Na, Nb.
  assert (La := M3 _ Hsa). assert (Lb := M3 _ Hsb). cbn [tv snd] in La, Lb.
  assert (Sm : (rk (scale T (tv b)) <= rk (scale T (tv a)))%R).
  { apply scale_mono; try easy; [now apply (numl_In S)|now apply (numl_In S)]. }
  assert (Dm := sm_diff_mono mx _ _ M1 Mn Nb Na Sm La).
  destruct (Hd _ Na La) as (Da1 & Da2). destruct (Hd _ Nb Lb) as (Db1 & Db2).
  assert (Em := E_mono _ _ Db1 Da1 Dm Da2).
  destruct (E_range _ Da1 Da2) as (Ea1 & Ea2). destruct (E_range _ Db1 Db2) as (Eb1 & Eb2).
  apply fdiv_mono; try easy; lra.
Qed.

End Mono.

(** * the cuts on a descending list *)
(** minP keeps exactly the tokens that are not below the threshold *)
Lemma minP_cut_exact : forall l thr, numl l -> num thr -> StronglySorted descR l ->
  forall j, (j < length l)%nat -> ((j < minP_cut thr l)%nat <-> flt (nthv l j) thr = false).
Proof.
  induction l as [|x r IH]; intros thr Hl Ht Hs j Hj; [cbn in Hj; lia|].
  inversion Hl as [|? ? Hx Hr]; subst. inversion Hs as [|? ? Sr Fx]; subst.
  cbn [minP_cut]. destruct (flt (tv x) thr) eqn:F.
  - split; [lia|]. intros X. exfalso.
    destruct j; [unfold nthv in X; cbn in X; congruence|].
    apply flt_true_iff in F; try easy.
    unfold nthv in X. cbn [nth] in X.
    assert (In (nth j r (0, fnan)) r) by (apply nth_In; cbn in Hj; lia).
    assert (Ny := numl_In r _ Hr H). apply flt_false_iff in X; try easy.
    assert (Y := proj1 (Forall_forall _ _) Fx _ H). unfold descR in Y. lra.
  - destruct j; [split; [intros _; exact F|lia]|].
    unfold nthv. cbn [nth]. cbn [length] in Hj. specialize (IH thr Hr Ht Sr j ltac:(lia)). unfold nthv in IH.
    split; intros X; [apply IH; lia|apply IH in X; lia].
Qed.

(** topP keeps the shortest prefix whose cumulative sum exceeds p, or everything when no prefix does *)
Lemma topP_cut_hit : forall l p s, l <> [] ->
  fgt (psum s l (topP_cut p s l - 1)) p = true \/
  (topP_cut p s l = length l /\ forall j, (j < length l)%nat -> fgt (psum s l j) p = false).
Proof.
  induction l as [|x r IH]; intros p s Hne; [easy|]. cbn [topP_cut].
  destruct (fgt (fadd s (tv x)) p) eqn:F.
  - left. cbn. exact F.
  - destruct r as [|y r'].
    + right. cbn. split; [easy|]. intros j Hj. assert (j = 0%nat) by lia. subst. exact F.
    + destruct (IH p (fadd s (tv x)) ltac:(easy)) as [H|[H1 H2]].
      * left. assert (Q := topP_cut_pos (y :: r') p (fadd s (tv x)) ltac:(easy)).
        replace (S (topP_cut p (fadd s (tv x)) (y :: r')) - 1)%nat with (S (topP_cut p (fadd s (tv x)) (y :: r') - 1)) by lia.
        exact H.
      * right. split; [cbn [length] in *; lia|]. intros j Hj. destruct j; [exact F|]. cbn [psum]. apply H2. cbn [length] in *. lia.
Qed.

(** * for the sampler: legal topK results give descending probabilities *)
Lemma StronglySorted_firstn : forall (R : tok -> tok -> Prop) n l, StronglySorted R l -> StronglySorted R (firstn n l).
Proof.
  intros R n l. revert n. induction l as [|x r IH]; intros n H; [now rewrite firstn_nil|].
  destruct n; [constructor|]. inversion H as [|? ? Sr Fx]; subst. cbn [firstn]. constructor; [now apply IH|].
  apply Forall_forall. intros y Hy. apply firstn_In in Hy. exact (proj1 (Forall_forall _ _) Fx y Hy).
Qed.

Section MonoTop.
Variable E : sf -> sf.
Hypothesis E_range : forall x, num x -> (rk x <= 0)%R -> num (E x) /\ (0 <= rk (E x) <= 1)%R.
Hypothesis E_zero : forall x, is_zero x = true -> E x = fone.
Hypothesis E_ninf : is_zero (E ninf) = true.
Hypothesis E_mono : forall x y, num x -> num y -> (rk x <= rk y)%R -> (rk y <= 0)%R -> (rk (E x) <= rk (E y))%R.

Theorem probs_sorted_legal : forall temp k topp minp logits S,
  params_ok temp topp minp -> Forall num logits ->
  (exists x, In x logits /\ x <> ninf) ->
  let pr := new_sampler temp k topp minp in
  feq (p_temp pr) fzero = false ->
  legal_topk (enumerate 0 logits) k S ->
  let probs := softmax E (temperature S (p_temp pr)) in
  numl probs /\ StronglySorted desc probs.
Proof.
  intros temp k topp minp logits S Hp Hl (x & Hx & Nx) pr Fz HS probs.
  destruct (new_sampler_facts temp k topp minp Hp) as (_ & _ & M3). fold pr in M3. destruct (M3 Fz) as (T1 & T2 & T3).
  set (ts := enumerate 0 logits) in *.
  assert (Hts : numl ts) by now apply enumerate_numl.
  assert (Hne : ts <> []) by (unfold ts; destruct logits; [easy|easy]).
  destruct (legal_facts ts k S Hts Hne HS) as (L1 & L2 & L3 & h & rest & ES & Hh).
  destruct (enumerate_vals logits 0 x Hx) as (tx & Tx1 & Tx2). fold ts in Tx1.
  assert (Nh : tv h <> ninf).
  { apply rk_gt_not_ninf. assert (A := Hh tx Tx1). rewrite Tx2 in A.
    assert (B := not_ninf_rk x (proj1 (Forall_forall _ _) Hl x Hx) Nx). lra. }
  assert (Hw : exists t, In t S /\ tv t <> ninf) by (exists h; split; [rewrite ES; now left|easy]).
  assert (Sorted : StronglySorted descR S).
  { destruct HS as (L & P & Ss & ->). apply StronglySorted_firstn. apply desc_descR; [|easy].
    apply (numl_perm ts); [now symmetry|easy]. }
  assert (Et : temperature S (p_temp pr) = scaled (eff_temp (p_temp pr)) S) by reflexivity.
  destruct (softmax_scaled E E_range E_zero E_ninf _ S T1 T2 T3 L1 Hw) as (PV & Eq & HPV).
  assert (Np : numl probs).
  { unfold probs. rewrite Et, Eq. apply Forall_forall. intros y Hy. apply in_map_iff in Hy. destruct Hy as (t & <- & Ht).
    cbn [tv snd]. now apply HPV. }
  split; [easy|]. apply descR_desc; [easy|]. unfold probs. rewrite Et.
  now apply (probs_sorted E E_range E_zero E_mono).
Qed.
End MonoTop.
