(** Soundness of the executable legality check of Corr.v: whenever the check accepted the implementation's topK
    output, that output is a legal topK result in the sense of the theorems (Proofs.legal_topk). *)
From Coq Require Import ZArith List Bool SpecFloat Lia Reals Lra Permutation Sorted.
From V Require Import Sample.F32 Sample.Model Sample.F32Facts Sample.Proofs Sample.Corr.
Import ListNotations.
Open Scope Z_scope.

Lemma sf_same_eq : forall x y, sf_same x y = true -> x = y.
Proof.
  intros [s|s| |s m e] [s'|s'| |s' m' e']; cbn; try easy.
  - intros H. apply eqb_prop in H. now subst.
  - intros H. apply eqb_prop in H. now subst.
  - intros H. apply andb_prop in H. destruct H as [H H3]. apply andb_prop in H. destruct H as [H1 H2].
    apply eqb_prop in H1. apply Pos.eqb_eq in H2. apply Z.eqb_eq in H3. now subst.
Qed.

Lemma tok_same_eq : forall a b, tok_same a b = true -> a = b.
Proof.
  intros [i v] [j w] H. unfold tok_same in H. cbn [tid tv fst snd] in H. apply andb_prop in H. destruct H as [H1 H2].
  apply Z.eqb_eq in H1. apply sf_same_eq in H2. now subst.
Qed.

Lemma distinct_NoDup : forall l, distinct l = true -> NoDup l.
Proof.
  induction l as [|x r IH]; intros H; [constructor|]. cbn [distinct] in H. apply andb_prop in H. destruct H as [H1 H2].
  constructor; [|now apply IH]. intros X. apply negb_true_iff in H1.
  assert (existsb (Z.eqb x) r = true) by (apply existsb_exists; exists x; split; [easy|apply Z.eqb_refl]). congruence.
Qed.

Lemma NoDup_map_inv' : forall (l : list tok), NoDup (map tid l) -> NoDup l.
Proof.
  induction l as [|x r IH]; intros H; [constructor|]. cbn [map] in H. inversion H; subst. constructor; [|now apply IH].
  intros X. apply H2. now apply in_map.
Qed.

Lemma same_id_eq : forall (l : list tok) a b, NoDup (map tid l) -> In a l -> In b l -> tid a = tid b -> a = b.
Proof.
  induction l as [|x r IH]; intros a b H Ha Hb E; [easy|]. cbn [map] in H. inversion H as [|? ? Nx Nr]; subst.
  destruct Ha as [<-|Ha], Hb as [<-|Hb]; try easy.
  - exfalso. apply Nx. rewrite E. now apply in_map.
  - exfalso. apply Nx. rewrite <- E. now apply in_map.
  - now apply IH.
Qed.

Lemma sorted_descb_strong : forall l, numl l -> sorted_descb l = true -> StronglySorted descR l.
Proof.
  intros l Hl H. apply Sorted_StronglySorted.
  { intros a b c Hab Hbc. unfold descR in *. lra. }
  induction l as [|a r IH]; [constructor|]. inversion Hl as [|? ? Ha Hr]; subst.
  destruct r as [|b r']; [repeat constructor|].
  cbn [sorted_descb] in H. apply andb_prop in H. destruct H as [H1 H2]. apply negb_true_iff in H1.
  constructor; [now apply IH|]. constructor. unfold descR. inversion Hr; subst. apply flt_false_iff; easy.
Qed.

Lemma StronglySorted_app : forall (R : tok -> tok -> Prop) l1 l2,
  StronglySorted R l1 -> StronglySorted R l2 -> (forall a b, In a l1 -> In b l2 -> R a b) ->
  StronglySorted R (l1 ++ l2).
Proof.
  induction l1 as [|x r IH]; intros l2 H1 H2 Hc; [easy|]. inversion H1 as [|? ? Sr Fx]; subst. cbn [app]. constructor.
  - apply IH; try easy. intros a b Ha Hb. apply Hc; [now right|easy].
  - apply Forall_forall. intros y Hy. apply in_app_or in Hy. destruct Hy as [Hy|Hy].
    + exact (proj1 (Forall_forall _ _) Fx y Hy).
    + apply Hc; [now left|easy].
Qed.

Lemma NoDup_app' : forall (l1 l2 : list tok), NoDup l1 -> NoDup l2 -> (forall x, In x l1 -> In x l2 -> False) -> NoDup (l1 ++ l2).
Proof.
  induction l1 as [|x r IH]; intros l2 H1 H2 Hd; [easy|]. inversion H1; subst. cbn [app]. constructor.
  - intros X. apply in_app_or in X. destruct X as [X|X]; [easy|]. apply (Hd x); [now left|easy].
  - apply IH; try easy. intros y Hy. apply Hd. now right.
Qed.

Lemma NoDup_filter' : forall (f : tok -> bool) l, NoDup l -> NoDup (filter f l).
Proof.
  induction l as [|x r IH]; intros H; [constructor|]. inversion H; subst. cbn [filter]. destruct (f x); [|now apply IH].
  constructor; [|now apply IH]. intros X. apply filter_In in X. easy.
Qed.

Theorem legal_topkb_sound : forall ts k out,
  numl ts -> NoDup (map tid ts) -> legal_topkb ts k out = true -> legal_topk ts k out.
Proof.
  intros ts k out Hts Hnd H. unfold legal_topkb in H.
  apply andb_prop in H. destruct H as [H H5]. apply andb_prop in H. destruct H as [H H4].
  apply andb_prop in H. destruct H as [H H3]. apply andb_prop in H. destruct H as [H1 H2].
  apply Nat.eqb_eq in H1.
  assert (Incl : forall o, In o out -> In o ts).
  { intros o Ho. rewrite forallb_forall in H3. specialize (H3 o Ho). apply existsb_exists in H3.
    destruct H3 as (t & T1 & T2). apply tok_same_eq in T2. now subst. }
  assert (Hout : numl out) by (apply Forall_forall; intros o Ho; apply (numl_In ts); [easy|now apply Incl]).
  assert (Nout : NoDup (map tid out)) by now apply distinct_NoDup.
  set (rest := filter (fun t => negb (mem_id (tid t) out)) ts).
  assert (Hrest : numl rest) by (apply Forall_forall; intros t Ht; apply filter_In in Ht; now apply (numl_In ts)).
  assert (Mem : forall t, In t ts -> mem_id (tid t) out = true -> In t out).
  { intros t Ht Hm. unfold mem_id in Hm. apply existsb_exists in Hm. destruct Hm as (o & O1 & O2). apply Z.eqb_eq in O2.
    assert (o = t) by (apply (same_id_eq ts); [easy|now apply Incl|easy|easy]). now subst. }
  assert (P : Permutation (out ++ rest) ts).
  { apply NoDup_Permutation.
    - apply NoDup_app'; [now apply NoDup_map_inv'|apply NoDup_filter'; now apply NoDup_map_inv'|].
      intros x Hx Hr. apply filter_In in Hr. destruct Hr as [_ Hr]. apply negb_true_iff in Hr.
      assert (mem_id (tid x) out = true) by (apply existsb_exists; exists x; split; [easy|apply Z.eqb_refl]). congruence.
    - now apply NoDup_map_inv'.
    - intros x. split.
      + intros Hx. apply in_app_or in Hx. destruct Hx as [Hx|Hx]; [now apply Incl|]. now apply filter_In in Hx.
      + intros Hx. apply in_or_app. destruct (mem_id (tid x) out) eqn:M; [left; now apply Mem|].
        right. apply filter_In. split; [easy|]. now rewrite M. }
  exists (out ++ sort_desc rest). split; [|split].
  - rewrite <- P. apply Permutation_app_head. apply sort_desc_perm.
  - apply descR_desc.
    { apply Forall_forall. intros t Ht. apply in_app_or in Ht. destruct Ht as [Ht|Ht]; [now apply (numl_In out)|].
      apply (Permutation_in _ (sort_desc_perm rest)) in Ht. now apply (numl_In rest). }
    apply StronglySorted_app.
    + now apply sorted_descb_strong.
    + now apply sort_desc_sorted.
    + intros a b Ha Hb. apply (Permutation_in _ (sort_desc_perm rest)) in Hb. apply filter_In in Hb. destruct Hb as [Hb1 Hb2].
      rewrite forallb_forall in H5. specialize (H5 b Hb1). apply negb_true_iff in Hb2. rewrite Hb2 in H5. cbn [orb] in H5.
      rewrite forallb_forall in H5. specialize (H5 a Ha). apply negb_true_iff in H5.
      unfold descR. apply flt_false_iff; [now apply (numl_In out)|now apply (numl_In ts)|easy].
  - rewrite <- H1. rewrite firstn_app, Nat.sub_diag, firstn_all. cbn. now rewrite app_nil_r.
Qed.

Lemma enumerate_ids_ge : forall l s i, In i (map tid (enumerate s l)) -> s <= i.
Proof.
  induction l as [|v r IH]; intros s i H; [easy|]. cbn in H. destruct H as [<-|H]; [lia|]. apply IH in H. lia.
Qed.

Lemma enumerate_ids_NoDup : forall l s, NoDup (map tid (enumerate s l)).
Proof.
  induction l as [|v r IH]; intros s; [constructor|]. cbn. constructor; [|apply IH].
  intros X. apply enumerate_ids_ge in X. lia.
Qed.

(** what the check establishes on every case it accepts: the implementation's topK output is a legal topK result *)
Theorem chk_topk_legal_sound : forall logits k out,
  Forall (fun b => is_nan (fb b) = false) logits ->
  chk_topk_legal logits k out = true ->
  legal_topk (enumerate 0 (map fb logits)) k (decs out).
Proof.
  intros logits k out Hn H. apply legal_topkb_sound; [|apply enumerate_ids_NoDup|exact H].
  apply enumerate_numl. apply Forall_forall. intros x Hx. apply in_map_iff in Hx. destruct Hx as (b & <- & Hb).
  split; [apply f32_of_bits_valid|exact (proj1 (Forall_forall _ _) Hn b Hb)].
Qed.

(** the one-pass function the check evaluates is the pair (Sample_grammar, grammar_draws) of the model *)
Lemma grammar_both_eq : forall E pr rej logits r1 r2,
  grammar_both E pr rej logits r1 r2 = (Sample_grammar E pr rej logits r1 r2, grammar_draws E pr rej logits r1).
Proof.
  intros E pr rej logits r1 r2. unfold grammar_both, Sample_grammar, grammar_draws. destruct logits as [|l0 lr]; [easy|].
  destruct (sample E pr (enumerate 0 (l0 :: lr)) r1) as [t| | |]; destruct (feq (p_temp pr) fzero); try easy;
    destruct (first_pick_rejected rej t); easy.
Qed.
