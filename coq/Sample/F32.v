(** IEEE-754 binary32 ("float32") for the sampler model.

    Values are Coq's standard [SpecFloat.spec_float]; the arithmetic is the standard library's executable
    specification [SFadd/SFsub/SFmul/SFdiv] (round to nearest, ties to even) instantiated at precision 24 and
    emax 128, i.e. exactly Go's float32 [+ - * /] (Go does not fuse these operations on amd64).  Comparisons are
    [SFltb]/[SFeqb] (false on NaN, -0 = +0) - Go's [<] and [==].  Bit patterns (what the harness ships) are
    converted with [f32_of_bits]/[bits_of_f32].  Definitions only. *)
From Coq Require Import ZArith List Bool SpecFloat.
Import ListNotations.
Open Scope Z_scope.

Notation sf := spec_float.
Definition prec : Z := 24.
Definition emax : Z := 128.

Definition fadd : sf -> sf -> sf := SFadd prec emax.
Definition fsub : sf -> sf -> sf := SFsub prec emax.
Definition fmul : sf -> sf -> sf := SFmul prec emax.
Definition fdiv : sf -> sf -> sf := SFdiv prec emax.
Definition flt : sf -> sf -> bool := SFltb.      (* Go: a < b *)
Definition fgt (a b : sf) : bool := flt b a.     (* Go: a > b *)
Definition feq : sf -> sf -> bool := SFeqb.      (* Go: a == b *)
Definition fle : sf -> sf -> bool := SFleb.      (* Go: a <= b *)

Definition fzero : sf := S754_zero false.
Definition fone : sf := S754_finite false 8388608 (-23).
Definition pinf : sf := S754_infinity false.
Definition ninf : sf := S754_infinity true.
Definition fnan : sf := S754_nan.
(** math.MaxFloat32 = (2^24-1) * 2^104 *)
Definition fmaxpos : sf := S754_finite false 16777215 104.
Definition fmaxneg : sf := S754_finite true 16777215 104.
(** float32(1e-7) = 0x33D6BF95 = 14073749 * 2^-47 *)
Definition ftiny : sf := S754_finite false 14073749 (-47).

Definition is_nan (x : sf) : bool := match x with S754_nan => true | _ => false end.
Definition is_inf (x : sf) : bool := match x with S754_infinity _ => true | _ => false end.
Definition is_pinf (x : sf) : bool := match x with S754_infinity false => true | _ => false end.
Definition is_ninf (x : sf) : bool := match x with S754_infinity true => true | _ => false end.
Definition is_zero (x : sf) : bool := match x with S754_zero _ => true | _ => false end.
(** "finite" in the property's sense: a number, not an infinity, not NaN *)
Definition is_fin (x : sf) : bool := match x with S754_zero _ | S754_finite _ _ _ => true | _ => false end.
Definition sf_sign (x : sf) : bool :=
  match x with S754_zero s | S754_infinity s | S754_finite s _ _ => s | S754_nan => false end.

(** decode a bit pattern (any integer; only the low 32 bits matter) *)
Definition f32_of_bits (b0 : Z) : sf :=
  let b := b0 mod 4294967296 in
  let s := 2147483648 <=? b in
  let e := (b / 8388608) mod 256 in
  let m := b mod 8388608 in
  if e =? 255 then (if m =? 0 then S754_infinity s else S754_nan)
  else if e =? 0 then (match m with Zpos p => S754_finite s p (-149) | _ => S754_zero s end)
  else match m + 8388608 with Zpos p => S754_finite s p (e - 150) | _ => S754_nan end.

(** encode (NaN -> the quiet NaN 0x7FC00000); inverse of [f32_of_bits] on canonical values *)
Definition bits_of_f32 (x : sf) : Z :=
  match x with
  | S754_zero s => if s then 2147483648 else 0
  | S754_infinity s => (if s then 2147483648 else 0) + 2139095040
  | S754_nan => 2143289344
  | S754_finite s m e =>
      (if s then 2147483648 else 0) +
      (if Zpos m <? 8388608 then Zpos m else (e + 150) * 8388608 + (Zpos m - 8388608))
  end.

(** structural equality of values (NaN = NaN, -0 <> +0): what "same float32" means for the tie *)
Definition sf_same (x y : sf) : bool :=
  match x, y with
  | S754_zero a, S754_zero b => Bool.eqb a b
  | S754_infinity a, S754_infinity b => Bool.eqb a b
  | S754_nan, S754_nan => true
  | S754_finite a m e, S754_finite b n f => Bool.eqb a b && Pos.eqb m n && Z.eqb e f
  | _, _ => false
  end.

Definition valid (x : sf) : bool := valid_binary prec emax x.
