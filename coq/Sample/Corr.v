(** Executable comparison functions of the C18 correspondence check (cases are rendered by props/c18.py).
    Every float32 arrives as its bit pattern (Z); tokens as (id, bits). *)
From Coq Require Import ZArith List Bool SpecFloat.
From V Require Import Sample.F32 Sample.Model.
Import ListNotations.
Open Scope Z_scope.

Definition btok : Type := (Z * Z)%type.
Definition dec (t : btok) : tok := (fst t, f32_of_bits (snd t)).
Definition decs (l : list btok) : list tok := map dec l.
Definition fb (b : Z) : sf := f32_of_bits b.

(** the exp oracle as a table (argument bits, result bits) written by the harness from math.Exp; an argument that is
    not in the table yields a value no float32 ever has, so that the comparison fails *)
Definition miss : sf := S754_finite false 1 1000.
Fixpoint lookup (tab : list (Z * Z)) (x : Z) : option Z :=
  match tab with [] => None | (a, b) :: r => if a =? x then Some b else lookup r x end.
Definition E_tab (tab : list (Z * Z)) (x : sf) : sf :=
  match x with
  | S754_nan => S754_nan
  | _ => match lookup tab (bits_of_f32 x) with Some b => f32_of_bits b | None => miss end
  end.

Definition tok_same (a b : tok) : bool := (tid a =? tid b) && sf_same (tv a) (tv b).
Fixpoint toks_same (a b : list tok) : bool :=
  match a, b with
  | [], [] => true
  | x :: a', y :: b' => tok_same x y && toks_same a' b'
  | _, _ => false
  end.

(** bits decode/encode round trip on the values that occur (sanity of F32.v itself, run on every value seen) *)
Definition chk_bits (bs : list Z) : bool :=
  forallb (fun b => let x := f32_of_bits b in valid x && (is_nan x || (bits_of_f32 x =? b))) bs.

Definition chk_params (t k p mp t' k' p' mp' : Z) : bool :=
  let pr := new_sampler (fb t) k (fb p) (fb mp) in
  sf_same (p_temp pr) (fb t') && (p_topk pr =? k') && sf_same (p_topp pr) (fb p') && sf_same (p_minp pr) (fb mp').

(** greedy: the implementation's token is compared by value (Go ==) with the model's, so that a different choice among
    equal maxima is not reported; with NaN among the logits (no claim of the property) ids are compared *)
Definition same_logit (ls : list sf) (id mid : Z) : bool :=
  match nth_error ls (Z.to_nat id), nth_error ls (Z.to_nat mid) with
  | Some a, Some b => (0 <=? id) && (feq a b || ((id =? mid) && is_nan a))
  | _, _ => false
  end.
Definition chk_greedy (logits : list Z) (id : Z) : bool :=
  match enumerate 0 (map fb logits) with
  | [] => false
  | t0 :: r => same_logit (map fb logits) id (tid (greedy_from t0 r))
  end.

(** topK: same value sequence as the specification (by Go's ==), every output token is an input token
    (id in range, value bits those of the input), ids pairwise distinct *)
Fixpoint vals_eq (a b : list tok) : bool :=
  match a, b with
  | [], [] => true
  | x :: a', y :: b' => feq (tv x) (tv y) && vals_eq a' b'
  | _, _ => false
  end.
Fixpoint distinct (l : list Z) : bool :=
  match l with [] => true | x :: r => negb (existsb (Z.eqb x) r) && distinct r end.
Definition chk_topk (logits : list Z) (k : Z) (out : list btok) : bool :=
  let ts := enumerate 0 (map fb logits) in
  vals_eq (topK ts k) (decs out)
  && forallb (fun o => match nth_error logits (Z.to_nat (fst o)) with
                       | Some b => (0 <=? fst o) && (b =? snd o) | None => false end) out
  && distinct (map fst out).

(** the direct, executable form of "a legal topK result" (Proofs.legal_topk; CorrProofs.legal_topkb_sound): right
    length, descending, every token an input token (same id, same bits), ids distinct, and no input token that was left
    out is larger than a token that was kept *)
Fixpoint sorted_descb (l : list tok) : bool :=
  match l with
  | a :: (b :: _) as r => negb (flt (tv a) (tv b)) && sorted_descb r
  | _ => true
  end.
Definition mem_id (i : Z) (l : list tok) : bool := existsb (fun t => tid t =? i) l.
Definition legal_topkb (ts : list tok) (k : Z) (out : list tok) : bool :=
  Nat.eqb (length out) (eff_k (length ts) k)
  && sorted_descb out
  && forallb (fun o => existsb (tok_same o) ts) out
  && distinct (map tid out)
  && forallb (fun t => mem_id (tid t) out || forallb (fun o => negb (flt (tv o) (tv t))) out) ts.
Definition chk_topk_legal (logits : list Z) (k : Z) (out : list btok) : bool :=
  legal_topkb (enumerate 0 (map fb logits)) k (decs out).

Definition chk_temperature (inp : list btok) (t : Z) (out : list btok) : bool :=
  toks_same (temperature (decs inp) (fb t)) (decs out).

Definition chk_softmax (tab : list (Z * Z)) (inp out : list btok) : bool :=
  toks_same (softmax (E_tab tab) (decs inp)) (decs out).

Definition chk_topp (inp : list btok) (p : Z) (out : list btok) : bool :=
  toks_same (topP (decs inp) (fb p)) (decs out).

Definition chk_minp (inp : list btok) (p : Z) (out : list btok) : bool :=
  match minP (decs inp) (fb p) with Some l => toks_same l (decs out) | None => false end.

(** observation of one Sample call: (id, is_error) *)
Definition res_matches_id (m : res) (id : Z) (err : bool) : bool :=
  match m with
  | Tok t => negb err && (tid t =? id)
  | ErrNaN | ErrEmpty => err
  | Panic => false
  end.

(** the tail of sample() (cumulative sum, draw scaling, binary search, NaN guard) on the implementation's own
    minP output *)
Definition chk_pick (inp : list btok) (r : Z) (id : Z) (err : bool) : bool :=
  res_matches_id (pick (decs inp) (fb r)) id err.

(** everything after topK on the implementation's own topK output *)
Definition chk_after_topk (tab : list (Z * Z)) (t k p mp : Z) (sorted : list btok) (r : Z) (id : Z) (err : bool) : bool :=
  res_matches_id (after_topk (E_tab tab) (mkParams (fb t) k (fb p) (fb mp)) (decs sorted) (fb r)) id err.

(** the whole of Sample from the raw logits and raw parameters; ties may be ordered differently by the
    implementation, so the returned token is compared by value: the logit of the implementation's id equals
    (Go ==) the logit of the model's token, and error/no error agree. *)
Definition chk_sample (tab : list (Z * Z)) (t k p mp : Z) (logits : list Z) (r : Z) (id : Z) (err : bool) : bool :=
  let pr := new_sampler (fb t) k (fb p) (fb mp) in
  let ls := map fb logits in
  match Sample (E_tab tab) pr ls (fb r) with
  | Tok tk =>
      negb err &&
      same_logit ls id (tid tk)
  | ErrNaN | ErrEmpty => err
  | Panic => false
  end.

(** a seeded stream: the implementation's ids against the model run with the generator's draws *)
Fixpoint chk_stream (tabs : list (list (Z * Z))) (t k p mp : Z) (stream : list (list Z)) (rs : list Z)
         (ids : list Z) (errs : list bool) : bool :=
  match stream, tabs, rs, ids, errs with
  | [], _, _, [], [] => true
  | l :: stream', tab :: tabs', r :: rs', id :: ids', e :: errs' =>
      chk_sample tab t k p mp l r id e && chk_stream tabs' t k p mp stream' rs' ids' errs'
  | _, _, _, _, _ => false
  end.

(** ** One term per case (keeps the generated Coq text small): the implementation's observations of one
    [sample]-case, and the list of verdicts  [bits; NewSampler; greedy; topK; temperature; softmax; topP; minP]
    followed by [pick; after_topk; Sample] for every scripted draw.  Stage outputs are shipped as the id list of
    topK's output plus one value list per stage (ids are checked to be carried along unchanged by python), the
    exp table as argument list / result list, topP / minP outputs as prefix lengths of the softmax output
    (prefix-ness is checked by python on the full lists). *)
Definition exp_fixed : list Z := [0; 2147483648; 4286578688; 2139095040].
Definition mk_tab (fixed_es xs es : list Z) : list (Z * Z) := combine exp_fixed fixed_es ++ combine xs es.

Definition chk_case (has_nan staged : bool) (lg : list Z) (t k p mp t' k' p' mp' : Z) (gid : Z)
           (ids tkv scv sfv : list Z) (fixed_es xs es : list Z) (ntp nmp : Z) (draws : list (Z * Z * bool)) : list bool :=
  let tab := mk_tab fixed_es xs es in
  let tk := combine ids tkv in
  let sc := combine ids scv in
  let sm := combine ids sfv in
  let tp := firstn (Z.to_nat ntp) sm in
  let mn := firstn (Z.to_nat nmp) sm in
  [ chk_bits lg; chk_params t k p mp t' k' p' mp' ; match lg with [] => true | _ => chk_greedy lg gid end ]
  ++ (if staged then
        [ has_nan || (chk_topk lg k' tk && chk_topk_legal lg k' tk); chk_temperature tk t' sc; chk_softmax tab sc sm;
          chk_topp sm p' tp; chk_minp tp mp' mn ]
      else [])
  ++ flat_map (fun d => let '(r, id, e) := d in
        (if staged then [ chk_pick mn r id e; chk_after_topk tab t' k' p' mp' tk r id e ] else [])
        ++ [ (has_nan && staged) || chk_sample tab t k p mp lg r id e ]) draws.

Definition all_true (l : list bool) : bool := forallb (fun b => b) l.

(** ** grammar-constrained Sample.  [rejected] lists the ids the real grammar rejects (read off the implementation by
    VerifGrammarMask).  The returned token is compared by value on the logits it was drawn from: the raw logits when the
    first pick was accepted, the *masked* logits (each id paired with its own logit, rejected ids -Inf) on the re-sample;
    the number of draws the call consumed must agree too. *)
Definition rej_of (rejected : list Z) (i : Z) : bool := existsb (Z.eqb i) rejected.

(** result and number of draws in one pass (= (Sample_grammar, grammar_draws), CorrProofs.grammar_both_eq) *)
Definition grammar_both (E : sf -> sf) (pr : params) (rej : Z -> bool) (logits : list sf) (r1 r2 : sf) : res * Z :=
  match logits with
  | [] => (ErrEmpty, 0)
  | _ =>
      let ts := enumerate 0 logits in
      let g := feq (p_temp pr) fzero in
      match sample E pr ts r1 with
      | Tok t => if first_pick_rejected rej t then (sample E pr (mask rej ts) r2, if g then 0 else 2)
                 else (Tok t, if g then 0 else 1)
      | e => (e, if g then 0 else 1)
      end
  end.

(** one grammar case: all calls (r1, r2, id, err, used) against the same logits / parameters / rejected set *)
Definition chk_grammar (tab : list (Z * Z)) (t k p mp : Z) (logits rejected : list Z) (calls : list (Z * Z * Z * bool * Z)) : bool :=
  let pr := new_sampler (fb t) k (fb p) (fb mp) in
  let ls := map fb logits in
  let rej := rej_of rejected in
  let ms := mask_logits rej 0 ls in
  let E := E_tab tab in
  forallb (fun c => let '(r1, r2, id, err, used) := c in
    let '(m, u) := grammar_both E pr rej ls (fb r1) (fb r2) in
    let slow := (u =? 2) || ((u =? 0) && match sample E pr (enumerate 0 ls) (fb r1) with Tok t0 => first_pick_rejected rej t0 | _ => false end) in
    (u =? used) &&
    match m with
    | Tok tk => negb err && same_logit (if slow then ms else ls) id (tid tk) && (negb slow || negb (rej id))
    | ErrNaN | ErrEmpty => err
    | Panic => false
    end) calls.
