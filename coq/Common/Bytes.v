(** Byte strings as [list N] with Go's [strings] primitives (definitions + characterising lemmas). *)
From Coq Require Import List NArith Bool Arith Lia.
Import ListNotations.

Definition str := list N.

Fixpoint eqb_str (a b : str) : bool :=
  match a, b with
  | [], [] => true
  | x :: a', y :: b' => N.eqb x y && eqb_str a' b'
  | _, _ => false
  end.

(** [strings.HasPrefix s p] *)
Fixpoint prefixb (p s : str) : bool :=
  match p, s with
  | [], _ => true
  | a :: p', b :: s' => N.eqb a b && prefixb p' s'
  | _ :: _, [] => false
  end.

(** [strings.Index s t]: least i with t a prefix of [skipn i s] *)
Fixpoint index_from (i : nat) (s t : str) : option nat :=
  if prefixb t s then Some i
  else match s with
       | [] => None
       | _ :: s' => index_from (S i) s' t
       end.
Definition index_of (s t : str) : option nat := index_from 0 s t.
Definition containsb (s t : str) : bool := match index_of s t with Some _ => true | None => false end.

(** [strings.HasSuffix s t] *)
Definition suffixb (t s : str) : bool := prefixb (rev t) (rev s).

Definition Prefix (p s : str) : Prop := exists r, s = p ++ r.
Definition Suffix (t s : str) : Prop := exists r, s = r ++ t.
Definition Infix (t s : str) : Prop := exists a b, s = a ++ t ++ b.

Lemma eqb_str_spec a b : eqb_str a b = true <-> a = b.
Proof.
  revert b; induction a as [|x a IH]; intros [|y b]; cbn; split; intro H; try congruence; try reflexivity.
  - apply andb_true_iff in H as [H1 H2]. apply N.eqb_eq in H1. apply IH in H2. congruence.
  - inversion H; subst. rewrite N.eqb_refl. cbn. apply IH. reflexivity.
Qed.

Lemma prefixb_spec p s : prefixb p s = true <-> Prefix p s.
Proof.
  revert s; induction p as [|a p IH]; intros s; cbn.
  - split; [intros _; exists s; reflexivity | reflexivity].
  - destruct s as [|b s].
    + split; [discriminate | intros [r Hr]; discriminate].
    + rewrite andb_true_iff, N.eqb_eq, IH. split.
      * intros [-> [r ->]]. exists r. reflexivity.
      * intros [r Hr]. inversion Hr; subst. split; [reflexivity | exists r; reflexivity].
Qed.

Lemma prefixb_false p s : prefixb p s = false <-> ~ Prefix p s.
Proof.
  rewrite <- prefixb_spec. destruct (prefixb p s); intuition congruence.
Qed.

Lemma suffixb_spec t s : suffixb t s = true <-> Suffix t s.
Proof.
  unfold suffixb. rewrite prefixb_spec. split.
  - intros [r Hr]. exists (rev r). apply (f_equal (@rev N)) in Hr. rewrite rev_involutive, rev_app_distr, rev_involutive in Hr. exact Hr.
  - intros [r ->]. exists (rev r). apply rev_app_distr.
Qed.

Lemma Prefix_nil s : Prefix [] s.
Proof. exists s; reflexivity. Qed.

Lemma Prefix_refl s : Prefix s s.
Proof. exists []; symmetry; apply app_nil_r. Qed.

Lemma Prefix_trans a b c : Prefix a b -> Prefix b c -> Prefix a c.
Proof. intros [r ->] [r' ->]. exists (r ++ r'). symmetry; apply app_assoc. Qed.

Lemma Prefix_app_r a b : Prefix a (a ++ b).
Proof. exists b; reflexivity. Qed.

Lemma Prefix_length a b : Prefix a b -> length a <= length b.
Proof. intros [r ->]. rewrite app_length. lia. Qed.

Lemma Prefix_firstn n s : Prefix (firstn n s) s.
Proof. exists (skipn n s). symmetry. apply firstn_skipn. Qed.

Lemma Prefix_is_firstn p s : Prefix p s -> p = firstn (length p) s.
Proof.
  intros [r ->]. rewrite firstn_app, firstn_all, Nat.sub_diag. cbn. symmetry; apply app_nil_r.
Qed.

(** two prefixes of one string are comparable *)
Lemma Prefix_cmp a b s : Prefix a s -> Prefix b s -> length a <= length b -> Prefix a b.
Proof.
  intros Ha Hb Hl. rewrite (Prefix_is_firstn _ _ Ha), (Prefix_is_firstn _ _ Hb).
  exists (skipn (length a) (firstn (length b) s)).
  rewrite <- (firstn_skipn (length a) (firstn (length b) s)) at 1.
  f_equal. rewrite firstn_firstn. f_equal. lia.
Qed.

Lemma Suffix_app_l a b : Suffix b (a ++ b).
Proof. exists a; reflexivity. Qed.

Lemma Suffix_length a b : Suffix a b -> length a <= length b.
Proof. intros [r ->]. rewrite app_length. lia. Qed.

Lemma Infix_app_l t a s : Infix t s -> Infix t (a ++ s).
Proof. intros [x [y ->]]. exists (a ++ x), y. rewrite <- app_assoc. reflexivity. Qed.

Lemma Infix_app_r t a s : Infix t s -> Infix t (s ++ a).
Proof. intros [x [y ->]]. exists x, (y ++ a). rewrite <- !app_assoc. reflexivity. Qed.

Lemma Infix_prefix t p s : Prefix p s -> Infix t p -> Infix t s.
Proof. intros [r ->] H. apply Infix_app_r, H. Qed.

(** index_from characterisation *)
Lemma index_from_some i s t k :
  index_from i s t = Some k ->
  exists a b, s = a ++ t ++ b /\ k = i + length a /\
    (forall a' b', s = a' ++ t ++ b' -> length a <= length a').
Proof.
  revert i k; induction s as [|c s IH]; intros i k; cbn [index_from].
  - destruct (prefixb t []) eqn:E; [|discriminate].
    intros [= <-]. apply prefixb_spec in E as [r Hr].
    exists [], r. cbn. split; [exact Hr|]. split; [lia|]. intros; cbn; lia.
  - destruct (prefixb t (c :: s)) eqn:E.
    + intros [= <-]. apply prefixb_spec in E as [r Hr].
      exists [], r. cbn. split; [exact Hr|]. split; [lia|]. intros; cbn; lia.
    + intros H. apply IH in H as [a [b [-> [-> Hmin]]]].
      exists (c :: a), b. split; [reflexivity|]. split; [cbn; lia|].
      intros a' b' Heq. destruct a' as [|c' a'].
      * cbn in Heq. apply prefixb_false in E. exfalso; apply E. exists b'. exact Heq.
      * cbn in Heq. inversion Heq; subst. cbn. apply le_n_S. eapply Hmin. eassumption.
Qed.

Lemma index_from_none i s t : index_from i s t = None -> ~ Infix t s.
Proof.
  revert i; induction s as [|c s IH]; intros i; cbn [index_from].
  - destruct (prefixb t []) eqn:E; [discriminate|]. intros _ [a [b H]].
    apply prefixb_false in E. apply E. destruct a; [|discriminate]. exists b. exact H.
  - destruct (prefixb t (c :: s)) eqn:E; [discriminate|]. intros H [a [b Hab]].
    destruct a as [|c' a].
    + apply prefixb_false in E. apply E. exists b. exact Hab.
    + cbn in Hab. inversion Hab; subst. eapply IH; [exact H|]. exists a, b. reflexivity.
Qed.

Lemma index_of_some s t k :
  index_of s t = Some k ->
  exists a b, s = a ++ t ++ b /\ k = length a /\
    (forall a' b', s = a' ++ t ++ b' -> length a <= length a').
Proof. intros H. apply index_from_some in H as [a [b [H1 [H2 H3]]]]. exists a, b. auto. Qed.

Lemma index_of_none s t : index_of s t = None <-> ~ Infix t s.
Proof.
  split; [apply index_from_none|].
  intros H. unfold index_of. destruct (index_from 0 s t) eqn:E; [|reflexivity].
  apply index_from_some in E as [a [b [-> _]]]. exfalso; apply H. exists a, b; reflexivity.
Qed.

Lemma containsb_spec s t : containsb s t = true <-> Infix t s.
Proof.
  unfold containsb. destruct (index_of s t) eqn:E.
  - apply index_of_some in E as [a [b [-> _]]]. split; [intros _; exists a, b; reflexivity | reflexivity].
  - apply index_of_none in E. split; [discriminate | contradiction].
Qed.

Lemma containsb_false s t : containsb s t = false <-> ~ Infix t s.
Proof.
  rewrite <- containsb_spec. destruct (containsb s t); intuition congruence.
Qed.

(** an occurrence of [t] in [a ++ b] lies in [a], lies in [b], or straddles the boundary *)
Lemma Infix_app_cases t a b :
  Infix t (a ++ b) ->
  Infix t a \/ Infix t b \/
  exists u v, t = u ++ v /\ u <> [] /\ v <> [] /\ Suffix u a /\ Prefix v b.
Proof.
  intros [x [y H]].
  apply app_eq_app in H as [l [[Ha Hb]|[Hx Hb]]].
  - (* a = x ++ l, t ++ y = l ++ b *)
    apply app_eq_app in Hb as [l' [[Ht Hy]|[Hl Hy]]].
    + (* t = l ++ l' : straddles or degenerate *)
      destruct l as [|c l].
      * right; left. cbn in Ht. subst t. exists [], y. cbn. rewrite Hy. reflexivity.
      * destruct l' as [|c' l'].
        -- left. rewrite app_nil_r in Ht. subst t. exists x, []. rewrite app_nil_r. exact Ha.
        -- right; right. exists (c :: l), (c' :: l'). split; [exact Ht|].
           split; [discriminate|]. split; [discriminate|].
           split; [exists x; exact Ha | exists y; exact Hy].
    + (* l = t ++ l' *)
      left. subst l. exists x, l'. exact Ha.
  - (* x = a ++ l, b = l ++ t ++ y *)
    right; left. exists l, y. exact Hb.
Qed.

Lemma concat_app_single {A} (l : list (list A)) (x : list A) : concat (l ++ [x]) = concat l ++ x.
Proof. rewrite concat_app. cbn. rewrite app_nil_r. reflexivity. Qed.
