#!/usr/bin/env python3
"""Entry point of every registered check:  check.py <ID> [--tier quick|thorough] [--replay FILE]

exit 0 = property held on everything explored; exit 1 + `VIOLATION property=<ID> replay=<path>` otherwise.
"""
import argparse
import importlib
import os
import sys
import traceback

sys.path.insert(0, os.path.dirname(os.path.abspath(__file__)))
from lib import vlib  # noqa: E402


def main():
    ap = argparse.ArgumentParser()
    ap.add_argument("pid")
    ap.add_argument("--tier", default=os.environ.get("VERIF_TIER", "quick"))
    ap.add_argument("--replay")
    a = ap.parse_args()
    pid = a.pid.upper()
    seed = int(os.environ.get("VERIF_SEED", "1") or 1)
    tier = a.tier if a.tier in ("quick", "thorough") else "quick"
    mod = importlib.import_module("props." + pid.lower())
    ctx = vlib.Ctx(pid, tier, seed, level=getattr(mod, "LEVEL", "proof"))
    try:
        if a.replay:
            mod.replay(ctx, a.replay)
        else:
            mod.run(ctx)
    except Exception:
        tb = traceback.format_exc()
        ctx.log("check crashed:\n" + tb)
        ctx.obligation("check machinery ran to completion", False, tb)
        ctx.proof_failures.append({"obligation": "check machinery ran to completion", "detail": tb})
    sys.exit(ctx.finish())


if __name__ == "__main__":
    main()
