//go:build verif

package server

// Export shims for the C03 harness (add-only, build tag verif).

// VerifGetValue calls the real, unexported getValue (server/images.go).
func VerifGetValue(header, key string) string { return getValue(header, key) }

// VerifParseChallenge calls the real, unexported parseRegistryChallenge.
func VerifParseChallenge(auth string) (realm, service, scope string) {
	c := parseRegistryChallenge(auth)
	return c.Realm, c.Service, c.Scope
}

// VerifDownloadsIdle reports whether no blobDownload is registered any more (every background
// blobDownload.run goroutine has returned: run deletes its entry on exit).
func VerifDownloadsIdle() bool {
	idle := true
	blobDownloadManager.Range(func(k, v any) bool {
		idle = false
		return false
	})
	return idle
}

// VerifDownloadConsts returns the layout constants of server/download.go.
func VerifDownloadConsts() (numParts int, minPart, maxPart int64, retries int) {
	return numDownloadParts, minDownloadPartSize, maxDownloadPartSize, maxRetries
}
