//go:build verif

package server

import (
	"net/http"
	"time"

	"github.com/ollama/ollama/server/internal/cache/blob"
	"github.com/ollama/ollama/server/internal/client/ollama"
)

// VerifClient2Routes builds the routes the way Serve does under OLLAMA_EXPERIMENT=client2 (GenerateRoutes with a
// *ollama.Registry: /api/pull and /api/delete go to registry.Local, everything else to the gin router).  The only
// things chosen here are what DefaultRegistry reads from the environment: the cache directory, the chunking
// threshold (so that small test layers are fetched through the chunksums endpoint) and the number of streams.
// The internal packages cannot be imported from the harness main, hence this file.
func VerifClient2Routes(s *Server, dir string, threshold int64, streams int) (http.Handler, error) {
	c, err := blob.Open(dir)
	if err != nil {
		return nil, err
	}
	rc := &ollama.Registry{
		Cache:             c,
		UserAgent:         ollama.UserAgent(),
		ChunkingThreshold: threshold,
		MaxStreams:        streams,
		ReadTimeout:       30 * time.Second,
	}
	return s.GenerateRoutes(rc)
}
