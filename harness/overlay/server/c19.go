//go:build verif

package server

import (
	"context"

	"github.com/ollama/ollama/api"
	"github.com/ollama/ollama/llm"
)

// VerifChatPrompt calls the real, unexported chatPrompt (C19 harness).
func VerifChatPrompt(ctx context.Context, m *Model, tokenize func(context.Context, string) ([]int, error), opts *api.Options, msgs []api.Message, tools []api.Tool) (string, []llm.ImageData, error) {
	return chatPrompt(ctx, m, tokenize, opts, msgs, tools)
}

// VerifErrTooManyImages is the unexported sentinel error of chatPrompt.
var VerifErrTooManyImages = errTooManyImages
