//go:build verif

package server

// Scheduler harness, environment stage (C11): the scheduler's limits as the REAL envconfig readers see them.
// stdin: one JSON object {"key": ..., "val": ...} per line; the variable is set literally in the process
// environment and the reader that feeds the scheduler is called.  stdout: {"key","val","u"|"b"|"d"} per line
// (u: unsigned value as a decimal string, b: bool, d: duration in ns as a decimal string).  props/c01.py compares
// with the model coq/Sched/EnvCfg.v (strip -> parse -> default).

import (
	"bufio"
	"encoding/json"
	"os"
	"strconv"
	"testing"

	"github.com/ollama/ollama/envconfig"
)

func TestVerifSchedEnv(t *testing.T) {
	if os.Getenv("VERIF_SCHED_ENV") == "" {
		t.Skip("verification harness entry point; run by /verif/props/c01.py")
	}
	sc := bufio.NewScanner(os.Stdin)
	sc.Buffer(make([]byte, 1<<20), 1<<20)
	enc := json.NewEncoder(os.Stdout)
	for sc.Scan() {
		var in struct {
			Key string `json:"key"`
			Val string `json:"val"`
		}
		if json.Unmarshal(sc.Bytes(), &in) != nil {
			continue
		}
		os.Setenv(in.Key, in.Val)
		out := map[string]any{"key": in.Key, "val": in.Val}
		switch in.Key {
		case "OLLAMA_MAX_LOADED_MODELS":
			out["u"] = strconv.FormatUint(uint64(envconfig.MaxRunners()), 10)
		case "OLLAMA_NUM_PARALLEL":
			out["u"] = strconv.FormatUint(uint64(envconfig.NumParallel()), 10)
		case "OLLAMA_MAX_QUEUE":
			out["u"] = strconv.FormatUint(uint64(envconfig.MaxQueue()), 10)
		case "OLLAMA_CONTEXT_LENGTH":
			out["u"] = strconv.FormatUint(uint64(envconfig.ContextLength()), 10)
		case "OLLAMA_GPU_OVERHEAD":
			out["u"] = strconv.FormatUint(envconfig.GpuOverhead(), 10)
		case "OLLAMA_SCHED_SPREAD":
			out["b"] = envconfig.SchedSpread()
		case "OLLAMA_FLASH_ATTENTION":
			out["b"] = envconfig.FlashAttention()
		case "OLLAMA_KEEP_ALIVE":
			out["d"] = strconv.FormatInt(int64(envconfig.KeepAlive()), 10)
		}
		os.Unsetenv(in.Key)
		enc.Encode(out)
	}
}
