//go:build verif

// Implementation side of the scheduler checks C01/C02/C11: drives the REAL server.Scheduler (the instrumented
// copy of the current sched.go when built by props/c01.py, the plain one otherwise) inside a testing/synctest
// bubble with a mock llm.LlamaServer, injected newServerFn/getGpuFn/getCpuFn and virtual time, one JSON case per
// stdin line, one JSON observation per stdout line.  Run with VERIF_SCHED=1 -test.run '^TestVerifSched$'.
package server

import (
	"bufio"
	"bytes"
	"context"
	"encoding/json"
	"errors"
	"fmt"
	"io"
	"log/slog"
	"math"
	"math/rand"
	"os"
	"path/filepath"
	"sort"
	"strconv"
	"strings"
	"sync"
	"testing"
	"testing/synctest"
	"time"

	"github.com/gin-gonic/gin"

	"github.com/ollama/ollama/api"
	"github.com/ollama/ollama/discover"
	"github.com/ollama/ollama/envconfig"
	"github.com/ollama/ollama/fs/ggml"
	"github.com/ollama/ollama/llm"
	"github.com/ollama/ollama/types/model"
)

// ------------------------------------------------------------------ case / observation formats

type vsGpu struct {
	ID    string `json:"id"`
	Lib   string `json:"lib"`
	Total uint64 `json:"total"`
	Free  uint64 `json:"free"`
}

type vsModel struct {
	Name string `json:"name"`
	VRAM uint64 `json:"vram"` // what the mock server reports per GPU it was placed on
	Edge bool   `json:"edge"` // VRAM := total - (free memory in which the blocks of a model fit but not its output layer)
	// with edge: VRAM := total - (free memory in which a model fits completely with one slot but not with edge_par slots)
	EdgePar int `json:"edge_par"`
	// with edge + edge_par: the same window for CPU inference (system memory: TotalSize with one slot <= free < with edge_par slots)
	EdgeCPU bool `json:"edge_cpu"`
	// with edge: VRAM := total - (free memory in which a model fits completely with a KV cache of this quantised type but not with f16)
	EdgeKV string `json:"edge_kv"`
	NoFA   bool   `json:"nofa"` // the model file carries a pooling_type: it cannot use flash attention
	Bad    bool   `json:"bad"`  // model file does not exist (direct mode only)
}

type vsReq struct {
	M       int    `json:"m"`
	KA      *int64 `json:"ka"`      // keep-alive in ms; null = server default; -1 = forever (math.MaxInt64 ns)
	Ctx     int    `json:"ctx"`     // opts.NumCtx
	NGpu    int    `json:"ngpu"`    // opts.NumGPU
	Adapter int    `json:"adapter"` // 0 = none, k = adapter "ad<k>"
}

type vsChoice struct {
	A   string `json:"a"` // submit | cancel | expire | tick | run
	Q   int    `json:"q,omitempty"`
	M   int    `json:"m,omitempty"`
	Ms  int64  `json:"ms,omitempty"`
	G   string `json:"g,omitempty"`
	Alt int    `json:"alt,omitempty"`
	// informational (written by the harness, ignored on input)
	Site string `json:"site,omitempty"`
	I    int    `json:"i,omitempty"` // creation index of the released goroutine
}

type vsCase struct {
	ID      int        `json:"id"`
	Max     int        `json:"max"`  // OLLAMA_MAX_LOADED_MODELS (0 = unset: the scheduler sets it itself)
	MaxQ    int        `json:"maxq"` // OLLAMA_MAX_QUEUE
	Par     int        `json:"par"`  // OLLAMA_NUM_PARALLEL
	Gpus    []vsGpu    `json:"gpus"`
	Cpu     vsGpu      `json:"cpu"`
	Models  []vsModel  `json:"models"`
	Reqs    []vsReq    `json:"reqs"`
	Mode    string     `json:"mode"` // random | explicit
	Seed    int64      `json:"seed"`
	Steps   int        `json:"steps"`
	PInt    float64    `json:"pint"`  // probability of an internal step when one is enabled
	PFail   float64    `json:"pfail"` // probability of a failing outcome for load / ping / newServer
	Choices []vsChoice `json:"choices"`
	NoDrain bool       `json:"nodrain"`
	Via     string     `json:"via"` // "direct": Scheduler.GetRunner; "sr": the real Server.scheduleRunner (routes.go)
	// probability with which a load parked in WaitUntilRunning is kept parked while anything else can happen
	// (class join-during-load: later requests for the model are dequeued while the first load is in flight)
	HoldLoad float64 `json:"hold_load"`
	// passive: no explicit unload, neither in the schedule nor in the drain; the drain only finishes the requests and
	// lets virtual time pass every keep-alive (all keep-alives of such a case are finite)
	Passive bool `json:"passive"`
	// probability of cancelling an unanswered request while the pending loop is between needsReload and the hand-over
	CancelHot float64 `json:"cancel_hot"`
	// a request is only submitted when every earlier one has finished and nothing is loaded (load / unload cycles)
	// probability of finishing a request that holds a runner exactly while the pending loop is between needsReload
	// and the hand-over for another request
	FinishHot float64 `json:"finish_hot"`
	// probability of letting the keep-alive of an idle runner elapse exactly while the pending loop stands between its
	// lookup and the hand-over of that runner to the next request; the completed loop is then advanced a random number
	// of steps into the handling of the expired event before the pending loop goes on
	ExpireHot float64 `json:"expire_hot"`
	// probability (per choice) of finishing a request that holds a runner
	FinishEarly float64 `json:"finish_early"`
	// with sequential: the next request is submitted as soon as every earlier one has finished and no scheduler
	// goroutine can move (the runner stays loaded, idle, its keep-alive timer armed)
	// every request carries use_mmap with this value in a pointer of its own (equal options in distinct allocations); "" = not set
	MMap       string `json:"mmap"`
	SeqKeep    bool   `json:"seq_keep"`
	NoTicks    bool   `json:"no_ticks"` // no random passage of time (only what the steering asks for)
	Sequential bool   `json:"sequential"`
	// admission stage: every GetRunner call runs in its own controlled goroutine, so that the calls of several
	// submitters interleave at the synchronisation operations inside GetRunner; hold_sched = probability with which the
	// pending loop is kept parked while anything else can happen (the queue is not being drained)
	// the last GPU of the inventory gets total = free = a value for which the blocks of a model fit but not its output layer
	LastGpuEdge bool   `json:"last_gpu_edge"`
	Overhead    uint64 `json:"overhead"` // OLLAMA_GPU_OVERHEAD (bytes reserved per GPU)
	// the mock servers report, per GPU, what the REAL llmServer.EstimatedVRAMByGPU returns for the REAL estimate of
	// the tiny GGUF on the GPUs they were started on (instead of the case's vram figure)
	RealVram bool `json:"real_vram"`
	// allow the environment action "selfclose": the server process of a runner dies on its own while requests hold it
	SelfClose bool `json:"self_close"`
	// how the limits are spelled in the environment (key -> literal value, e.g. "\" 1 \""); a key that is missing is
	// spelled as the plain decimal number.  The spellings of a case mean the same number to envconfig.
	Spell      map[string]string `json:"spell"`
	ConcSubmit bool              `json:"conc_submit"`
	HoldSched  float64           `json:"hold_sched"`
	ExpireW    float64           `json:"expire_w"` // weight of the explicit-unload action (default 0.6, at most 3 per run; with a weight: 6)
	FA         bool              `json:"fa"`       // OLLAMA_FLASH_ATTENTION=1
	KVType     string            `json:"kv_type"`  // OLLAMA_KV_CACHE_TYPE
}

type vsStep struct {
	C  vsChoice       `json:"c"`
	T  int64          `json:"t"` // virtual ms since start, after the step
	Ev [][]any        `json:"ev"`
	St map[string]any `json:"st"`
	Ph string         `json:"ph,omitempty"` // "" = schedule, "d1"/"d2" = drain phases
	// submitter goroutines that are inside GetRunner and cannot proceed after this step ("name@site")
	Blk []string `json:"blk,omitempty"`
}

type vsObs struct {
	ID        int            `json:"id"`
	Steps     []vsStep       `json:"steps"`
	Deadlock  map[string]any `json:"deadlock,omitempty"`
	Stuck     map[string]any `json:"stuck,omitempty"`
	MaxEnv    string         `json:"maxenv"` // OLLAMA_MAX_LOADED_MODELS at the end (the scheduler may have set it)
	Instr     bool           `json:"instr"`  // built with the instrumented sched.go
	Skipped   int            `json:"skipped"`
	Panic     string         `json:"panic,omitempty"`
	Truncated bool           `json:"truncated,omitempty"`
	EdgeFree  uint64         `json:"edge_free,omitempty"`
	// goroutines still parked / asleep when the drain ended (reported with the components of the termination
	// measure of Sched/Term.v when the run did not quiesce)
	Final map[string]any `json:"final,omitempty"`
}

// ------------------------------------------------------------------ mocks

type vsMock struct {
	r      *vsRun
	id     int
	model  int
	vram   uint64
	gpus   []string
	closed int
	dead   bool              // the server process died on its own: Ping fails from now on
	rep    map[string]uint64 // real_vram: what the real EstimatedVRAMByGPU reports per GPU id
	truth  map[string]uint64 // bytes the estimate put on each GPU (index-aligned GPUSizes); nil: vram on every GPU of gpus
}

// bytesOn: what this server really occupies on GPU id (ground truth for the fit oracle)
func (m *vsMock) bytesOn(id string) uint64 {
	if m.truth != nil {
		return m.truth[id]
	}
	for _, g := range m.gpus {
		if g == id {
			return m.vram
		}
	}
	return 0
}

func (m *vsMock) Ping(ctx context.Context) error {
	alt := vhEnvChoice("mock.ping", 2)
	if m.dead {
		alt = 1 // nobody answers the health check of a process that has exited
	}
	if alt == 1 {
		m.r.ev("ping", m.id, "fail")
		return errors.New("mock ping failure")
	}
	m.r.ev("ping", m.id, "ok")
	return nil
}

func (m *vsMock) WaitUntilRunning(ctx context.Context) error {
	m.r.ev("waitcall", m.id)
	if g := vhCur(); g != nil {
		m.r.mu.Lock()
		m.r.waitCtx[g] = ctx
		m.r.mu.Unlock()
	}
	alt := vhEnvChoice("mock.wait", 2)
	if alt == 1 {
		m.r.ev("wait", m.id, "fail")
		if ctx.Err() != nil {
			return ctx.Err() // what the real WaitUntilRunning returns when the request was cancelled meanwhile
		}
		return errors.New("mock load failure")
	}
	m.r.ev("wait", m.id, "ok")
	return nil
}

func (m *vsMock) Completion(ctx context.Context, req llm.CompletionRequest, fn func(llm.CompletionResponse)) error {
	return nil
}
func (m *vsMock) Embedding(ctx context.Context, input string) ([]float32, error) { return nil, nil }
func (m *vsMock) Tokenize(ctx context.Context, content string) ([]int, error)    { return nil, nil }
func (m *vsMock) Detokenize(ctx context.Context, tokens []int) (string, error)   { return "", nil }
func (m *vsMock) Close() error {
	m.closed++
	m.r.ev("close", m.id)
	return nil
}
func (m *vsMock) EstimatedVRAM() uint64  { return m.vram }
func (m *vsMock) EstimatedTotal() uint64 { return m.vram }
func (m *vsMock) EstimatedVRAMByGPU(gpuid string) uint64 {
	if m.rep != nil {
		m.r.ev("est", m.id, gpuid)
		return m.rep[gpuid]
	}
	for _, g := range m.gpus {
		if g == gpuid {
			m.r.ev("est", m.id, gpuid)
			return m.vram
		}
	}
	m.r.ev("est", m.id, gpuid)
	return 0
}

// ------------------------------------------------------------------ one run

type vsReqState struct {
	spec      vsReq
	submitted bool
	cancelled bool
	cancel    func()
	replies   int
	returned  bool // conc_submit: GetRunner has returned
	rid       int  // runner of the success reply (-1: none yet)
}

type vsRun struct {
	c       *vsCase
	dir     string
	s       *Scheduler
	ctl     *vhCtl
	mu      sync.Mutex
	cur     [][]any
	reqs    []*vsReqState
	srvs    []*vsMock
	models  []*Model
	ptr2rid map[*runnerRef]int
	ptrs    []*runnerRef
	start   time.Time
	rng     *rand.Rand
	quit    chan struct{}
	obs     *vsObs
	expires int
	ticks   int
	apis    int
	srv     *Server
	names   []string
	waitCtx map[*vhG]context.Context
	fhState int // finish_hot steering
	ehState int // expire_hot steering
	ehSteps int
}

func (r *vsRun) ev(a ...any) {
	r.mu.Lock()
	r.cur = append(r.cur, a)
	r.mu.Unlock()
}

func vsWriteModel(path string, nofa bool) error {
	f, err := os.Create(path)
	if err != nil {
		return err
	}
	defer f.Close()
	kv := ggml.KV{
		"general.architecture":          "llama",
		"llama.context_length":          uint32(32),
		"llama.embedding_length":        uint32(4096),
		"llama.block_count":             uint32(1),
		"llama.attention.head_count":    uint32(32),
		"llama.attention.head_count_kv": uint32(32),
		"tokenizer.ggml.tokens":         []string{" "},
		"tokenizer.ggml.scores":         []float32{0},
		"tokenizer.ggml.token_type":     []int32{0},
	}
	if nofa {
		kv["llama.pooling_type"] = uint32(1)
	}
	return ggml.WriteGGUF(f, kv, []ggml.Tensor{
		{Name: "blk.0.attn.weight", Kind: uint32(0), Offset: uint64(0), Shape: []uint64{1, 1, 1, 1}, WriterTo: bytes.NewReader(make([]byte, 32))},
		{Name: "output.weight", Kind: uint32(0), Offset: uint64(0), Shape: []uint64{1, 1, 1, 1}, WriterTo: bytes.NewReader(make([]byte, 32))},
	})
}

func (r *vsRun) gpuList(kind string) discover.GpuInfoList {
	r.ev("getgpus", kind)
	mk := func(g vsGpu) discover.GpuInfo {
		x := discover.GpuInfo{Library: g.Lib, ID: g.ID}
		x.TotalMemory = g.Total
		x.FreeMemory = g.Free
		if g.Lib == "cuda" {
			x.DriverMajor = 12
		}
		return x
	}
	if kind == "cpu" {
		// system memory in use by the CPU runners that are running
		x := mk(r.c.Cpu)
		for _, m := range r.srvs {
			if m.closed == 0 && len(m.gpus) == 1 && m.gpus[0] == r.c.Cpu.ID {
				if m.vram >= x.FreeMemory {
					x.FreeMemory = 0
				} else {
					x.FreeMemory -= m.vram
				}
			}
		}
		return discover.GpuInfoList{x}
	}
	var out discover.GpuInfoList
	for _, g := range r.c.Gpus {
		out = append(out, mk(g))
	}
	return out
}

func (r *vsRun) modelIndex(path string) int {
	for i, m := range r.models {
		if m.ModelPath == path {
			return i
		}
	}
	return -1
}

func (r *vsRun) newServer(gpus discover.GpuInfoList, model string, f *ggml.GGML, adapters []string, projectors []string, opts api.Options, numParallel int) (llm.LlamaServer, error) {
	mi := r.modelIndex(model)
	orig := gpus
	ov0 := envconfig.GpuOverhead()
	ids := []string{}
	for _, g := range gpus {
		ids = append(ids, g.Library+":"+g.ID)
	}
	// the property's own reading of "predicted to fit": every layer incl. the output layer is placed on the GPUs
	// the runner is started on, computed from the memory estimate independently of llm.PredictServerFit
	fit := 1
	var estInfo []uint64 // for the replay reader: free memory of the GPUs passed, then the estimate (total size, layers)
	for _, g := range gpus {
		estInfo = append(estInfo, g.FreeMemory)
	}
	// the KV cache type the server is really started with (llm.NewLlamaServer): quantised only with flash attention,
	// which needs the setting, GPUs that support it and a model that can use it
	faReally := envconfig.FlashAttention() && gpus.FlashAttentionSupported()
	if f != nil {
		if _, emb := f.KV()[f.KV().Architecture()+".pooling_type"]; emb {
			faReally = false
		}
		if f.KV().EmbeddingHeadCountK() == 0 || f.KV().EmbeddingHeadCountK() != f.KV().EmbeddingHeadCountV() {
			faReally = false
		}
	}
	// what the server is started with: the real estimate on the GPUs passed, under the real settings
	var realEst llm.MemoryEstimate
	if f != nil && len(gpus) > 0 {
		realEst = llm.EstimateGPULayers(gpus, f, projectors, opts, numParallel)
	}
	if envconfig.FlashAttention() && !faReally {
		defer os.Setenv("OLLAMA_FLASH_ATTENTION", os.Getenv("OLLAMA_FLASH_ATTENTION"))
		os.Setenv("OLLAMA_FLASH_ATTENTION", "0")
	}
	// The oracle never lets the estimator subtract: the reserve per GPU (OLLAMA_GPU_OVERHEAD) is taken off the free
	// memory here, saturating at 0, and the estimator runs with a reserve of 0 - the same verdict, no wrap-around.
	if ov := envconfig.GpuOverhead(); ov > 0 {
		defer os.Setenv("OLLAMA_GPU_OVERHEAD", os.Getenv("OLLAMA_GPU_OVERHEAD"))
		os.Setenv("OLLAMA_GPU_OVERHEAD", "0")
		g2 := append(discover.GpuInfoList{}, gpus...)
		for i := range g2 {
			if g2[i].FreeMemory > ov {
				g2[i].FreeMemory -= ov
			} else {
				g2[i].FreeMemory = 0
			}
		}
		gpus = g2
		estInfo = append(estInfo, ov)
	}
	if f != nil && len(gpus) == 1 && gpus[0].Library == "cpu" {
		est := llm.EstimateGPULayers(gpus, f, projectors, opts, numParallel)
		estInfo = append(estInfo, est.TotalSize, 0)
		if est.TotalSize > gpus[0].FreeMemory {
			fit = 0
		}
	} else if f != nil && len(gpus) > 0 && gpus[0].Library != "cpu" {
		est := llm.EstimateGPULayers(gpus, f, projectors, opts, numParallel)
		estInfo = append(estInfo, est.TotalSize, uint64(est.Layers))
		need := int(f.KV().BlockCount()) + 1
		if opts.NumGPU >= 0 {
			need = opts.NumGPU
		}
		if !(est.Layers > 0 && est.Layers >= need) {
			fit = 0
		}
	} else if f == nil {
		fit = -1
	}
	// Second verdict, on the harness' own books: the free memory of each GPU is what the inventory reports minus what
	// the running servers REALLY occupy there (per-GPU bytes of their estimates, index-aligned), not what the
	// scheduler derived through EstimatedVRAMByGPU / updateFreeSpace.
	fit2 := fit
	attr := [][]uint64{}
	if f != nil && len(orig) > 0 && orig[0].Library != "cpu" {
		ov := ov0
		g3 := append(discover.GpuInfoList{}, orig...)
		for i := range g3 {
			var spec *vsGpu
			for k := range r.c.Gpus {
				if r.c.Gpus[k].ID == g3[i].ID {
					spec = &r.c.Gpus[k]
				}
			}
			if spec == nil {
				continue
			}
			used := uint64(0)
			for _, m := range r.srvs {
				if m.closed == 0 {
					used += m.bytesOn(g3[i].ID)
				}
			}
			free := spec.Free
			if used >= spec.Total {
				free = 0
			} else if spec.Total-used < free {
				free = spec.Total - used
			}
			if free > ov {
				free -= ov
			} else {
				free = 0
			}
			g3[i].FreeMemory = free
		}
		est := llm.EstimateGPULayers(g3, f, projectors, opts, numParallel)
		need := int(f.KV().BlockCount()) + 1
		if opts.NumGPU >= 0 {
			need = opts.NumGPU
		}
		fit2 = 1
		if !(est.Layers > 0 && est.Layers >= need) {
			fit2 = 0
		}
		for i, g := range orig {
			sz := uint64(0)
			if i < len(realEst.GPUSizes) {
				sz = realEst.GPUSizes[i]
			}
			attr = append(attr, []uint64{g.FreeMemory, sz, llm.VerifEstimatedVRAMByGPU(orig, realEst, g.ID), g3[i].FreeMemory})
		}
	}
	alt := vhEnvChoice("mock.newserver", 2)
	if alt == 1 {
		r.ev("newserver", mi, -1, opts.NumCtx, opts.NumGPU, numParallel, ids, adapters, fit, len(r.s.loaded), estInfo, attr, fit2)
		return nil, errors.New("mock newServer failure")
	}
	m := &vsMock{r: r, id: len(r.srvs), model: mi}
	if mi >= 0 {
		m.vram = r.c.Models[mi].VRAM
	}
	for _, g := range gpus {
		m.gpus = append(m.gpus, g.ID)
	}
	if r.c.RealVram && f != nil && len(orig) > 0 && orig[0].Library != "cpu" {
		m.rep, m.truth = map[string]uint64{}, map[string]uint64{}
		for i, g := range orig {
			m.rep[g.ID] = llm.VerifEstimatedVRAMByGPU(orig, realEst, g.ID)
			if i < len(realEst.GPUSizes) {
				m.truth[g.ID] = realEst.GPUSizes[i]
			}
		}
	}
	r.srvs = append(r.srvs, m)
	r.ev("newserver", mi, m.id, opts.NumCtx, opts.NumGPU, numParallel, ids, adapters, fit, len(r.s.loaded), estInfo, attr, fit2)
	return m, nil
}

func (r *vsRun) ridOf(p *runnerRef) int {
	if p == nil {
		return -1
	}
	if id, ok := r.ptr2rid[p]; ok {
		return id
	}
	if m, ok := p.llama.(*vsMock); ok && m != nil {
		r.ptr2rid[p] = m.id
		for len(r.ptrs) <= m.id {
			r.ptrs = append(r.ptrs, nil)
		}
		r.ptrs[m.id] = p
		return m.id
	}
	return -2
}

func vsDur(d time.Duration) int64 {
	if d == time.Duration(math.MaxInt64) {
		return -1
	}
	return int64(d / time.Millisecond)
}

// snapshot reads the scheduler state while every scheduler goroutine is parked or blocked.
func (r *vsRun) snapshot() map[string]any {
	st := map[string]any{}
	ld := map[string]int{}
	for p, ru := range r.s.loaded {
		ld[strconv.Itoa(r.modelIndex(p))] = r.ridOf(ru)
	}
	st["ld"] = ld
	rs := [][]any{}
	for id := 0; id < len(r.srvs); id++ {
		var p *runnerRef
		if id < len(r.ptrs) {
			p = r.ptrs[id]
		}
		if p == nil {
			rs = append(rs, []any{})
			continue
		}
		held, _ := vhHeld(&p.refMu)
		rs = append(rs, []any{int64(p.refCount), vsDur(p.sessionDuration), b2i(p.expireTimer != nil), b2i(p.loading), b2i(p.llama == nil), b2i(held)})
	}
	st["rs"] = rs
	st["q"] = []int{len(r.s.pendingReqCh), len(r.s.finishedReqCh), len(r.s.expiredCh), len(r.s.unloadedCh)}
	held, _ := vhHeld(&r.s.loadedMu)
	st["lm"] = b2i(held)
	return st
}

func b2i(b bool) int {
	if b {
		return 1
	}
	return 0
}

func (r *vsRun) submit(q int) {
	rs := r.reqs[q]
	rs.submitted = true
	spec := rs.spec
	ctx, cancel := context.WithCancel(context.Background())
	rs.cancel = cancel
	opts := api.DefaultOptions()
	opts.NumCtx = spec.Ctx
	opts.NumGPU = spec.NGpu
	if r.c.MMap != "" {
		b := r.c.MMap == "true"
		opts.UseMMap = &b
	}
	m := *r.models[spec.M]
	if spec.Adapter > 0 {
		m.AdapterPaths = []string{"ad" + strconv.Itoa(spec.Adapter)}
	}
	var ka *api.Duration
	if spec.KA != nil {
		d := time.Duration(*spec.KA) * time.Millisecond
		if *spec.KA < 0 {
			d = time.Duration(math.MaxInt64)
		}
		ka = &api.Duration{Duration: d}
	}
	r.ev("submit", q)
	if r.c.Via == "sr" {
		// the request goes through the real routes.go scheduleRunner (GetModel, capability check, option merge,
		// GetRunner, reply select); the handler keeps the returned runner until the harness cancels ctx
		name := r.names[spec.M]
		reqOpts := map[string]any{"num_ctx": float64(spec.Ctx), "num_gpu": float64(spec.NGpu)}
		if r.c.MMap != "" {
			reqOpts["use_mmap"] = r.c.MMap == "true"
		}
		go func() {
			ll, _, _, err := r.srv.scheduleRunner(ctx, name, []model.Capability{model.CapabilityCompletion}, reqOpts, ka)
			rs.replies++
			if err != nil {
				kind := "err"
				if errors.Is(err, ErrMaxQueue) {
					kind = "busy"
				}
				r.ev("reply", q, kind, err.Error())
				return
			}
			rid, closed := -1, 0
			if mm, ok := ll.(*vsMock); ok && mm != nil {
				rid = mm.id
			} else {
				closed = 1
			}
			rs.rid = rid
			r.ev("reply", q, "ok", rid, closed)
		}()
		return
	}
	if r.c.ConcSubmit {
		g := vhSpawn("api.submit")
		r.ev("spawn-submit", q, g.Name, len(r.ctl.All())-1)
		go func() {
			vhEnter(g)
			okCh, errCh := r.s.GetRunner(ctx, &m, opts, ka)
			rs.returned = true
			r.ev("submit-ret", q)
			vhExit(g)
			r.listen(q, rs, okCh, errCh)
		}()
		return
	}
	okCh, errCh := r.s.GetRunner(ctx, &m, opts, ka)
	rs.returned = true
	go r.listen(q, rs, okCh, errCh)
}

func (r *vsRun) listen(q int, rs *vsReqState, okCh chan *runnerRef, errCh chan error) {
	{
		for {
			select {
			case ru := <-okCh:
				rs.replies++
				// what routes.go scheduleRunner does with the reply: it reads runner.llama
				closed := 0
				if ru == nil || ru.llama == nil {
					closed = 1
				}
				rid := -1
				if ru != nil {
					if mm, ok := ru.llama.(*vsMock); ok && mm != nil {
						rid = mm.id
					} else {
						r.mu.Lock()
						if id, ok := r.ptr2rid[ru]; ok {
							rid = id
						}
						r.mu.Unlock()
					}
				}
				rs.rid = rid
				r.ev("reply", q, "ok", rid, closed)
			case err := <-errCh:
				rs.replies++
				kind := "err"
				if errors.Is(err, ErrMaxQueue) {
					kind = "busy"
				}
				r.ev("reply", q, kind, err.Error())
			case <-r.quit:
				return
			}
		}
	}
}

// heldBy: some request that was handed runner id has not finished yet
func (r *vsRun) heldBy(id int) bool {
	for _, rs := range r.reqs {
		if rs.replies > 0 && !rs.cancelled && rs.rid == id {
			return true
		}
	}
	return false
}

func (r *vsRun) expire(m int) {
	r.apis++
	g := vhSpawn("api.expire")
	mod := r.models[m]
	r.ev("expire", m)
	go func() {
		vhEnter(g)
		defer vhExit(g)
		r.s.expireRunner(mod)
		r.ev("expire-ret", m)
	}()
}

type vsOpt struct {
	c vsChoice
	g *vhG
}

func (r *vsRun) internalOpts() []vsOpt {
	var out []vsOpt
	for _, g := range r.ctl.Parked() {
		for _, a := range g.Alts() {
			out = append(out, vsOpt{c: vsChoice{A: "run", G: g.Name, Alt: a, Site: g.Site}, g: g})
		}
	}
	return out
}

func (r *vsRun) findG(name string) *vhG {
	for _, g := range r.ctl.Parked() {
		if g.Name == name {
			return g
		}
	}
	return nil
}

// perform executes one choice if it is enabled now; it returns false (and does nothing) otherwise.
func (r *vsRun) perform(c vsChoice) bool {
	switch c.A {
	case "submit":
		if c.Q < 0 || c.Q >= len(r.reqs) || r.reqs[c.Q].submitted {
			return false
		}
		r.submit(c.Q)
	case "cancel":
		if c.Q < 0 || c.Q >= len(r.reqs) || !r.reqs[c.Q].submitted || r.reqs[c.Q].cancelled || (r.c.ConcSubmit && !r.reqs[c.Q].returned) {
			return false
		}
		r.reqs[c.Q].cancelled = true
		r.ev("cancel", c.Q)
		r.reqs[c.Q].cancel()
	case "expire":
		if c.M < 0 || c.M >= len(r.models) {
			return false
		}
		r.expire(c.M)
	case "selfclose":
		// the server process of runner c.M (a runner id here) exits on its own while a request holds the runner
		if !r.c.SelfClose || c.M < 0 || c.M >= len(r.srvs) || r.srvs[c.M].dead || r.srvs[c.M].closed > 0 {
			return false
		}
		if !r.heldBy(c.M) {
			return false
		}
		r.srvs[c.M].dead = true
		r.ev("selfclose", c.M)
	case "tick":
		if c.Ms <= 0 {
			return false
		}
		r.ev("tick", c.Ms)
		time.Sleep(time.Duration(c.Ms) * time.Millisecond)
	case "run":
		g := r.findG(c.G)
		if g == nil {
			return false
		}
		ok := false
		for _, a := range g.Alts() {
			if a == c.Alt {
				ok = true
			}
		}
		if !ok {
			return false
		}
		r.ctl.Release(g, c.Alt)
	default:
		return false
	}
	return true
}

func (r *vsRun) record(c vsChoice, phase string) {
	synctest.Wait()
	r.mu.Lock()
	evs := r.cur
	r.cur = nil
	r.mu.Unlock()
	if evs == nil {
		evs = [][]any{}
	}
	var blk []string
	if r.c.ConcSubmit {
		for _, g := range r.ctl.Parked() {
			if strings.HasPrefix(g.Name, "api.submit#") && g.Kind != "entry" && len(g.Alts()) == 0 {
				blk = append(blk, g.Name+"@"+g.Site)
			}
		}
	}
	r.obs.Steps = append(r.obs.Steps, vsStep{C: c, T: int64(time.Since(r.start) / time.Millisecond), Ev: evs, St: r.snapshot(), Ph: phase, Blk: blk})
}

// lockWaiters: goroutines parked at a Lock whose mutex is held.
func (r *vsRun) lockWaiters() []*vhG {
	var out []*vhG
	for _, g := range r.ctl.Parked() {
		if g.Kind == "lock" && g.waitMu != nil && g.waitMu.held.Load() {
			out = append(out, g)
		}
	}
	return out
}

// lockCycle: the scheduler is deadlocked when no scheduler goroutine can be released (a pending load / ping /
// newServer outcome counts as releasable) and some goroutine waits for a mutex: every holder is then itself
// waiting for a mutex, and neither time nor any request event can release one.  Returns the goroutines on a
// wait-for cycle (by last locker; a goroutine "waiting for itself" is the lock hand-off of load() and is skipped),
// or all waiters when the cycle cannot be named.
func (r *vsRun) lockCycle() []map[string]any {
	ws := r.lockWaiters()
	if len(ws) == 0 || len(r.internalOpts()) > 0 {
		return nil
	}
	desc := func(g *vhG) map[string]any {
		on := "?"
		if o := g.waitMu.owner.Load(); o != nil {
			on = o.Name
		}
		return map[string]any{"g": g.Name, "at": g.Site, "waits_for_mutex_held_by": on, "mutex": r.muName(g.waitMu)}
	}
	for _, g0 := range ws {
		seen := map[*vhG]bool{}
		var chain []map[string]any
		g := g0
		for g != nil && g.Kind == "lock" && g.parked.Load() && g.waitMu != nil && g.waitMu.held.Load() {
			if seen[g] {
				if g == g0 && len(chain) >= 2 {
					return chain
				}
				break
			}
			seen[g] = true
			chain = append(chain, desc(g))
			o := g.waitMu.owner.Load()
			if o == g {
				break
			}
			g = o
		}
	}
	var all []map[string]any
	for _, g := range ws {
		all = append(all, desc(g))
	}
	return all
}

func (r *vsRun) muName(m *vhMutex) string {
	if any(m) == any(&r.s.loadedMu) {
		return "loadedMu"
	}
	for id, p := range r.ptrs {
		if p != nil && any(&p.refMu) == any(m) {
			return "refMu(r" + strconv.Itoa(id) + ")"
		}
	}
	return "refMu(?)"
}

func (r *vsRun) randomChoice() (vsChoice, bool) {
	c := r.c
	all := r.internalOpts()
	ints := all
	if c.FinishEarly > 0 && r.ehState == 0 && r.rng.Float64() < c.FinishEarly {
		for q, rs := range r.reqs {
			if rs.submitted && !rs.cancelled && rs.replies > 0 {
				return vsChoice{A: "cancel", Q: q}, true
			}
		}
	}
	if c.ExpireHot > 0 {
		var pOpt, cOpt *vsOpt
		for i := range all {
			g := all[i].g
			if strings.HasPrefix(g.Name, "Run.go1#") && (g.Site == "needsReload.lock1" || g.Site == "mock.ping" || g.Site == "useLoadedRunner.lock1") {
				pOpt = &all[i]
			}
			if strings.HasPrefix(g.Name, "Run.go2#") && cOpt == nil {
				cOpt = &all[i]
			}
		}
		switch r.ehState {
		case 0:
			if pOpt != nil && pOpt.g.Site == "needsReload.lock1" && r.rng.Float64() < c.ExpireHot {
				for _, ru := range r.s.loaded {
					if ru.expireTimer != nil && ru.refCount == 0 {
						if d := vsDur(ru.sessionDuration); d >= 0 && d <= 2000 {
							r.ehState, r.ehSteps = 1, 1+r.rng.Intn(5)
							return vsChoice{A: "tick", Ms: d + 1}, true
						}
					}
				}
			}
		case 1: // the timer callback queues the expired event
			if pOpt == nil {
				r.ehState = 0
			} else if len(r.s.expiredCh) > 0 {
				r.ehState = 2
			} else {
				moved := false
				for _, o := range all {
					if !strings.HasPrefix(o.g.Name, "Run.go1#") && !strings.HasPrefix(o.g.Name, "Run.go2#") && o.g.Kind != "env" {
						moved = true
						return o.c, true
					}
				}
				if !moved {
					r.ehState = 0
				}
			}
		}
		if r.ehState == 2 { // the completed loop goes some steps into the expired branch
			if pOpt == nil || cOpt == nil || r.ehSteps == 0 {
				r.ehState = 3
			} else {
				r.ehSteps--
				return cOpt.c, true
			}
		}
		if r.ehState == 3 { // the pending loop hands the runner out
			if pOpt != nil {
				return pOpt.c, true
			}
			r.ehState = 0
		}
	}
	if c.FinishHot > 0 {
		// steer towards: the last holder's finish is processed (refCount 0, expired event queued) while the pending
		// loop stands between needsReload and the hand-over for the next request, which then takes the runner
		inReuse := func(g *vhG) bool {
			return strings.HasPrefix(g.Name, "Run.go1#") && (g.Site == "mock.ping" || g.Site == "useLoadedRunner.lock1")
		}
		var pOpt *vsOpt
		for i := range all {
			if inReuse(all[i].g) {
				pOpt = &all[i]
			}
		}
		switch r.fhState {
		case 0:
			if pOpt != nil && r.rng.Float64() < c.FinishHot {
				for q, rs := range r.reqs {
					if rs.submitted && !rs.cancelled && rs.replies > 0 {
						r.fhState = 1
						return vsChoice{A: "cancel", Q: q}, true
					}
				}
			}
		case 1:
			if pOpt == nil {
				r.fhState = 0
			} else if len(r.s.expiredCh) > 0 {
				r.fhState = 2
				return pOpt.c, true
			} else {
				for _, o := range all {
					if !strings.HasPrefix(o.g.Name, "Run.go1#") && o.g.Kind != "env" {
						return o.c, true
					}
				}
				r.fhState = 0
			}
		case 2:
			if pOpt != nil {
				return pOpt.c, true
			}
			r.fhState = 0
		}
	}
	if c.CancelHot > 0 {
		hot := false
		for _, g := range r.ctl.Parked() {
			if g.Site == "mock.ping" || strings.HasPrefix(g.Site, "useLoadedRunner.") {
				hot = true
			}
		}
		if !hot && r.rng.Float64() < c.CancelHot {
			// requests that hold a runner finish early, so that the next one finds the runner idle
			for q, rs := range r.reqs {
				if rs.submitted && !rs.cancelled && rs.replies > 0 {
					return vsChoice{A: "cancel", Q: q}, true
				}
			}
		}
		if hot && r.rng.Float64() < c.CancelHot {
			var qs []int
			for q, rs := range r.reqs {
				if rs.submitted && !rs.cancelled && rs.replies == 0 {
					qs = append(qs, q)
				}
			}
			if len(qs) > 0 {
				return vsChoice{A: "cancel", Q: qs[r.rng.Intn(len(qs))]}, true
			}
		}
	}
	if c.HoldLoad > 0 && r.rng.Float64() < c.HoldLoad {
		var rest []vsOpt
		for _, o := range all {
			if o.g.Site != "mock.wait" {
				rest = append(rest, o)
			}
		}
		ints = rest
	}
	if c.HoldSched > 0 && r.rng.Float64() < c.HoldSched {
		var rest []vsOpt
		for _, o := range ints {
			if !strings.HasPrefix(o.g.Name, "Run.go1#") {
				rest = append(rest, o)
			}
		}
		ints = rest
	}
	// group the internal options by goroutine, then pick an alternative
	if len(ints) > 0 && r.rng.Float64() < c.PInt {
		names := []string{}
		by := map[string][]vsOpt{}
		for _, o := range ints {
			if _, ok := by[o.c.G]; !ok {
				names = append(names, o.c.G)
			}
			by[o.c.G] = append(by[o.c.G], o)
		}
		os_ := by[names[r.rng.Intn(len(names))]]
		if os_[0].g.Kind == "env" {
			alt := 0
			if r.rng.Float64() < c.PFail {
				alt = 1
			}
			// a load whose request has been cancelled fails (the real WaitUntilRunning watches the context)
			if r.loadCancelled(os_[0].g) && r.rng.Float64() < 0.85 {
				alt = 1
			}
			for _, o := range os_ {
				if o.c.Alt == alt {
					return o.c, true
				}
			}
		}
		return os_[r.rng.Intn(len(os_))].c, true
	}
	var env []vsChoice
	var w []float64
	for q, rs := range r.reqs {
		if !rs.submitted {
			if c.Sequential {
				busy := len(r.s.loaded) > 0
				if c.SeqKeep {
					busy = len(all) > 0
				}
				for _, o := range r.reqs {
					if o.submitted && !o.cancelled {
						busy = true
					}
				}
				if busy {
					break
				}
			}
			env = append(env, vsChoice{A: "submit", Q: q})
			w = append(w, 4)
			break
		}
	}
	for q, rs := range r.reqs {
		if rs.submitted && !rs.cancelled {
			env = append(env, vsChoice{A: "cancel", Q: q})
			if rs.replies > 0 {
				w = append(w, 2)
			} else {
				w = append(w, 0.4)
			}
		}
	}
	if c.SelfClose {
		for id, m := range r.srvs {
			if !m.dead && m.closed == 0 && r.heldBy(id) {
				env = append(env, vsChoice{A: "selfclose", M: id})
				w = append(w, 1.2)
				break
			}
		}
	}
	napi, wapi := 3, 0.6
	if c.ExpireW > 0 {
		napi, wapi = 6, c.ExpireW
	}
	if r.apis < napi && !c.Passive {
		env = append(env, vsChoice{A: "expire", M: r.rng.Intn(len(r.models))})
		w = append(w, wapi)
	}
	if r.ticks < 12 && !c.NoTicks {
		ds := []int64{1, 5, 10, 10, 250, 1000, 300000}
		env = append(env, vsChoice{A: "tick", Ms: ds[r.rng.Intn(len(ds))]})
		w = append(w, 1.5)
	}
	if len(env) == 0 {
		if len(all) > 0 {
			return all[r.rng.Intn(len(all))].c, true
		}
		return vsChoice{}, false
	}
	tot := 0.0
	for _, x := range w {
		tot += x
	}
	x := r.rng.Float64() * tot
	for i := range env {
		if x < w[i] {
			return env[i], true
		}
		x -= w[i]
	}
	return env[len(env)-1], true
}

func (r *vsRun) step(c vsChoice, phase string) bool {
	if c.A == "run" {
		if g := r.findG(c.G); g != nil {
			c.Site = g.Site
			for i, x := range r.ctl.All() {
				if x == g {
					c.I = i
				}
			}
		}
	}
	if !r.perform(c) {
		return false
	}
	if c.A == "tick" {
		r.ticks++
	}
	r.record(c, phase)
	return true
}

func (r *vsRun) loadCancelled(g *vhG) bool {
	if g.Site != "mock.wait" {
		return false
	}
	r.mu.Lock()
	ctx := r.waitCtx[g]
	r.mu.Unlock()
	return ctx != nil && ctx.Err() != nil
}

// runInternal runs enabled scheduler goroutines (creation order, successful outcomes) until none is enabled.
func (r *vsRun) runInternal(phase string, budget *int) {
	for *budget > 0 {
		ints := r.internalOpts()
		if len(ints) == 0 {
			return
		}
		*budget--
		ch := ints[0].c
		if r.loadCancelled(ints[0].g) {
			ch.Alt = 1
		}
		r.step(ch, phase)
		if cyc := r.lockCycle(); cyc != nil {
			return
		}
	}
}

func (r *vsRun) sleepers() int {
	n := 0
	for _, g := range r.ctl.All() {
		if !g.done.Load() && !g.parked.Load() {
			n++
		}
	}
	return n
}

func (r *vsRun) unreplied() []int {
	var out []int
	for q, rs := range r.reqs {
		if rs.submitted && !rs.cancelled && rs.replies == 0 {
			out = append(out, q)
		}
	}
	return out
}

// drain: (d1) let everything in flight complete with successful outcomes, finishing (cancelling) requests that
// already hold a runner so that requests behind them can be served; (d2) finish all requests, explicitly
// unload runners that never expire, let every keep-alive elapse.
func (r *vsRun) drain() {
	budget := 600
	for round := 0; round < 40 && budget > 0; round++ {
		r.runInternal("d1", &budget)
		if r.lockCycle() != nil {
			return
		}
		progressed := false
		for q, rs := range r.reqs {
			if rs.submitted && !rs.cancelled && rs.replies > 0 {
				r.step(vsChoice{A: "cancel", Q: q}, "d1")
				progressed = true
			}
		}
		if !progressed {
			if len(r.unreplied()) == 0 && r.sleepers() == 0 {
				break
			}
			r.step(vsChoice{A: "tick", Ms: 250}, "d1")
		}
	}
	if un := r.unreplied(); len(un) > 0 {
		r.obs.Stuck = map[string]any{"unreplied": un, "parked": r.parkedInfo()}
		return
	}
	for round := 0; round < 12 && budget > 0; round++ {
		r.runInternal("d2", &budget)
		if r.lockCycle() != nil {
			return
		}
		if len(r.s.loaded) == 0 && r.sleepers() == 0 && len(r.internalOpts()) == 0 {
			break
		}
		var maxd int64 = 250
		for p, ru := range r.s.loaded {
			d := vsDur(ru.sessionDuration)
			if r.c.Passive {
				if d+1 > maxd {
					maxd = d + 1
				}
			} else if ru.expireTimer != nil {
				if d < 0 {
					r.step(vsChoice{A: "expire", M: r.modelIndex(p)}, "d2")
				} else if d+1 > maxd {
					maxd = d + 1
				}
			}
		}
		r.runInternal("d2", &budget)
		r.step(vsChoice{A: "tick", Ms: maxd}, "d2")
	}
}

func (r *vsRun) parkedInfo() []map[string]any {
	var out []map[string]any
	for _, g := range r.ctl.Parked() {
		out = append(out, map[string]any{"g": g.Name, "at": g.Site, "kind": g.Kind, "enabled": len(g.Alts()) > 0})
	}
	return out
}

func vsRunCase(dir string, c *vsCase) (obs *vsObs) {
	obs = &vsObs{ID: c.ID}
	completed := false
	defer func() {
		if p := recover(); p != nil {
			// A request that was cancelled before the scheduler looked at it is dropped without a reply, and
			// routes.go scheduleRunner then waits for ever (it does not watch its context): such goroutines are
			// still blocked when the bubble ends, which synctest reports by panicking.  Not a scheduler failure.
			if completed && c.Via == "sr" && strings.Contains(fmt.Sprint(p), "all goroutines in bubble are blocked") {
				return
			}
			obs.Panic = fmt.Sprint(p)
		}
	}()
	setenv := func(key, plain string) {
		if s, ok := c.Spell[key]; ok {
			os.Setenv(key, s)
		} else {
			os.Setenv(key, plain)
		}
	}
	if c.Max > 0 {
		setenv("OLLAMA_MAX_LOADED_MODELS", strconv.Itoa(c.Max))
	} else {
		os.Unsetenv("OLLAMA_MAX_LOADED_MODELS")
	}
	setenv("OLLAMA_MAX_QUEUE", strconv.Itoa(c.MaxQ))
	setenv("OLLAMA_NUM_PARALLEL", strconv.Itoa(c.Par))
	os.Unsetenv("OLLAMA_KEEP_ALIVE")
	os.Unsetenv("OLLAMA_SCHED_SPREAD")
	os.Unsetenv("OLLAMA_FLASH_ATTENTION")
	os.Unsetenv("OLLAMA_KV_CACHE_TYPE")
	os.Unsetenv("OLLAMA_GPU_OVERHEAD")
	if c.Overhead > 0 {
		setenv("OLLAMA_GPU_OVERHEAD", strconv.FormatUint(c.Overhead, 10))
	}
	if c.FA {
		setenv("OLLAMA_FLASH_ATTENTION", "1")
	}
	if c.KVType != "" {
		os.Setenv("OLLAMA_KV_CACHE_TYPE", c.KVType)
	}
	synctest.Run(func() {
		r := &vsRun{c: c, dir: dir, waitCtx: map[*vhG]context.Context{}, ptr2rid: map[*runnerRef]int{}, rng: rand.New(rand.NewSource(c.Seed)), quit: make(chan struct{}), obs: obs}
		for k, m := range c.Models {
			if c.Via == "sr" {
				name := vsStoreNames[k%len(vsStoreNames)]
				mod, err := GetModel(name)
				if err != nil {
					panic(err)
				}
				r.models = append(r.models, mod)
				r.names = append(r.names, name)
				continue
			}
			p := filepath.Join(dir, m.Name)
			if m.Bad {
				p = filepath.Join(dir, "missing-"+m.Name)
			} else if _, err := os.Stat(p); err != nil {
				if err := vsWriteModel(p, m.NoFA); err != nil {
					panic(err)
				}
			}
			r.models = append(r.models, &Model{Name: m.Name, ShortName: m.Name, ModelPath: p})
			r.names = append(r.names, m.Name)
		}
		// "edge" models: leave exactly the memory in which the blocks of a model fit but its output layer does not
		for k := range c.Models {
			if c.Models[k].Edge && len(c.Gpus) > 0 && !c.Models[k].Bad {
				if obs.EdgeFree == 0 {
					g := c.Gpus[0]
					if c.Models[k].EdgeCPU {
						g = c.Cpu
					}
					obs.EdgeFree = vsEdgeFree(r.models[k].ModelPath, g, c.Par, c.Models[k])
				}
				if obs.EdgeFree > 0 && c.Models[k].EdgeCPU {
					c.Models[k].VRAM = c.Cpu.Free - obs.EdgeFree
				} else if obs.EdgeFree > 0 {
					c.Models[k].VRAM = c.Gpus[0].Total - obs.EdgeFree
				}
			}
		}
		if c.LastGpuEdge && len(c.Gpus) > 0 && len(r.models) > 0 {
			k := len(c.Gpus) - 1
			g := c.Gpus[k]
			g.Total, g.Free = 24000000000, 24000000000
			if e := vsEdgeFree(r.models[0].ModelPath, g, 1, vsModel{}); e > 0 {
				c.Gpus[k].Total, c.Gpus[k].Free = e, e
				obs.EdgeFree = e
			}
		}
		for _, q := range c.Reqs {
			r.reqs = append(r.reqs, &vsReqState{spec: q, rid: -1})
		}
		r.ctl = vhNewCtl()
		defer r.ctl.Stop()
		ctx, done := context.WithCancel(context.Background())
		r.start = time.Now()
		s := InitScheduler(ctx)
		// The three internal event queues get room for every event a bounded history can produce, so that only
		// the pending queue (the one the property talks about) can be full; in production all four have
		// OLLAMA_MAX_QUEUE (512) slots.
		// unloadedCh keeps the OLLAMA_MAX_QUEUE slots InitScheduler gave it: its only consumers are the pending loop's
		// idle arm and its wait for an eviction, so a producer that outruns them must show.
		s.finishedReqCh = make(chan *LlmRequest, 64)
		s.expiredCh = make(chan *runnerRef, 64)
		s.getGpuFn = func() discover.GpuInfoList { return r.gpuList("gpu") }
		s.getCpuFn = func() discover.GpuInfoList { return r.gpuList("cpu") }
		s.newServerFn = r.newServer
		r.s = s
		r.srv = &Server{sched: s}
		s.Run(ctx)
		synctest.Wait()
		obs.Instr = len(r.ctl.All()) > 0
		r.record(vsChoice{A: "start"}, "")

		limit := 900
		if c.Mode == "explicit" {
			for _, ch := range c.Choices {
				if len(obs.Steps) > limit {
					obs.Truncated = true
					break
				}
				if !r.step(ch, "") {
					obs.Skipped++
				}
				if cyc := r.lockCycle(); cyc != nil {
					break
				}
			}
		} else {
			for i := 0; i < c.Steps; i++ {
				ch, ok := r.randomChoice()
				if !ok {
					break
				}
				r.step(ch, "")
				if cyc := r.lockCycle(); cyc != nil {
					break
				}
			}
		}
		if cyc := r.lockCycle(); cyc == nil && !c.NoDrain {
			r.drain()
		}
		if cyc := r.lockCycle(); cyc != nil {
			obs.Deadlock = map[string]any{"cycle": cyc, "unreplied": r.unreplied(), "parked": r.parkedInfo()}
		}
		obs.Final = map[string]any{"parked": r.parkedInfo(), "sleepers": r.sleepers(), "unreplied": r.unreplied()}
		obs.MaxEnv = os.Getenv("OLLAMA_MAX_LOADED_MODELS")

		// teardown: stop the scheduler, kill whatever is parked, wake sleepers
		done()
		for _, rs := range r.reqs {
			if rs.cancel != nil {
				rs.cancel()
			}
		}
		close(r.quit)
		for i := 0; i < 50; i++ {
			synctest.Wait()
			ps := r.ctl.Parked()
			if len(ps) == 0 {
				if r.sleepers() == 0 {
					break
				}
				time.Sleep(time.Second)
				continue
			}
			for _, g := range ps {
				r.ctl.Release(g, vhKill)
			}
		}
		for _, ru := range r.ptrs {
			if ru != nil && ru.expireTimer != nil {
				ru.expireTimer.Stop()
			}
		}
		completed = true
	})
	return obs
}

// vsEdgeFree: a free-memory value for which the memory estimate places the repeating blocks of the (tiny) model on
// the GPU but not its output layer (0 if there is no such value).
// With edgePar > 1: a value for which the model fits completely with one slot (context 2048) but not with edgePar
// slots (context edgePar x 2048).
func vsEdgeFree(path string, g vsGpu, par int, m vsModel) uint64 {
	edgePar := m.EdgePar
	f, err := llm.LoadModel(path, 0)
	if err != nil {
		return 0
	}
	if par <= 0 {
		par = 1
	}
	layers := func(free uint64, p int) int {
		opts := api.DefaultOptions()
		opts.NumCtx = 2048 * p
		x := discover.GpuInfo{Library: g.Lib, ID: g.ID}
		x.TotalMemory = g.Total
		x.FreeMemory = free
		return llm.EstimateGPULayers([]discover.GpuInfo{x}, f, nil, opts, p).Layers
	}
	first := func(n int, p int) uint64 { // least free memory with at least n layers
		lo, hi := uint64(0), g.Total
		if layers(hi, p) < n {
			return 0
		}
		for lo < hi {
			mid := lo + (hi-lo)/2
			if layers(mid, p) >= n {
				hi = mid
			} else {
				lo = mid + 1
			}
		}
		return lo
	}
	blocks := int(f.KV().BlockCount())
	a, b := first(blocks, par), first(blocks+1, par)
	if edgePar > 1 {
		a, b = first(blocks+1, 1), first(blocks+1, edgePar)
	}
	if m.EdgeCPU && edgePar > 1 {
		// least free system memory for which the CPU fit check (TotalSize <= free, num_gpu = 0) holds with p slots
		fits := func(free uint64, p int) bool {
			opts := api.DefaultOptions()
			opts.NumCtx = 2048 * p
			opts.NumGPU = 0
			x := discover.GpuInfo{Library: g.Lib, ID: g.ID}
			x.TotalMemory = g.Total
			x.FreeMemory = free
			return llm.EstimateGPULayers([]discover.GpuInfo{x}, f, nil, opts, p).TotalSize <= free
		}
		least := func(p int) uint64 {
			lo, hi := uint64(0), g.Total
			if !fits(hi, p) {
				return 0
			}
			for lo < hi {
				mid := lo + (hi-lo)/2
				if fits(mid, p) {
					hi = mid
				} else {
					lo = mid + 1
				}
			}
			return lo
		}
		a, b = least(1), least(edgePar)
	}
	if m.EdgeKV != "" {
		// least memory for a complete fit with the f16 cache, minus half of what the quantised cache would save
		opts := api.DefaultOptions()
		kv16, _, _ := f.GraphSize(uint64(2048*par), uint64(min(2048*par, opts.NumBatch)), par, "f16")
		kvq, _, _ := f.GraphSize(uint64(2048*par), uint64(min(2048*par, opts.NumBatch)), par, m.EdgeKV)
		var d uint64
		for i := range kv16 {
			if i < len(kvq) && kv16[i] > kvq[i] {
				d += kv16[i] - kvq[i]
			}
		}
		fa := os.Getenv("OLLAMA_FLASH_ATTENTION")
		os.Setenv("OLLAMA_FLASH_ATTENTION", "0")
		full := first(blocks+1, par)
		os.Setenv("OLLAMA_FLASH_ATTENTION", fa)
		if full == 0 || d < 4 || full <= d {
			return 0
		}
		a, b = full-d, full
	}
	if a == 0 || b == 0 || a >= b {
		return 0
	}
	return a + (b-a)/2
}

var vsStoreNames []string

// vsMakeStore creates a model store with three tiny models through the real create handler (once per process).
func vsMakeStore(t *testing.T) {
	gin.SetMode(gin.TestMode)
	t.Setenv("OLLAMA_MODELS", t.TempDir())
	var s Server
	for k := 0; k < 3; k++ {
		_, digest := createBinFile(t, ggml.KV{
			"general.architecture":          "llama",
			"general.name":                  fmt.Sprintf("verif-m%d", k),
			"llama.block_count":             uint32(1),
			"llama.context_length":          uint32(8192),
			"llama.embedding_length":        uint32(4096),
			"llama.attention.head_count":    uint32(32),
			"llama.attention.head_count_kv": uint32(8),
			"tokenizer.ggml.tokens":         []string{""},
			"tokenizer.ggml.scores":         []float32{0},
			"tokenizer.ggml.token_type":     []int32{0},
		}, []ggml.Tensor{
			{Name: "token_embd.weight", Shape: []uint64{1}, WriterTo: bytes.NewReader(make([]byte, 4))},
			{Name: "blk.0.attn_norm.weight", Shape: []uint64{1}, WriterTo: bytes.NewReader(make([]byte, 4))},
			{Name: "blk.0.ffn_down.weight", Shape: []uint64{1}, WriterTo: bytes.NewReader(make([]byte, 4))},
			{Name: "blk.0.ffn_gate.weight", Shape: []uint64{1}, WriterTo: bytes.NewReader(make([]byte, 4))},
			{Name: "blk.0.ffn_up.weight", Shape: []uint64{1}, WriterTo: bytes.NewReader(make([]byte, 4))},
			{Name: "blk.0.ffn_norm.weight", Shape: []uint64{1}, WriterTo: bytes.NewReader(make([]byte, 4))},
			{Name: "blk.0.attn_k.weight", Shape: []uint64{1}, WriterTo: bytes.NewReader(make([]byte, 4))},
			{Name: "blk.0.attn_output.weight", Shape: []uint64{1}, WriterTo: bytes.NewReader(make([]byte, 4))},
			{Name: "blk.0.attn_q.weight", Shape: []uint64{1}, WriterTo: bytes.NewReader(make([]byte, 4))},
			{Name: "blk.0.attn_v.weight", Shape: []uint64{1}, WriterTo: bytes.NewReader(make([]byte, 4))},
			{Name: "output.weight", Shape: []uint64{1}, WriterTo: bytes.NewReader(make([]byte, 4))},
		})
		name := fmt.Sprintf("vm%d", k)
		w := createRequest(t, s.CreateHandler, api.CreateRequest{Model: name, Files: map[string]string{"m.gguf": digest}, Stream: &stream})
		if w.Code != 200 {
			t.Fatalf("create %s: %d %s", name, w.Code, w.Body.String())
		}
		vsStoreNames = append(vsStoreNames, name)
	}
}

func TestVerifSched(t *testing.T) {
	if os.Getenv("VERIF_SCHED") == "" {
		t.Skip("verification harness entry point; run by /verif/props/c01.py")
	}
	slog.SetDefault(slog.New(slog.NewTextHandler(io.Discard, nil)))
	vsMakeStore(t)
	dir := t.TempDir()
	sc := bufio.NewScanner(os.Stdin)
	sc.Buffer(make([]byte, 1<<20), 1<<28)
	w := bufio.NewWriter(os.Stdout)
	defer w.Flush()
	for sc.Scan() {
		line := sc.Bytes()
		if len(line) == 0 {
			continue
		}
		var c vsCase
		if err := json.Unmarshal(line, &c); err != nil {
			fmt.Fprintf(w, "{\"harness_error\":%q}\n", err.Error())
			continue
		}
		if c.PInt == 0 {
			c.PInt = 0.7
		}
		obs := vsRunCase(dir, &c)
		b, err := json.Marshal(obs)
		if err != nil {
			fmt.Fprintf(w, "{\"harness_error\":%q}\n", err.Error())
			continue
		}
		w.Write(b)
		w.WriteString("\n")
		w.Flush()
	}
	_ = sort.Ints
}
