//go:build verif

package server

// C19, end to end: POST /api/chat through the real ChatHandler (model created by the real CreateHandler with the given
// template, system prompt and model messages; scheduler and runner are the mocks of routes_generate_test.go), observing
// the prompt and the images that reach the runner's Completion.  Cases on stdin, observations on stdout (JSON lines):
//
// case:  {"tmpl": hex, "system": hex, "model_msgs": [...], "msgs": [{"role","content","images":[hex]}], "num_ctx": n}
// reply: {"status": http status, "outcome": 0 prompt reached the runner | 3 no prompt, "err": body on failure,
//         "prompt": hex, "images": [{"id","data"}], "conv": the conversation the handler is expected to hand to chatPrompt,
//         "cand"/"cand_prompt": as in harness/cmd/c19 (template + mockRunner.Tokenize on every candidate suffix)}

import (
	"bufio"
	"bytes"
	"context"
	"encoding/hex"
	"encoding/json"
	"fmt"
	"net/http"
	"os"
	"strings"
	"testing"
	"time"

	"github.com/gin-gonic/gin"

	"github.com/ollama/ollama/api"
	"github.com/ollama/ollama/discover"
	"github.com/ollama/ollama/fs/ggml"
	"github.com/ollama/ollama/llm"
	"github.com/ollama/ollama/template"
)

func c19unhex(v any) string {
	s, _ := v.(string)
	b, err := hex.DecodeString(s)
	if err != nil {
		panic("bad hex " + s)
	}
	return string(b)
}

func c19msgs(v any) []api.Message {
	l, _ := v.([]any)
	out := make([]api.Message, 0, len(l))
	for _, x := range l {
		m := x.(map[string]any)
		msg := api.Message{Role: c19unhex(m["role"]), Content: c19unhex(m["content"])}
		if n, ok := m["tool_calls"].(float64); ok {
			for j := 0; j < int(n); j++ {
				msg.ToolCalls = append(msg.ToolCalls, api.ToolCall{Function: api.ToolCallFunction{
					Name: fmt.Sprintf("fn%d", j), Arguments: api.ToolCallFunctionArguments{"arg": j}}})
			}
		}
		if imgs, ok := m["images"].([]any); ok {
			for _, i := range imgs {
				msg.Images = append(msg.Images, api.ImageData(c19unhex(i)))
			}
		}
		out = append(out, msg)
	}
	return out
}

// one observation per line, flushed at once so that what the handlers print to stdout cannot cut a line in two
type c19enc struct {
	e *json.Encoder
	w *bufio.Writer
}

func (c c19enc) Encode(v any) {
	c.w.WriteString("\n")
	c.e.Encode(v)
	c.w.Flush()
}

func TestVerifC19Chat(t *testing.T) {
	if os.Getenv("VERIF_C19_CHAT") == "" {
		t.Skip("driven by the C19 check only")
	}
	gin.SetMode(gin.TestMode)

	mock := mockRunner{
		CompletionResponse: llm.CompletionResponse{Done: true, DoneReason: llm.DoneReasonStop, PromptEvalCount: 1, PromptEvalDuration: 1, EvalCount: 1, EvalDuration: 1},
	}
	s := Server{
		sched: &Scheduler{
			pendingReqCh:  make(chan *LlmRequest, 1),
			finishedReqCh: make(chan *LlmRequest, 1),
			expiredCh:     make(chan *runnerRef, 1),
			unloadedCh:    make(chan any, 1),
			loaded:        make(map[string]*runnerRef),
			newServerFn:   newMockServer(&mock),
			getGpuFn:      discover.GetGPUInfo,
			getCpuFn:      discover.GetCPUInfo,
			reschedDelay:  250 * time.Millisecond,
			loadFn: func(req *LlmRequest, _ *ggml.GGML, _ discover.GpuInfoList, _ int) {
				req.successCh <- &runnerRef{llama: &mock}
			},
		},
	}
	go s.sched.Run(context.TODO())

	_, digest := createBinFile(t, ggml.KV{
		"general.architecture":          "llama",
		"llama.block_count":             uint32(1),
		"llama.context_length":          uint32(8192),
		"llama.embedding_length":        uint32(4096),
		"llama.attention.head_count":    uint32(32),
		"llama.attention.head_count_kv": uint32(8),
		"tokenizer.ggml.tokens":         []string{""},
		"tokenizer.ggml.scores":         []float32{0},
		"tokenizer.ggml.token_type":     []int32{0},
	}, []ggml.Tensor{
		{Name: "token_embd.weight", Shape: []uint64{1}, WriterTo: bytes.NewReader(make([]byte, 4))},
		{Name: "blk.0.attn_norm.weight", Shape: []uint64{1}, WriterTo: bytes.NewReader(make([]byte, 4))},
		{Name: "blk.0.ffn_down.weight", Shape: []uint64{1}, WriterTo: bytes.NewReader(make([]byte, 4))},
		{Name: "blk.0.ffn_gate.weight", Shape: []uint64{1}, WriterTo: bytes.NewReader(make([]byte, 4))},
		{Name: "blk.0.ffn_up.weight", Shape: []uint64{1}, WriterTo: bytes.NewReader(make([]byte, 4))},
		{Name: "blk.0.ffn_norm.weight", Shape: []uint64{1}, WriterTo: bytes.NewReader(make([]byte, 4))},
		{Name: "blk.0.attn_k.weight", Shape: []uint64{1}, WriterTo: bytes.NewReader(make([]byte, 4))},
		{Name: "blk.0.attn_output.weight", Shape: []uint64{1}, WriterTo: bytes.NewReader(make([]byte, 4))},
		{Name: "blk.0.attn_q.weight", Shape: []uint64{1}, WriterTo: bytes.NewReader(make([]byte, 4))},
		{Name: "blk.0.attn_v.weight", Shape: []uint64{1}, WriterTo: bytes.NewReader(make([]byte, 4))},
		{Name: "output.weight", Shape: []uint64{1}, WriterTo: bytes.NewReader(make([]byte, 4))},
	})

	sc := bufio.NewScanner(os.Stdin)
	sc.Buffer(make([]byte, 1<<20), 1<<28)
	w := bufio.NewWriterSize(os.Stdout, 1<<20)
	defer w.Flush()
	enc := c19enc{json.NewEncoder(w), w}
	idx := 0
	for sc.Scan() {
		if len(sc.Bytes()) == 0 {
			continue
		}
		var c map[string]any
		if err := json.Unmarshal(sc.Bytes(), &c); err != nil {
			enc.Encode(map[string]any{"harness_error": err.Error()})
			continue
		}
		idx++
		name := fmt.Sprintf("c19-%d", idx)
		tmplText := c19unhex(c["tmpl"])
		system := c19unhex(c["system"])
		modelMsgs := c19msgs(c["model_msgs"])
		reqMsgs := c19msgs(c["msgs"])
		numCtx := int(c["num_ctx"].(float64))

		rec := createRequest(t, s.CreateHandler, api.CreateRequest{
			Model: name, Files: map[string]string{"file.gguf": digest}, Template: tmplText, System: system, Messages: modelMsgs, Stream: &stream,
		})
		if rec.Code != http.StatusOK {
			enc.Encode(map[string]any{"harness_error": fmt.Sprintf("create: %d %s", rec.Code, rec.Body.String())})
			continue
		}

		// the conversation as the user sees it: model messages, then the request's; the model's system prompt first
		// unless the request starts with a system message of its own
		// (api.Message.UnmarshalJSON lower-cases the role of every message that arrives over HTTP)
		conv := append(append([]api.Message{}, modelMsgs...), reqMsgs...)
		for i := range conv {
			conv[i].Role = strings.ToLower(conv[i].Role)
		}
		if len(reqMsgs) > 0 && strings.ToLower(reqMsgs[0].Role) != "system" && system != "" {
			conv = append([]api.Message{{Role: "system", Content: system}}, conv...)
		}
		res := map[string]any{}
		tmpl, err := template.Parse(tmplText)
		if err != nil {
			enc.Encode(map[string]any{"harness_error": "template: " + err.Error()})
			continue
		}
		cand := []int{}
		candPrompt := []string{}
		execErr := ""
		for k := range conv {
			var l []api.Message
			for _, x := range conv[:k] {
				if x.Role == "system" {
					l = append(l, x)
				}
			}
			l = append(l, conv[k:]...)
			var b bytes.Buffer
			if err := tmpl.Execute(&b, template.Values{Messages: l}); err != nil {
				execErr = err.Error()
				break
			}
			toks, _ := mockRunner{}.Tokenize(context.Background(), b.String())
			cand = append(cand, len(toks))
			candPrompt = append(candPrompt, hex.EncodeToString(b.Bytes()))
		}
		if execErr != "" {
			enc.Encode(map[string]any{"harness_error": "execute: " + execErr})
			continue
		}
		res["cand"] = cand
		res["cand_prompt"] = candPrompt
		convOut := []map[string]any{}
		for _, m := range conv {
			imgs := []string{}
			for _, i := range m.Images {
				imgs = append(imgs, hex.EncodeToString(i))
			}
			convOut = append(convOut, map[string]any{"role": hex.EncodeToString([]byte(m.Role)), "content": hex.EncodeToString([]byte(m.Content)), "images": imgs})
		}
		res["conv"] = convOut

		mock.CompletionRequest = llm.CompletionRequest{Prompt: "\x00unset"}
		rec = createRequest(t, s.ChatHandler, api.ChatRequest{
			Model: name, Messages: reqMsgs, Options: map[string]any{"num_ctx": numCtx}, Stream: &stream,
		})
		res["status"] = rec.Code
		if rec.Code != http.StatusOK || mock.CompletionRequest.Prompt == "\x00unset" {
			res["outcome"] = 3
			res["err"] = rec.Body.String()
			enc.Encode(res)
			continue
		}
		res["outcome"] = 0
		res["err"] = ""
		res["prompt"] = hex.EncodeToString([]byte(mock.CompletionRequest.Prompt))
		imgs := []map[string]any{}
		for _, i := range mock.CompletionRequest.Images {
			imgs = append(imgs, map[string]any{"id": i.ID, "data": hex.EncodeToString(i.Data)})
		}
		res["images"] = imgs
		if mock.CompletionRequest.Options != nil {
			res["num_ctx_used"] = mock.CompletionRequest.Options.NumCtx
		}
		enc.Encode(res)
	}
}
