//go:build verif

package server

// C19, end to end: POST /api/chat through the real ChatHandler (model created by the real CreateHandler with the given
// template, system prompt and model messages; scheduler and runner are the mocks of routes_generate_test.go), observing
// the prompt and the images that reach the runner's Completion.  Cases on stdin, observations on stdout (JSON lines):
//
// case:  {"tmpl": hex, "system": hex, "model_msgs": [...], "msgs": [{"role","content","images":[hex]}], "num_ctx": n}
// reply: {"status": http status, "outcome": 0 prompt reached the runner | 3 no prompt, "err": body on failure,
//         "prompt": hex, "images": [{"id","data"}], "conv": the conversation the handler is expected to hand to chatPrompt,
//         "cand"/"cand_prompt": as in harness/cmd/c19 (template + mockRunner.Tokenize on every candidate suffix)}

import (
	"bufio"
	"bytes"
	"context"
	"encoding/hex"
	"encoding/json"
	"fmt"
	"io"
	"net/http"
	"net/http/httptest"
	"os"
	"strings"
	"sync"
	"testing"
	"time"

	"github.com/gin-gonic/gin"

	"github.com/ollama/ollama/api"
	"github.com/ollama/ollama/discover"
	"github.com/ollama/ollama/fs/ggml"
	"github.com/ollama/ollama/llm"
	"github.com/ollama/ollama/template"
)

func c19unhex(v any) string {
	s, _ := v.(string)
	b, err := hex.DecodeString(s)
	if err != nil {
		panic("bad hex " + s)
	}
	return string(b)
}

func c19msgs(v any) []api.Message {
	l, _ := v.([]any)
	out := make([]api.Message, 0, len(l))
	for _, x := range l {
		m := x.(map[string]any)
		msg := api.Message{Role: c19unhex(m["role"]), Content: c19unhex(m["content"])}
		if n, ok := m["tool_calls"].(float64); ok {
			for j := 0; j < int(n); j++ {
				msg.ToolCalls = append(msg.ToolCalls, api.ToolCall{Function: api.ToolCallFunction{
					Name: fmt.Sprintf("fn%d", j), Arguments: api.ToolCallFunctionArguments{"arg": j}}})
			}
		}
		if imgs, ok := m["images"].([]any); ok {
			for _, i := range imgs {
				msg.Images = append(msg.Images, api.ImageData(c19unhex(i)))
			}
		}
		out = append(out, msg)
	}
	return out
}

// one observation per line, flushed at once so that what the handlers print to stdout cannot cut a line in two
type c19enc struct {
	e *json.Encoder
	w *bufio.Writer
}

func (c c19enc) Encode(v any) {
	c.w.WriteString("\n")
	c.e.Encode(v)
	c.w.Flush()
}

// the runner of the chat requests: mockRunner of routes_generate_test.go with every Completion request recorded and a
// Tokenize that can park one request (the first whose rendered candidate contains parkMarker) until it is released
type c19Runner struct {
	mockRunner
	mu         sync.Mutex
	captured   []llm.CompletionRequest
	parkMarker string
	parked     bool
	parkedCh   chan struct{}
	resumeCh   chan struct{}
}

func (r *c19Runner) Tokenize(ctx context.Context, s string) ([]int, error) {
	r.mu.Lock()
	park := r.parkMarker != "" && !r.parked && strings.Contains(s, r.parkMarker)
	if park {
		r.parked = true
	}
	r.mu.Unlock()
	if park {
		close(r.parkedCh)
		<-r.resumeCh
	}
	return r.mockRunner.Tokenize(ctx, s)
}

func (r *c19Runner) ncaptured() int {
	r.mu.Lock()
	defer r.mu.Unlock()
	return len(r.captured)
}

func c19post(fn func(*gin.Context), body any) *httptest.ResponseRecorder {
	w := NewRecorder()
	c, _ := gin.CreateTestContext(w)
	var b bytes.Buffer
	json.NewEncoder(&b).Encode(body)
	c.Request = &http.Request{Body: io.NopCloser(&b)}
	fn(c)
	return w.ResponseRecorder
}

// the conversation as the user sees it: model messages, then the request's; the model's system prompt first unless the
// request starts with a system message of its own (api.Message.UnmarshalJSON lower-cases the role of every message
// that arrives over HTTP); with the real template's rendering and token count of every candidate suffix
func c19expect(tmpl *template.Template, system string, modelMsgs, reqMsgs []api.Message) (map[string]any, string) {
	conv := append(append([]api.Message{}, modelMsgs...), reqMsgs...)
	for i := range conv {
		conv[i].Role = strings.ToLower(conv[i].Role)
	}
	if len(reqMsgs) > 0 && strings.ToLower(reqMsgs[0].Role) != "system" && system != "" {
		conv = append([]api.Message{{Role: "system", Content: system}}, conv...)
	}
	res := map[string]any{}
	cand := []int{}
	candPrompt := []string{}
	for k := range conv {
		var l []api.Message
		for _, x := range conv[:k] {
			if x.Role == "system" {
				l = append(l, x)
			}
		}
		l = append(l, conv[k:]...)
		var b bytes.Buffer
		if err := tmpl.Execute(&b, template.Values{Messages: l}); err != nil {
			return nil, err.Error()
		}
		toks, _ := mockRunner{}.Tokenize(context.Background(), b.String())
		cand = append(cand, len(toks))
		candPrompt = append(candPrompt, hex.EncodeToString(b.Bytes()))
	}
	res["cand"] = cand
	res["cand_prompt"] = candPrompt
	convOut := []map[string]any{}
	for _, m := range conv {
		imgs := []string{}
		for _, i := range m.Images {
			imgs = append(imgs, hex.EncodeToString(i))
		}
		convOut = append(convOut, map[string]any{"role": hex.EncodeToString([]byte(m.Role)), "content": hex.EncodeToString([]byte(m.Content)), "images": imgs})
	}
	res["conv"] = convOut
	return res, ""
}

func c19observe(res map[string]any, code int, body string, got *llm.CompletionRequest) {
	res["status"] = code
	if code != http.StatusOK || got == nil {
		res["outcome"] = 3
		res["err"] = body
		return
	}
	res["outcome"] = 0
	res["err"] = ""
	res["prompt"] = hex.EncodeToString([]byte(got.Prompt))
	imgs := []map[string]any{}
	for _, i := range got.Images {
		imgs = append(imgs, map[string]any{"id": i.ID, "data": hex.EncodeToString(i.Data)})
	}
	res["images"] = imgs
	if got.Options != nil {
		res["num_ctx_used"] = got.Options.NumCtx
	}
}

func TestVerifC19Chat(t *testing.T) {
	if os.Getenv("VERIF_C19_CHAT") == "" {
		t.Skip("driven by the C19 check only")
	}
	gin.SetMode(gin.TestMode)

	mock := &c19Runner{}
	mock.CompletionResponse = llm.CompletionResponse{Done: true, DoneReason: llm.DoneReasonStop, PromptEvalCount: 1, PromptEvalDuration: 1, EvalCount: 1, EvalDuration: 1}
	mock.CompletionFn = func(_ context.Context, r llm.CompletionRequest, fn func(llm.CompletionResponse)) error {
		mock.mu.Lock()
		mock.captured = append(mock.captured, r)
		mock.mu.Unlock()
		fn(mock.CompletionResponse)
		return nil
	}
	s := Server{
		sched: &Scheduler{
			pendingReqCh:  make(chan *LlmRequest, 1),
			finishedReqCh: make(chan *LlmRequest, 1),
			expiredCh:     make(chan *runnerRef, 1),
			unloadedCh:    make(chan any, 1),
			loaded:        make(map[string]*runnerRef),
			newServerFn:   func(_ discover.GpuInfoList, _ string, _ *ggml.GGML, _, _ []string, _ api.Options, _ int) (llm.LlamaServer, error) { return mock, nil },
			getGpuFn:      discover.GetGPUInfo,
			getCpuFn:      discover.GetCPUInfo,
			reschedDelay:  250 * time.Millisecond,
			loadFn: func(req *LlmRequest, _ *ggml.GGML, _ discover.GpuInfoList, _ int) {
				req.successCh <- &runnerRef{llama: mock}
			},
		},
	}
	go s.sched.Run(context.TODO())

	_, digest := createBinFile(t, ggml.KV{
		"general.architecture":          "llama",
		"llama.block_count":             uint32(1),
		"llama.context_length":          uint32(8192),
		"llama.embedding_length":        uint32(4096),
		"llama.attention.head_count":    uint32(32),
		"llama.attention.head_count_kv": uint32(8),
		"tokenizer.ggml.tokens":         []string{""},
		"tokenizer.ggml.scores":         []float32{0},
		"tokenizer.ggml.token_type":     []int32{0},
	}, []ggml.Tensor{
		{Name: "token_embd.weight", Shape: []uint64{1}, WriterTo: bytes.NewReader(make([]byte, 4))},
		{Name: "blk.0.attn_norm.weight", Shape: []uint64{1}, WriterTo: bytes.NewReader(make([]byte, 4))},
		{Name: "blk.0.ffn_down.weight", Shape: []uint64{1}, WriterTo: bytes.NewReader(make([]byte, 4))},
		{Name: "blk.0.ffn_gate.weight", Shape: []uint64{1}, WriterTo: bytes.NewReader(make([]byte, 4))},
		{Name: "blk.0.ffn_up.weight", Shape: []uint64{1}, WriterTo: bytes.NewReader(make([]byte, 4))},
		{Name: "blk.0.ffn_norm.weight", Shape: []uint64{1}, WriterTo: bytes.NewReader(make([]byte, 4))},
		{Name: "blk.0.attn_k.weight", Shape: []uint64{1}, WriterTo: bytes.NewReader(make([]byte, 4))},
		{Name: "blk.0.attn_output.weight", Shape: []uint64{1}, WriterTo: bytes.NewReader(make([]byte, 4))},
		{Name: "blk.0.attn_q.weight", Shape: []uint64{1}, WriterTo: bytes.NewReader(make([]byte, 4))},
		{Name: "blk.0.attn_v.weight", Shape: []uint64{1}, WriterTo: bytes.NewReader(make([]byte, 4))},
		{Name: "output.weight", Shape: []uint64{1}, WriterTo: bytes.NewReader(make([]byte, 4))},
	})

	sc := bufio.NewScanner(os.Stdin)
	sc.Buffer(make([]byte, 1<<20), 1<<28)
	w := bufio.NewWriterSize(os.Stdout, 1<<20)
	defer w.Flush()
	enc := c19enc{json.NewEncoder(w), w}
	idx := 0
	for sc.Scan() {
		if len(sc.Bytes()) == 0 {
			continue
		}
		var c map[string]any
		if err := json.Unmarshal(sc.Bytes(), &c); err != nil {
			enc.Encode(map[string]any{"harness_error": err.Error()})
			continue
		}
		idx++
		name := fmt.Sprintf("c19-%d", idx)
		tmplText := c19unhex(c["tmpl"])
		system := c19unhex(c["system"])
		modelMsgs := c19msgs(c["model_msgs"])

		rec := createRequest(t, s.CreateHandler, api.CreateRequest{
			Model: name, Files: map[string]string{"file.gguf": digest}, Template: tmplText, System: system, Messages: modelMsgs, Stream: &stream,
		})
		if rec.Code != http.StatusOK {
			enc.Encode(map[string]any{"harness_error": fmt.Sprintf("create: %d %s", rec.Code, rec.Body.String())})
			continue
		}
		tmpl, err := template.Parse(tmplText)
		if err != nil {
			enc.Encode(map[string]any{"harness_error": "template: " + err.Error()})
			continue
		}

		// one request (flat reply) or several requests to the same model: in order, or with the first one parked inside
		// the runner's Tokenize while the others are served completely ("overlap")
		type rq struct {
			msgs   []api.Message
			numCtx int
		}
		var reqs []rq
		multi := false
		if l, ok := c["reqs"].([]any); ok {
			multi = true
			for _, x := range l {
				m := x.(map[string]any)
				reqs = append(reqs, rq{c19msgs(m["msgs"]), int(m["num_ctx"].(float64))})
			}
		} else {
			reqs = []rq{{c19msgs(c["msgs"]), int(c["num_ctx"].(float64))}}
		}
		overlap, _ := c["overlap"].(bool)
		out := make([]map[string]any, len(reqs))
		bad := ""
		for i, r := range reqs {
			res, e := c19expect(tmpl, system, modelMsgs, r.msgs)
			if e != "" {
				bad = "execute: " + e
				break
			}
			out[i] = res
		}
		if bad != "" {
			enc.Encode(map[string]any{"harness_error": bad})
			continue
		}
		serve := func(i int) {
			before := mock.ncaptured()
			rec := c19post(s.ChatHandler, api.ChatRequest{Model: name, Messages: reqs[i].msgs, Options: map[string]any{"num_ctx": reqs[i].numCtx}, Stream: &stream})
			var got *llm.CompletionRequest
			mock.mu.Lock()
			if len(mock.captured) == before+1 {
				g := mock.captured[before]
				got = &g
			}
			mock.mu.Unlock()
			c19observe(out[i], rec.Code, rec.Body.String(), got)
		}
		parked := false
		if overlap && len(reqs) > 1 {
			mock.mu.Lock()
			mock.parkMarker, mock.parked = c19unhex(c["park"]), false
			mock.parkedCh, mock.resumeCh = make(chan struct{}), make(chan struct{})
			mock.mu.Unlock()
			done := make(chan struct{})
			beforeA := mock.ncaptured()
			var recA *httptest.ResponseRecorder
			go func() {
				defer close(done)
				recA = c19post(s.ChatHandler, api.ChatRequest{Model: name, Messages: reqs[0].msgs, Options: map[string]any{"num_ctx": reqs[0].numCtx}, Stream: &stream})
			}()
			select {
			case <-mock.parkedCh:
				parked = true
			case <-done:
			case <-time.After(20 * time.Second):
			}
			mock.mu.Lock()
			mock.parkMarker = "" // nobody else parks
			mock.mu.Unlock()
			for i := 1; i < len(reqs); i++ {
				serve(i)
			}
			before := mock.ncaptured()
			if parked {
				close(mock.resumeCh)
			}
			<-done
			var got *llm.CompletionRequest
			mock.mu.Lock()
			if parked && len(mock.captured) == before+1 {
				g := mock.captured[before]
				got = &g
			} else if !parked && len(mock.captured) > beforeA && recA.Code == http.StatusOK {
				// it ran to completion before the others: its request is the first one recorded for this case
				g := mock.captured[beforeA]
				got = &g
			}
			mock.mu.Unlock()
			c19observe(out[0], recA.Code, recA.Body.String(), got)
		} else {
			for i := range reqs {
				serve(i)
			}
		}
		if multi {
			enc.Encode(map[string]any{"multi": out, "parked": parked})
		} else {
			enc.Encode(out[0])
		}
	}
}
