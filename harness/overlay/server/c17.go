//go:build verif

package server

import (
	"context"
	"io"
	"net/http"
	"time"

	"github.com/gin-gonic/gin"

	"github.com/ollama/ollama/api"
	"github.com/ollama/ollama/discover"
	"github.com/ollama/ollama/fs/ggml"
	"github.com/ollama/ollama/llm"
)

// VerifC17Handler returns the REAL gin router of the server (Server.GenerateRoutes: /api/generate, /api/chat,
// /v1/chat/completions, /v1/completions with the real openai middlewares) over a real Scheduler whose load
// function hands out the given runner (the pattern of server/routes_generate_test.go).  Nothing of the
// handlers, the scheduler loop, the middlewares or the writers is replaced; only the llm.LlamaServer is a mock.
func VerifC17Handler(llama llm.LlamaServer) (http.Handler, context.CancelFunc, error) {
	gin.SetMode(gin.ReleaseMode)
	gin.DefaultWriter = io.Discard
	gin.DefaultErrorWriter = io.Discard
	cpu := func() discover.GpuInfoList {
		return discover.GpuInfoList{{Library: "cpu"}}
	}
	s := &Server{
		sched: &Scheduler{
			pendingReqCh:  make(chan *LlmRequest, 16),
			finishedReqCh: make(chan *LlmRequest, 16),
			expiredCh:     make(chan *runnerRef, 16),
			unloadedCh:    make(chan any, 16),
			loaded:        make(map[string]*runnerRef),
			newServerFn: func(discover.GpuInfoList, string, *ggml.GGML, []string, []string, api.Options, int) (llm.LlamaServer, error) {
				return llama, nil
			},
			getGpuFn:     cpu,
			getCpuFn:     cpu,
			reschedDelay: 250 * time.Millisecond,
			loadFn: func(req *LlmRequest, _ *ggml.GGML, _ discover.GpuInfoList, _ int) {
				req.successCh <- &runnerRef{llama: llama}
			},
		},
	}
	ctx, cancel := context.WithCancel(context.Background())
	s.sched.Run(ctx)
	h, err := s.GenerateRoutes(nil)
	return h, cancel, err
}

// VerifC17ParseToolCalls runs the real (*Model).parseToolCalls of the stored model `name` on s.
func VerifC17ParseToolCalls(name, s string) ([]api.ToolCall, bool, error) {
	m, err := GetModel(name)
	if err != nil {
		return nil, false, err
	}
	tc, ok := m.parseToolCalls(s)
	return tc, ok, nil
}
