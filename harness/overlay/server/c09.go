//go:build verif

package server

import (
	"bytes"
	"context"
	"fmt"
	"io"
	"log/slog"
	"net/http"
	"net/http/httptest"
	"strings"
	"sync"

	"github.com/ollama/ollama/server/internal/client/ollama"
	"github.com/ollama/ollama/server/internal/registry"
)

// verifSafeRecorder is a goroutine-safe http.ResponseWriter: handlePull writes progress lines from the goroutine
// that runs Pull (through the trace callback) while the handler goroutine writes its own status lines, which
// httptest.ResponseRecorder does not survive ("concurrent map writes").
type verifSafeRecorder struct {
	mu     sync.Mutex
	hdr    http.Header
	status int
	body   bytes.Buffer
}

func (r *verifSafeRecorder) Header() http.Header {
	r.mu.Lock()
	defer r.mu.Unlock()
	return r.hdr.Clone()
}

func (r *verifSafeRecorder) WriteHeader(s int) {
	r.mu.Lock()
	defer r.mu.Unlock()
	if r.status == 0 {
		r.status = s
	}
}

func (r *verifSafeRecorder) Write(p []byte) (int, error) {
	r.mu.Lock()
	defer r.mu.Unlock()
	if r.status == 0 {
		r.status = 200
	}
	return r.body.Write(p)
}

func (r *verifSafeRecorder) Flush() {}

// Bridge of the C09 harness: the drivers live inside internal packages (add-only overlay files); package server can
// import them and is importable from the external harness module.
func init() {
	// one "POST /api/pull" through the real registry.Local handler (the retry loop of handlePull)
	ollama.VerifHandler = func(ctx context.Context, rc *ollama.Registry, name string, stream bool) (int, string) {
		s := &registry.Local{Client: rc, Logger: slog.New(slog.NewTextHandler(io.Discard, nil))}
		req := httptest.NewRequest("POST", "/api/pull", strings.NewReader(fmt.Sprintf(`{"model":%q,"stream":%v}`, name, stream))).WithContext(ctx)
		rec := &verifSafeRecorder{hdr: http.Header{}}
		s.ServeHTTP(rec, req)
		rec.mu.Lock()
		defer rec.mu.Unlock()
		st := rec.status
		if st == 0 {
			st = 200
		}
		return st, rec.body.String()
	}
}

// VerifC09 runs one C09 case against the real registry client.
func VerifC09(c map[string]any) any {
	if c["kind"] == "push-legacy" {
		return VerifC09Legacy(c)
	}
	if c["kind"] == "push-legacy-conc" {
		return VerifC09LegacyConc(c)
	}
	return ollama.VerifC09(c)
}
