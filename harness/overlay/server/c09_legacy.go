//go:build verif

package server

import (
	"context"
	"crypto/ed25519"
	"crypto/rand"
	"crypto/sha256"
	"encoding/pem"
	"encoding/hex"
	"encoding/json"
	"fmt"
	"io"
	"net/http"
	"net/http/httptest"
	"os"
	"path/filepath"
	"strings"
	"sync"

	"golang.org/x/crypto/ssh"

	"github.com/ollama/ollama/api"
)

// VerifC09Legacy runs the REAL server.PushModel (and uploadBlob / blobUpload of server/upload.go) on a scripted
// registry (httptest server; the legacy client builds its own http.Client).
//
// case {"kind":"push-legacy","layers":[hex...],"config":hex|null,
//       "head":{layerhex:status},"post":{layerhex:status},"manifest":status,
//       "patch_fail":{layerhex:n},"commit_fail":{layerhex:n}}
// "challenge":{"head:<layerhex>"|"post:<layerhex>"|"patch:<layerhex>"|"commit:<layerhex>"|"manifest": n}: the first n requests of
// that kind are answered 401 with a bearer challenge (WWW-Authenticate: Bearer realm="<this server>/token",...);
// "token": status of the token endpoint (200 = hands out a token).  The client signs the token request with the ed25519
// key under $HOME/.ollama/id_ed25519, which the driver generates in a temporary HOME.
// patch_fail / commit_fail: the first n PATCH requests (part upload) / commit PUTs (finalising the upload) of that layer are
// answered 500.  The legacy client retries these with real sleeps of 1, 2, 4, ... s (maxRetries = 6, so n >= 6 means
// "never accepted", 63 s): such cases are run by props/c09.py in a process of their own, in parallel with the rest.
func VerifC09Legacy(c map[string]any) any {
	dir, err := os.MkdirTemp("", "c09l-")
	if err != nil {
		return map[string]any{"harness_error": err.Error()}
	}
	defer os.RemoveAll(dir)
	old := os.Getenv("OLLAMA_MODELS")
	os.Setenv("OLLAMA_MODELS", dir)
	defer os.Setenv("OLLAMA_MODELS", old)

	challenge, _ := c["challenge"].(map[string]any)
	tokenStatus := 200
	if v, ok := c["token"].(float64); ok {
		tokenStatus = int(v)
	}
	challenged := map[string]int{}
	if len(challenge) > 0 {
		home := filepath.Join(dir, "home")
		_, priv, _ := ed25519.GenerateKey(rand.Reader)
		pb, err := ssh.MarshalPrivateKey(priv, "")
		if err != nil {
			return map[string]any{"harness_error": err.Error()}
		}
		os.MkdirAll(filepath.Join(home, ".ollama"), 0o755)
		os.WriteFile(filepath.Join(home, ".ollama", "id_ed25519"), pem.EncodeToMemory(pb), 0o600)
		oldHome := os.Getenv("HOME")
		os.Setenv("HOME", home)
		defer os.Setenv("HOME", oldHome)
	}
	head, _ := c["head"].(map[string]any)
	post, _ := c["post"].(map[string]any)
	patchFail, _ := c["patch_fail"].(map[string]any)
	commitFail, _ := c["commit_fail"].(map[string]any)
	patches := map[string]int{}
	commits := map[string]int{}
	manStatus := 200
	if v, ok := c["manifest"].(float64); ok {
		manStatus = int(v)
	}
	status := func(m map[string]any, k string, def int) int {
		if v, ok := m[k].(float64); ok {
			return int(v)
		}
		return def
	}
	var mu sync.Mutex
	var log []string
	var srv *httptest.Server
	srv = httptest.NewServer(http.HandlerFunc(func(w http.ResponseWriter, r *http.Request) {
		io.Copy(io.Discard, r.Body)
		p := r.URL.Path
		mu.Lock()
		defer mu.Unlock()
		// token endpoint and bearer challenges
		if r.Method == "GET" && p == "/token" {
			log = append(log, fmt.Sprintf("token %d signed=%v", tokenStatus, r.Header.Get("Authorization") != ""))
			if tokenStatus != 200 {
				w.WriteHeader(tokenStatus)
				return
			}
			fmt.Fprintf(w, `{"token":"tok-%d"}`, len(log))
			return
		}
		ckey := ""
		switch {
		case r.Method == "HEAD" && strings.Contains(p, "/blobs/sha256:"):
			ckey = "head:" + p[strings.LastIndex(p, ":")+1:]
		case r.Method == "POST" && strings.HasSuffix(p, "/blobs/uploads/"):
			for i := len(log) - 1; i >= 0; i-- {
				if strings.HasPrefix(log[i], "head ") {
					ckey = "post:" + strings.Fields(log[i])[1]
					break
				}
			}
		case r.Method == "PATCH" && strings.HasPrefix(p, "/v2/up/"):
			ckey = "patch:" + strings.TrimPrefix(p, "/v2/up/")
		case r.Method == "PUT" && strings.HasPrefix(p, "/v2/up/"):
			ckey = "commit:" + strings.TrimPrefix(p, "/v2/up/")
		case r.Method == "PUT" && strings.Contains(p, "/manifests/"):
			ckey = "manifest"
		}
		if ckey != "" && challenged[ckey] < status(challenge, ckey, 0) {
			challenged[ckey]++
			log = append(log, "challenge "+ckey)
			w.Header().Set("WWW-Authenticate", fmt.Sprintf(`Bearer realm="%s/token",service="verif",scope="repository:ns/model:push"`, srv.URL))
			w.WriteHeader(401)
			return
		}
		switch {
		case r.Method == "HEAD" && strings.Contains(p, "/blobs/sha256:"):
			lh := p[strings.LastIndex(p, ":")+1:]
			st := status(head, lh, 404)
			log = append(log, fmt.Sprintf("head %s %d", lh, st))
			w.WriteHeader(st)
		case r.Method == "POST" && strings.HasSuffix(p, "/blobs/uploads/"):
			// the digest is not part of the request; uploads are sequential, so it is the layer whose HEAD came last
			lh := ""
			for i := len(log) - 1; i >= 0; i-- {
				if strings.HasPrefix(log[i], "head ") {
					lh = strings.Fields(log[i])[1]
					break
				}
			}
			st := status(post, lh, 202)
			log = append(log, fmt.Sprintf("post %s %d", lh, st))
			if st/100 == 2 {
				w.Header().Set("Location", srv.URL+"/v2/up/"+lh)
			}
			w.WriteHeader(st)
		case r.Method == "PATCH" && strings.HasPrefix(p, "/v2/up/"):
			lh := strings.TrimPrefix(p, "/v2/up/")
			patches[lh]++
			if patches[lh] <= status(patchFail, lh, 0) {
				log = append(log, "patch "+lh+" 500")
				w.WriteHeader(500)
				return
			}
			log = append(log, "patch "+lh+" 202")
			w.Header().Set("Location", srv.URL+"/v2/up/"+lh)
			w.WriteHeader(202)
		case r.Method == "PUT" && strings.HasPrefix(p, "/v2/up/"):
			lh := strings.TrimPrefix(p, "/v2/up/")
			commits[lh]++
			if commits[lh] <= status(commitFail, lh, 0) {
				log = append(log, "commit "+lh+" 500")
				w.WriteHeader(500)
				return
			}
			log = append(log, "commit "+lh+" 201")
			w.WriteHeader(201)
		case r.Method == "PUT" && strings.Contains(p, "/manifests/"):
			log = append(log, fmt.Sprintf("manifest-put %d", manStatus))
			w.WriteHeader(manStatus)
		default:
			log = append(log, "other "+r.Method+" "+p)
			w.WriteHeader(404)
		}
	}))
	defer srv.Close()

	host := strings.TrimPrefix(srv.URL, "http://")
	os.MkdirAll(filepath.Join(dir, "blobs"), 0o755)
	mkLayer := func(v any) map[string]any {
		s, _ := v.(string)
		data, _ := hex.DecodeString(s)
		sum := sha256.Sum256(data)
		os.WriteFile(filepath.Join(dir, "blobs", fmt.Sprintf("sha256-%x", sum)), data, 0o644)
		return map[string]any{"mediaType": "application/vnd.ollama.image.model", "digest": fmt.Sprintf("sha256:%x", sum), "size": len(data)}
	}
	var layers []any
	ll, _ := c["layers"].([]any)
	for _, x := range ll {
		layers = append(layers, mkLayer(x))
	}
	man := map[string]any{"schemaVersion": 2, "mediaType": "application/vnd.docker.distribution.manifest.v2+json", "layers": layers}
	if cfg, ok := c["config"].(string); ok {
		m := mkLayer(cfg)
		m["mediaType"] = "application/vnd.docker.container.image.v1+json"
		man["config"] = m
	}
	mb, _ := json.Marshal(man)
	mdir := filepath.Join(dir, "manifests", host, "ns", "model")
	os.MkdirAll(mdir, 0o755)
	os.WriteFile(filepath.Join(mdir, "tag"), mb, 0o644)

	name := "http://" + host + "/ns/model:tag"
	var perr error
	func() {
		defer func() {
			if r := recover(); r != nil {
				perr = fmt.Errorf("PANIC: %v", r)
			}
		}()
		perr = PushModel(context.Background(), name, &registryOptions{Insecure: true}, func(api.ProgressResponse) {})
	}()
	mu.Lock()
	defer mu.Unlock()
	o := map[string]any{"log": append([]string(nil), log...), "err": ""}
	if perr != nil {
		o["err"] = perr.Error()
	}
	return o
}
