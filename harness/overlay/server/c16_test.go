//go:build verif

package server

// C16, scheduler path: the REAL Scheduler.filterGPUsWithoutLoadingModels, Scheduler.updateFreeSpace,
// pickBestFullFitByLibrary and pickBestPartialFitByLibrary are run on scheduler states built from the case (loaded
// runnerRefs with a mock llm.LlamaServer that reports EstimatedVRAMByGPU, GPU lists with foreign VRAM usage), then the
// real llm.EstimateGPULayers is called on the GPU list the scheduler would hand to NewLlamaServer.
// Cases on stdin (one JSON per line), one JSON observation per line on stdout.  Driven by /verif/props/c16.py.

import (
	"bufio"
	"bytes"
	"context"
	"encoding/json"
	"fmt"
	"io"
	"log/slog"
	"os"
	"path/filepath"
	"strconv"
	"testing"
	"time"

	"github.com/ollama/ollama/api"
	"github.com/ollama/ollama/discover"
	"github.com/ollama/ollama/fs/ggml"
	"github.com/ollama/ollama/llm"
)

type c16Llm struct {
	vram map[string]uint64
}

func (s *c16Llm) Ping(ctx context.Context) error             { return nil }
func (s *c16Llm) WaitUntilRunning(ctx context.Context) error { return nil }
func (s *c16Llm) Completion(ctx context.Context, req llm.CompletionRequest, fn func(llm.CompletionResponse)) error {
	return nil
}
func (s *c16Llm) Embedding(ctx context.Context, input string) ([]float32, error) { return nil, nil }
func (s *c16Llm) Tokenize(ctx context.Context, content string) ([]int, error)    { return nil, nil }
func (s *c16Llm) Detokenize(ctx context.Context, tokens []int) (string, error)   { return "", nil }
func (s *c16Llm) Close() error                                                   { return nil }
func (s *c16Llm) EstimatedVRAM() uint64 {
	var t uint64
	for _, v := range s.vram {
		t += v
	}
	return t
}
func (s *c16Llm) EstimatedTotal() uint64                 { return s.EstimatedVRAM() }
func (s *c16Llm) EstimatedVRAMByGPU(gpuID string) uint64 { return s.vram[gpuID] }

func c16u64(v any) uint64 {
	switch x := v.(type) {
	case string:
		n, err := strconv.ParseUint(x, 10, 64)
		if err != nil {
			panic("bad uint64 " + x)
		}
		return n
	case float64:
		return uint64(x)
	}
	return 0
}

func c16int(v any) int {
	f, _ := v.(float64)
	return int(f)
}

func c16s(n uint64) string { return strconv.FormatUint(n, 10) }

var c16dir string
var c16cache = map[string]string{}

func c16writeModel(spec map[string]any) string {
	keyb, _ := json.Marshal(spec)
	key := string(keyb)
	if p, ok := c16cache[key]; ok {
		return p
	}
	arch, _ := spec["arch"].(string)
	kv := ggml.KV{"general.architecture": arch}
	if m, ok := spec["kv_u32"].(map[string]any); ok {
		for k, v := range m {
			kv[arch+"."+k] = uint32(c16u64(v))
		}
	}
	if n, ok := spec["vocab"]; ok {
		toks := make([]string, c16int(n))
		for i := range toks {
			toks[i] = "t"
		}
		kv["tokenizer.ggml.tokens"] = toks
	}
	var ts []ggml.Tensor
	if l, ok := spec["tensors"].([]any); ok {
		for _, x := range l {
			t := x.(map[string]any)
			var shape []uint64
			for _, d := range t["shape"].([]any) {
				shape = append(shape, c16u64(d))
			}
			ts = append(ts, ggml.Tensor{Name: t["name"].(string), Kind: uint32(c16int(t["kind"])), Shape: shape, WriterTo: bytes.NewReader(nil)})
		}
	}
	p := filepath.Join(c16dir, fmt.Sprintf("m%d.gguf", len(c16cache)))
	f, err := os.Create(p)
	if err != nil {
		panic(err)
	}
	defer f.Close()
	if err := ggml.WriteGGUF(f, kv, ts); err != nil {
		panic("WriteGGUF: " + err.Error())
	}
	c16cache[key] = p
	return p
}

func c16gpus(v any) discover.GpuInfoList {
	l, _ := v.([]any)
	out := make(discover.GpuInfoList, 0, len(l))
	for _, x := range l {
		m := x.(map[string]any)
		var g discover.GpuInfo
		g.Library, _ = m["lib"].(string)
		g.Variant, _ = m["variant"].(string)
		g.ID, _ = m["id"].(string)
		g.FreeMemory = c16u64(m["free"])
		g.TotalMemory = c16u64(m["total"])
		g.MinimumMemory = c16u64(m["min"])
		out = append(out, g)
	}
	return out
}

func c16gpuOut(l discover.GpuInfoList) []map[string]any {
	out := make([]map[string]any, 0, len(l))
	for _, g := range l {
		out = append(out, map[string]any{"lib": g.Library, "variant": g.Variant, "id": g.ID, "free": c16s(g.FreeMemory), "total": c16s(g.TotalMemory), "min": c16s(g.MinimumMemory)})
	}
	return out
}

func c16optSize(layers map[string]ggml.Layer, name string) any {
	if l, ok := layers[name]; ok {
		return c16s(l.Size())
	}
	return nil
}

// the quantities the Coq model takes as inputs when NumCtx = ctx and numParallel = p, through the public API
func c16inputs(f *ggml.GGML, ctx, batch, p int, projIn [][]string) map[string]any {
	layers := f.Tensors().GroupLayers()
	bc := int(f.KV().BlockCount())
	ctxMM := max(ctx, 2048)
	kvP, gpP, gfP := f.GraphSize(uint64(ctx), uint64(min(ctx, batch)), p, "")
	kvM, gpM, gfM := f.GraphSize(uint64(ctxMM), uint64(min(ctxMM, batch)), p, "")
	blocks := make([][]any, bc)
	for i := range bc {
		blocks[i] = []any{c16optSize(layers, fmt.Sprintf("blk.%d", i)), c16s(kvP[i]), c16s(kvM[i])}
	}
	vw, vg := f.VisionGraphSize()
	return map[string]any{
		"bc": bc, "blk0": c16optSize(layers, "blk.0"), "blocks": blocks,
		"graph": []string{c16s(gpP), c16s(gfP)}, "graph_mm": []string{c16s(gpM), c16s(gfM)},
		"gqa": c16s(f.KV().GQA()), "out_norm": c16optSize(layers, "output_norm"), "out": c16optSize(layers, "output"),
		"tok": c16optSize(layers, "token_embd"), "vision": []string{c16s(vw), c16s(vg)}, "proj": projIn,
	}
}

func c16guard(f func() any) (res any) {
	defer func() {
		if r := recover(); r != nil {
			res = map[string]any{"panic": fmt.Sprint(r)}
		}
	}()
	return f()
}

func c16case(c map[string]any) any {
	path := c16writeModel(c["model"].(map[string]any))
	fh, err := os.Open(path)
	if err != nil {
		panic(err)
	}
	f, _, err := ggml.Decode(fh, 0)
	fh.Close()
	if err != nil {
		panic("Decode: " + err.Error())
	}
	var projectors []string
	projIn := [][]string{}
	if l, ok := c["projectors"].([]any); ok {
		for _, x := range l {
			ps := x.(map[string]any)
			p := filepath.Join(c16dir, "does-not-exist.gguf")
			if miss, _ := ps["missing"].(bool); !miss {
				p = c16writeModel(ps)
			}
			projectors = append(projectors, p)
			pw, pg := llm.VerifProjectorMemoryRequirements(p)
			projIn = append(projIn, []string{c16s(pw), c16s(pg)})
		}
	}
	opts := api.DefaultOptions()
	opts.NumGPU = c16int(c["num_gpu"])
	opts.NumCtx = c16int(c["num_ctx"])
	opts.NumBatch = c16int(c["num_batch"])
	orig := opts.NumCtx
	numParallel := c16int(c["num_parallel"])
	os.Setenv("OLLAMA_GPU_OVERHEAD", c16s(c16u64(c["overhead"])))
	if sp, _ := c["spread"].(bool); sp {
		os.Setenv("OLLAMA_SCHED_SPREAD", "1")
	} else {
		os.Unsetenv("OLLAMA_SCHED_SPREAD")
	}

	// model inputs for every parallel setting the scheduler may try
	ins := map[string]any{}
	ps := []int{1, defaultParallel}
	if numParallel > 0 {
		ps = append(ps, numParallel)
	}
	for _, p := range ps {
		ins[strconv.Itoa(p)] = c16inputs(f, orig*p, opts.NumBatch, p, projIn)
	}
	res := map[string]any{"in": ins, "default_parallel": defaultParallel}

	gpus := c16gpus(c["gpus"])
	s := &Scheduler{loaded: map[string]*runnerRef{}}
	var runnerList []*runnerRef
	if l, ok := c["runners"].([]any); ok {
		for i, x := range l {
			rm := x.(map[string]any)
			r := &runnerRef{modelPath: fmt.Sprintf("runner-%d", i)}
			r.loading, _ = rm["loading"].(bool)
			if ids, ok := rm["gpus"].([]any); ok {
				for _, id := range ids {
					r.gpus = append(r.gpus, discover.GpuInfo{ID: id.(string)})
				}
			}
			if has, _ := rm["llama"].(bool); has {
				m := &c16Llm{vram: map[string]uint64{}}
				if vm, ok := rm["vram"].(map[string]any); ok {
					for k, v := range vm {
						m.vram[k] = c16u64(v)
					}
				}
				r.llama = m
			}
			s.loaded[r.modelPath] = r
			runnerList = append(runnerList, r)
		}
	}
	req := &LlmRequest{ctx: context.Background(), model: &Model{ModelPath: path, ProjectorPaths: projectors}, opts: opts, origNumCtx: orig}

	var chosen discover.GpuInfoList
	switch c["op"] {
	case "probe":
		// TotalSize on a cpu inventory for every parallel setting: lets the generator aim free system memory between them
		tot := map[string]string{}
		for _, p := range ps {
			o2 := opts
			o2.NumCtx = orig * p
			e := llm.EstimateGPULayers([]discover.GpuInfo{{Library: "cpu"}}, f, projectors, o2, p)
			tot[strconv.Itoa(p)] = c16s(e.TotalSize)
		}
		res["cpu_totals"] = tot
		return res
	case "loaded":
		// processPending, "More than one loaded model, so we have to see if the new one fits"
		avail := s.filterGPUsWithoutLoadingModels(gpus)
		res["filtered"] = c16gpuOut(avail)
		if h, ok := c["hold"].(float64); ok && int(h) < 0 {
			// ... or the scheduler's loadedMu
			held := make(chan struct{})
			go func() {
				s.loadedMu.Lock()
				close(held)
				time.Sleep(time.Duration(c16int(c["hold_ms"])) * time.Millisecond)
				s.loadedMu.Unlock()
			}()
			<-held
		} else if ok && int(h) < len(runnerList) {
			// another goroutine (processCompleted, the expiry timer callback, useLoadedRunner) holds this runner's refMu for a
			// moment while updateFreeSpace runs: updateFreeSpace has to wait for it, the answer must not depend on it
			r := runnerList[int(h)]
			held := make(chan struct{})
			go func() {
				r.refMu.Lock()
				close(held)
				time.Sleep(time.Duration(c16int(c["hold_ms"])) * time.Millisecond)
				r.refMu.Unlock()
			}()
			<-held
		}
		s.updateFreeSpace(avail)
		res["avail"] = c16gpuOut(avail)
		chosen = pickBestFullFitByLibrary(req, f, avail, &numParallel)
		res["full"] = chosen != nil
	case "first":
		// processPending, "No models loaded. Load the model but prefer the best fit."
		g := pickBestFullFitByLibrary(req, f, gpus, &numParallel)
		res["full"] = g != nil
		if g != nil {
			chosen = g
		} else {
			chosen = pickBestPartialFitByLibrary(req, f, gpus, &numParallel)
			if chosen == nil {
				chosen = discover.GpuInfoList{}
			}
		}
	case "cpu":
		return c16cpu(c, res, s, runnerList, req, f, gpus, projectors)
	default:
		return map[string]any{"harness_error": "unknown op"}
	}
	res["reported_unchanged"] = c16gpuOut(gpus)
	res["p"] = numParallel
	res["num_ctx"] = req.opts.NumCtx
	if chosen != nil {
		res["chosen"] = c16gpuOut(chosen)
		if len(chosen) > 0 {
			// what Scheduler.load -> llm.NewLlamaServer computes for the GPUs it is handed
			np := max(numParallel, 1)
			res["est"] = c16guard(func() any {
				e := llm.EstimateGPULayers(chosen, f, projectors, req.opts, np)
				sizes := make([]string, 0, len(e.GPUSizes))
				for _, x := range e.GPUSizes {
					sizes = append(sizes, c16s(x))
				}
				internals := map[string]string{}
				for k, v := range e.VerifInternals() {
					internals[k] = c16s(v)
				}
				return map[string]any{"layers": e.Layers, "graph": c16s(e.Graph), "vram": c16s(e.VRAMSize), "total": c16s(e.TotalSize),
					"split": e.TensorSplit, "sizes": sizes, "internals": internals}
			})
		}
	}
	return res
}

func c16estOut(e llm.MemoryEstimate) map[string]any {
	sizes := make([]string, 0, len(e.GPUSizes))
	for _, x := range e.GPUSizes {
		sizes = append(sizes, c16s(x))
	}
	internals := map[string]string{}
	for k, v := range e.VerifInternals() {
		internals[k] = c16s(v)
	}
	return map[string]any{"layers": e.Layers, "graph": c16s(e.Graph), "vram": c16s(e.VRAMSize), "total": c16s(e.TotalSize),
		"split": e.TensorSplit, "sizes": sizes, "internals": internals}
}

// c16cpu drives the REAL Scheduler.processPending through its CPU branch: the inventory functions report one "cpu" entry
// with scripted free system memory, other runners are loaded (idle), OLLAMA_NUM_PARALLEL is unset / set; loadFn is
// replaced by a recorder.  Observed: either the configuration handed to loadFn (opts.NumCtx, numParallel, gpus) or the
// runner that was sent to expire.
func c16cpu(c map[string]any, res map[string]any, s *Scheduler, runnerList []*runnerRef, req *LlmRequest, f *ggml.GGML,
	gpus discover.GpuInfoList, projectors []string) any {
	os.Unsetenv("OLLAMA_MAX_LOADED_MODELS")
	if np := c16int(c["num_parallel"]); np != 0 {
		os.Setenv("OLLAMA_NUM_PARALLEL", strconv.Itoa(np))
	} else {
		os.Unsetenv("OLLAMA_NUM_PARALLEL")
	}
	defer os.Unsetenv("OLLAMA_NUM_PARALLEL")
	defer os.Unsetenv("OLLAMA_MAX_LOADED_MODELS")
	s.pendingReqCh = make(chan *LlmRequest, 4)
	s.finishedReqCh = make(chan *LlmRequest, 4)
	s.expiredCh = make(chan *runnerRef, 4)
	s.unloadedCh = make(chan any, 4)
	s.reschedDelay = time.Millisecond
	inv := func() discover.GpuInfoList { return append(discover.GpuInfoList{}, gpus...) }
	s.getGpuFn, s.getCpuFn = inv, inv
	type loadRec struct {
		numCtx, numParallel int
		gpus                discover.GpuInfoList
		opts                api.Options
	}
	loadCh := make(chan loadRec, 1)
	s.loadFn = func(req *LlmRequest, f *ggml.GGML, gpus discover.GpuInfoList, numParallel int) {
		loadCh <- loadRec{req.opts.NumCtx, numParallel, append(discover.GpuInfoList{}, gpus...), req.opts}
	}
	for _, r := range runnerList {
		r.sessionDuration = time.Hour
	}
	ctx, cancel := context.WithCancel(context.Background())
	done := make(chan struct{})
	req.ctx = ctx
	req.origNumCtx = 0 // processPending records it from opts.NumCtx on the first attempt
	req.successCh = make(chan *runnerRef, 1)
	req.errCh = make(chan error, 1)
	go func() { s.processPending(ctx); close(done) }()
	s.pendingReqCh <- req
	select {
	case l := <-loadCh:
		res["action"] = "load"
		res["num_ctx"] = l.numCtx
		res["p"] = l.numParallel
		res["chosen"] = c16gpuOut(l.gpus)
		// what Scheduler.load -> llm.NewLlamaServer computes for exactly this configuration
		res["est"] = c16guard(func() any {
			return c16estOut(llm.EstimateGPULayers(l.gpus, f, projectors, l.opts, max(l.numParallel, 1)))
		})
	case r := <-s.expiredCh:
		res["action"] = "evict"
		res["evicted"] = r.modelPath
	case err := <-req.errCh:
		res["action"] = "error"
		res["error"] = err.Error()
	case <-time.After(10 * time.Second):
		res["action"] = "timeout"
	}
	cancel()
	<-done
	return res
}

func TestVerifC16Sched(t *testing.T) {
	if os.Getenv("VERIF_C16_SCHED") == "" {
		t.Skip("driven by /verif/props/c16.py")
	}
	slog.SetDefault(slog.New(slog.NewTextHandler(io.Discard, nil)))
	c16dir = t.TempDir()
	os.Unsetenv("OLLAMA_FLASH_ATTENTION")
	os.Unsetenv("OLLAMA_KV_CACHE_TYPE")
	sc := bufio.NewScanner(os.Stdin)
	sc.Buffer(make([]byte, 1<<20), 1<<30)
	w := bufio.NewWriter(os.Stdout)
	defer w.Flush()
	enc := json.NewEncoder(w)
	for sc.Scan() {
		line := sc.Bytes()
		if len(line) == 0 {
			continue
		}
		var c map[string]any
		if err := json.Unmarshal(line, &c); err != nil {
			enc.Encode(map[string]any{"harness_error": err.Error()})
			continue
		}
		enc.Encode(c16guard(func() any { return c16case(c) }))
	}
}
