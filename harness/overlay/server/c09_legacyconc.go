//go:build verif

package server

import (
	"context"
	"crypto/sha256"
	"encoding/hex"
	"encoding/json"
	"fmt"
	"io"
	"net/http"
	"net/http/httptest"
	"os"
	"path/filepath"
	"strings"
	"sync"
	"time"

	"github.com/ollama/ollama/api"
)

// VerifC09LegacyConc runs several REAL server.PushModel calls concurrently (models that share layers, so that they meet
// in blobUploadManager) against a scripted registry with gates, under a controller script.
//
// case {"kind":"push-legacy-conc","models":[{"name":"ma","layers":[hex...]}...],
//       "gates":["post:<layerhex>","commit:<layerhex>",...],   requests of these kinds block until released
//       "head":{layerhex:status},
//       "script":[["start",i] | ["arrive",key] | ["seen",log line prefix] | ["sleep",ms] | ["cancel",i] |
//                 ["release",key,status] | ["join",i]]}
// reply {"log":[global request log in arrival/answer order],"results":[error text per push, "" = nil, "unfinished"]}
func VerifC09LegacyConc(c map[string]any) any {
	dir, err := os.MkdirTemp("", "c09lc-")
	if err != nil {
		return map[string]any{"harness_error": err.Error()}
	}
	defer os.RemoveAll(dir)
	old := os.Getenv("OLLAMA_MODELS")
	os.Setenv("OLLAMA_MODELS", dir)
	defer os.Setenv("OLLAMA_MODELS", old)

	head, _ := c["head"].(map[string]any)
	gated := map[string]bool{}
	gl, _ := c["gates"].([]any)
	for _, g := range gl {
		gated[g.(string)] = true
	}
	type gate struct {
		key    string
		status chan int
	}
	var mu sync.Mutex
	var log []string
	waiting := map[string][]*gate{}
	addLog := func(s string) {
		mu.Lock()
		log = append(log, s)
		mu.Unlock()
	}
	// pass blocks at a gate (if the key is gated) and returns the status to answer with (0 = the client went away)
	committed := map[string]bool{} // digests the registry has accepted: a later HEAD finds them
	pass := func(r *http.Request, key string, def int) int {
		mu.Lock()
		isGated := gated[key]
		mu.Unlock()
		if !isGated {
			return def
		}
		g := &gate{key: key, status: make(chan int, 1)}
		mu.Lock()
		waiting[key] = append(waiting[key], g)
		log = append(log, "arrive "+key)
		mu.Unlock()
		select {
		case st := <-g.status:
			return st
		case <-r.Context().Done():
			// the client went away: the gate must not swallow a later release meant for a live request
			mu.Lock()
			for i, x := range waiting[key] {
				if x == g {
					waiting[key] = append(waiting[key][:i:i], waiting[key][i+1:]...)
					break
				}
			}
			mu.Unlock()
			return 0
		case <-time.After(20 * time.Second):
			return def
		}
	}
	var srv *httptest.Server
	srv = httptest.NewServer(http.HandlerFunc(func(w http.ResponseWriter, r *http.Request) {
		io.Copy(io.Discard, r.Body)
		p := r.URL.Path
		parts := strings.Split(strings.TrimPrefix(p, "/"), "/")
		model := ""
		if len(parts) >= 3 {
			model = parts[2]
		}
		switch {
		case r.Method == "HEAD" && strings.Contains(p, "/blobs/sha256:"):
			lh := p[strings.LastIndex(p, ":")+1:]
			st := 404
			if v, ok := head[lh].(float64); ok {
				st = int(v)
			}
			mu.Lock()
			if committed[lh] {
				st = 200
			}
			mu.Unlock()
			addLog(fmt.Sprintf("head %s %s %d", model, lh, st))
			w.WriteHeader(st)
		case r.Method == "POST" && strings.HasSuffix(p, "/blobs/uploads/"):
			lh := ""
			mu.Lock()
			for i := len(log) - 1; i >= 0; i-- {
				f := strings.Fields(log[i])
				if len(f) == 4 && f[0] == "head" && f[1] == model {
					lh = f[2]
					break
				}
			}
			mu.Unlock()
			st := pass(r, "post:"+lh, 202)
			if st == 0 {
				addLog(fmt.Sprintf("post %s %s gone", model, lh))
				return
			}
			addLog(fmt.Sprintf("post %s %s %d", model, lh, st))
			if st/100 == 2 {
				w.Header().Set("Location", srv.URL+"/v2/up/"+lh)
			}
			w.WriteHeader(st)
		case r.Method == "PATCH" && strings.HasPrefix(p, "/v2/up/"):
			lh := strings.TrimPrefix(p, "/v2/up/")
			addLog("patch " + lh + " 202")
			w.Header().Set("Location", srv.URL+"/v2/up/"+lh)
			w.WriteHeader(202)
		case r.Method == "PUT" && strings.HasPrefix(p, "/v2/up/"):
			lh := strings.TrimPrefix(p, "/v2/up/")
			st := pass(r, "commit:"+lh, 201)
			if st == 0 {
				addLog("commit " + lh + " gone")
				return
			}
			mu.Lock()
			if st/100 == 2 {
				committed[lh] = true
			}
			log = append(log, fmt.Sprintf("commit %s %d", lh, st))
			mu.Unlock()
			w.WriteHeader(st)
		case r.Method == "PUT" && strings.Contains(p, "/manifests/"):
			addLog(fmt.Sprintf("manifest-put %s 200", model))
			w.WriteHeader(200)
		default:
			addLog("other " + r.Method + " " + p)
			w.WriteHeader(404)
		}
	}))
	defer srv.Close()

	host := strings.TrimPrefix(srv.URL, "http://")
	os.MkdirAll(filepath.Join(dir, "blobs"), 0o755)
	models, _ := c["models"].([]any)
	names := make([]string, len(models))
	for i, m := range models {
		mm, _ := m.(map[string]any)
		var layers []any
		ll, _ := mm["layers"].([]any)
		for _, x := range ll {
			data, _ := hex.DecodeString(x.(string))
			sum := sha256.Sum256(data)
			os.WriteFile(filepath.Join(dir, "blobs", fmt.Sprintf("sha256-%x", sum)), data, 0o644)
			layers = append(layers, map[string]any{"mediaType": "application/vnd.ollama.image.model", "digest": fmt.Sprintf("sha256:%x", sum), "size": len(data)})
		}
		mb, _ := json.Marshal(map[string]any{"schemaVersion": 2, "mediaType": "application/vnd.docker.distribution.manifest.v2+json", "layers": layers})
		name, _ := mm["name"].(string)
		mdir := filepath.Join(dir, "manifests", host, "ns", name)
		os.MkdirAll(mdir, 0o755)
		os.WriteFile(filepath.Join(mdir, "tag"), mb, 0o644)
		names[i] = "http://" + host + "/ns/" + name + ":tag"
	}

	results := make([]string, len(models))
	done := make([]chan struct{}, len(models))
	cancels := make([]context.CancelFunc, len(models))
	ctxs := make([]context.Context, len(models))
	for i := range models {
		results[i] = "unstarted"
		done[i] = make(chan struct{})
		ctxs[i], cancels[i] = context.WithCancel(context.Background())
	}
	started := make([]bool, len(models))
	start := func(i int) {
		if started[i] {
			return
		}
		started[i] = true
		results[i] = "unfinished"
		go func() {
			defer close(done[i])
			var perr error
			func() {
				defer func() {
					if r := recover(); r != nil {
						perr = fmt.Errorf("PANIC: %v", r)
					}
				}()
				perr = PushModel(ctxs[i], names[i], &registryOptions{Insecure: true}, func(api.ProgressResponse) {})
			}()
			mu.Lock()
			if perr != nil {
				results[i] = perr.Error()
			} else {
				results[i] = ""
			}
			log = append(log, fmt.Sprintf("done %d %s", i, results[i]))
			mu.Unlock()
		}()
	}
	waitFor := func(cond func() bool, d time.Duration) bool {
		deadline := time.Now().Add(d)
		for time.Now().Before(deadline) {
			mu.Lock()
			ok := cond()
			mu.Unlock()
			if ok {
				return true
			}
			time.Sleep(2 * time.Millisecond)
		}
		return false
	}
	script, _ := c["script"].([]any)
	for _, st := range script {
		s, _ := st.([]any)
		switch s[0] {
		case "start":
			start(int(s[1].(float64)))
		case "arrive":
			key := s[1].(string)
			if !waitFor(func() bool { return len(waiting[key]) > 0 }, 4*time.Second) {
				addLog("timeout arrive " + key)
			}
		case "seen":
			pre := s[1].(string)
			if !waitFor(func() bool {
				for _, l := range log {
					if strings.HasPrefix(l, pre) {
						return true
					}
				}
				return false
			}, 4*time.Second) {
				addLog("timeout seen " + pre)
			}
		case "sleep":
			time.Sleep(time.Duration(s[1].(float64)) * time.Millisecond)
		case "cancel":
			i := int(s[1].(float64))
			addLog(fmt.Sprintf("cancel %d", i))
			cancels[i]()
		case "release":
			key := s[1].(string)
			mu.Lock()
			var g *gate
			if len(waiting[key]) > 0 {
				g, waiting[key] = waiting[key][0], waiting[key][1:]
			}
			mu.Unlock()
			if g != nil {
				g.status <- int(s[2].(float64))
			} else {
				addLog("nothing to release " + key)
			}
		case "open":
			// the scripted part is over: every gate opens (requests that are held or still to come get their default answer)
			mu.Lock()
			for k := range gated {
				delete(gated, k)
			}
			for k, gs := range waiting {
				for _, g := range gs {
					g.status <- 201
				}
				delete(waiting, k)
			}
			mu.Unlock()
		case "join":
			i := int(s[1].(float64))
			select {
			case <-done[i]:
			case <-time.After(8 * time.Second):
				addLog(fmt.Sprintf("timeout join %d", i))
			}
		}
	}
	// let everything that is still held go on, then collect
	mu.Lock()
	for k, gs := range waiting {
		for _, g := range gs {
			g.status <- 201
		}
		delete(waiting, k)
	}
	mu.Unlock()
	for i := range models {
		if started[i] {
			select {
			case <-done[i]:
			case <-time.After(3 * time.Second):
				cancels[i]()
			}
		}
	}
	for i := range models {
		if started[i] {
			select {
			case <-done[i]:
			case <-time.After(3 * time.Second):
			}
		}
		cancels[i]()
	}
	mu.Lock()
	defer mu.Unlock()
	return map[string]any{"log": append([]string(nil), log...), "results": append([]string(nil), results...)}
}
