//go:build verif

package server

import "github.com/ollama/ollama/server/internal/cache/blob"

// VerifC08 / VerifC08Child re-export the C08 harness driver that lives inside the internal package blob
// (server/internal/... cannot be imported from the external harness module).
func VerifC08(c map[string]any) any { return blob.VerifC08(c) }

func VerifC08Child() { blob.VerifC08Child() }
