//go:build verif

package server

// Scheduler harness, HTTP stage (C02): every endpoint that obtains a runner releases it.
//
// The REAL gin / net/http stack (Server.GenerateRoutes behind an httptest server), the real scheduler
// (InitScheduler, its own load(), both loops) with mock llm servers.  Every POST route of the route table, except
// the model-management ones, is sent a request (streaming and not; normal completion and client disconnect).  For
// every request during which a runner was obtained: after the response the runner's refCount returns to 0, a request
// for another model with OLLAMA_MAX_LOADED_MODELS=1 - which has to evict it - completes, with a short keep-alive the
// runner is shut down on its own, and in the end nothing is loaded and /api/ps is empty.  One JSON line per case on
// stdout; props/c01.py evaluates them.

import (
	"bytes"
	"context"
	"encoding/json"
	"fmt"
	"io"
	"log/slog"
	"net/http"
	"net/http/httptest"
	"os"
	"strings"
	"sync"
	"sync/atomic"
	"testing"
	"time"

	"github.com/gin-gonic/gin"

	"github.com/ollama/ollama/api"
	"github.com/ollama/ollama/discover"
	"github.com/ollama/ollama/fs/ggml"
	"github.com/ollama/ollama/llm"
)

type vhMockHTTP struct {
	id     int
	closed atomic.Int32
}

func (m *vhMockHTTP) Ping(ctx context.Context) error             { return nil }
func (m *vhMockHTTP) WaitUntilRunning(ctx context.Context) error { return nil }
func (m *vhMockHTTP) Completion(ctx context.Context, req llm.CompletionRequest, fn func(llm.CompletionResponse)) error {
	fn(llm.CompletionResponse{Content: "a"})
	select {
	case <-time.After(40 * time.Millisecond):
	case <-ctx.Done():
		return ctx.Err()
	}
	fn(llm.CompletionResponse{Content: "b", Done: true, DoneReason: llm.DoneReasonStop, PromptEvalCount: 1, EvalCount: 2})
	return nil
}
func (m *vhMockHTTP) Embedding(ctx context.Context, input string) ([]float32, error) {
	select {
	case <-time.After(40 * time.Millisecond):
	case <-ctx.Done():
		return nil, ctx.Err()
	}
	return []float32{0.25, 0.5}, nil
}
func (m *vhMockHTTP) Tokenize(ctx context.Context, content string) ([]int, error) {
	return []int{1, 2}, nil
}
func (m *vhMockHTTP) Detokenize(ctx context.Context, tokens []int) (string, error) {
	return "x", nil
}
func (m *vhMockHTTP) Close() error                           { m.closed.Add(1); return nil }
func (m *vhMockHTTP) EstimatedVRAM() uint64                  { return 100 << 20 }
func (m *vhMockHTTP) EstimatedTotal() uint64                 { return 100 << 20 }
func (m *vhMockHTTP) EstimatedVRAMByGPU(gpuID string) uint64 { return 100 << 20 }

type vhHTTPObs struct {
	Route      string `json:"route"`
	Stream     bool   `json:"stream"`
	Mode       string `json:"mode"` // complete | disconnect
	KeepAlive  string `json:"keep_alive"`
	Status     int    `json:"status"`
	Obtained   bool   `json:"obtained"`     // a runner was loaded / handed out during the request
	RefAfter   int    `json:"ref_after"`    // refCount of the runner once the response is over (after <= 1 s)
	ClosedByKA bool   `json:"closed_by_ka"` // short keep-alive: the runner was shut down on its own
	EvictOK    bool   `json:"evict_ok"`     // a request that has to evict the runner completed
	EvictCode  int    `json:"evict_code"`
	LoadedEnd  int    `json:"loaded_end"` // len(sched.loaded) in the end
	PsEnd      int    `json:"ps_end"`     // models reported by GET /api/ps in the end
	NeverClose []int  `json:"never_closed"`
	Err        string `json:"err,omitempty"`
}

func TestVerifSchedHTTP(t *testing.T) {
	if os.Getenv("VERIF_SCHED_HTTP") == "" {
		t.Skip("verification harness entry point; run by /verif/props/c01.py")
	}
	slog.SetDefault(slog.New(slog.NewTextHandler(io.Discard, nil)))
	gin.SetMode(gin.TestMode)
	gin.DefaultWriter = io.Discard
	gin.DefaultErrorWriter = io.Discard
	vsMakeStore(t)
	t.Setenv("OLLAMA_KEEP_ALIVE", "30ms") // the default keep-alive: what the /v1 routes get (they cannot pass one)
	t.Setenv("OLLAMA_MAX_LOADED_MODELS", "1")
	t.Setenv("OLLAMA_MAX_QUEUE", "8")
	t.Setenv("OLLAMA_NUM_PARALLEL", "1")
	out := os.Stdout // unbuffered: a hang must not swallow the observations made so far

	ctx, done := context.WithCancel(context.Background())
	defer done()
	var mu sync.Mutex
	var mocks []*vhMockHTTP
	sched := InitScheduler(ctx)
	sched.getGpuFn = func() discover.GpuInfoList {
		g := discover.GpuInfo{Library: "metal", ID: "0"}
		g.TotalMemory, g.FreeMemory = 24<<30, 12<<30
		return discover.GpuInfoList{g}
	}
	sched.getCpuFn = func() discover.GpuInfoList {
		g := discover.GpuInfo{Library: "cpu", ID: "cpu"}
		g.TotalMemory, g.FreeMemory = 24<<30, 24<<30
		return discover.GpuInfoList{g}
	}
	sched.newServerFn = func(gpus discover.GpuInfoList, model string, f *ggml.GGML, adapters, projectors []string, opts api.Options, numParallel int) (llm.LlamaServer, error) {
		mu.Lock()
		defer mu.Unlock()
		m := &vhMockHTTP{id: len(mocks)}
		mocks = append(mocks, m)
		return m, nil
	}
	sched.Run(ctx)
	s := &Server{sched: sched}
	h, err := s.GenerateRoutes(nil)
	if err != nil {
		t.Fatal(err)
	}
	srv := httptest.NewServer(h)
	// no srv.Close(): it waits for outstanding requests, and a handler stuck behind a leaked runner never returns
	defer srv.CloseClientConnections()

	// the route table: every POST route except model management
	skip := map[string]bool{"/api/pull": true, "/api/push": true, "/api/show": true, "/api/create": true, "/api/copy": true}
	var routes []string
	if eng, ok := h.(*gin.Engine); ok {
		for _, ri := range eng.Routes() {
			if ri.Method == http.MethodPost && !skip[ri.Path] && !strings.Contains(ri.Path, ":") {
				routes = append(routes, ri.Path)
			}
		}
	}
	if len(routes) == 0 {
		// GenerateRoutes wraps the engine: fall back to the list of record (reported, so the monitor can insist on it)
		routes = []string{"/api/generate", "/api/chat", "/api/embed", "/api/embeddings", "/v1/chat/completions", "/v1/completions", "/v1/embeddings"}
	}
	enc := json.NewEncoder(out)
	enc.Encode(map[string]any{"routes": routes})

	nloaded := func() int { sched.loadedMu.Lock(); defer sched.loadedMu.Unlock(); return len(sched.loaded) }
	refOf := func(name string) (int, bool) {
		sched.loadedMu.Lock()
		defer sched.loadedMu.Unlock()
		for _, r := range sched.loaded {
			if r.model != nil && strings.Contains(r.model.ShortName+" "+r.model.Name, name) {
				r.refMu.Lock()
				n := int(r.refCount)
				r.refMu.Unlock()
				return n, true
			}
		}
		return 0, false
	}
	psCount := func() int {
		resp, err := http.Get(srv.URL + "/api/ps")
		if err != nil {
			return -1
		}
		defer resp.Body.Close()
		var pr api.ProcessResponse
		json.NewDecoder(resp.Body).Decode(&pr)
		return len(pr.Models)
	}
	waitFor := func(d time.Duration, f func() bool) bool {
		dl := time.Now().Add(d)
		for time.Now().Before(dl) {
			if f() {
				return true
			}
			time.Sleep(5 * time.Millisecond)
		}
		return f()
	}
	body := func(model string, stream bool, ka string) []byte {
		b, _ := json.Marshal(map[string]any{
			"model": model, "prompt": "hi", "input": "hi", "stream": stream, "keep_alive": ka,
			"messages": []map[string]string{{"role": "user", "content": "hi"}},
		})
		return b
	}
	post := func(path string, b []byte, disconnect bool, timeout time.Duration) (int, error) {
		cctx, cancel := context.WithTimeout(context.Background(), timeout)
		defer cancel()
		req, _ := http.NewRequestWithContext(cctx, http.MethodPost, srv.URL+path, bytes.NewReader(b))
		req.Header.Set("Content-Type", "application/json")
		if disconnect {
			go func() { time.Sleep(20 * time.Millisecond); cancel() }()
		}
		resp, err := http.DefaultClient.Do(req)
		if err != nil {
			return 0, err
		}
		defer resp.Body.Close()
		_, err = io.Copy(io.Discard, resp.Body)
		return resp.StatusCode, err
	}

	k := 0
	for _, route := range routes {
		for _, stream := range []bool{false, true} {
			for _, mode := range []string{"complete", "disconnect"} {
				k++
				ka := "5m"
				if k%2 == 0 || strings.HasPrefix(route, "/v1/") {
					ka = "30ms"
				}
				o := vhHTTPObs{Route: route, Stream: stream, Mode: mode, KeepAlive: ka}
				mu.Lock()
				before := len(mocks)
				mu.Unlock()
				code, err := post(route, body("vm0", stream, ka), mode == "disconnect", 5*time.Second)
				o.Status = code
				if err != nil && mode != "disconnect" {
					o.Err = err.Error()
				}
				mu.Lock()
				o.Obtained = len(mocks) > before
				mu.Unlock()
				if _, ok := refOf("vm0"); ok {
					o.Obtained = true
				}
				if o.Obtained {
					// the handler's context is done: the reference is given back
					waitFor(time.Second, func() bool { n, ok := refOf("vm0"); return !ok || n == 0 })
					if n, ok := refOf("vm0"); ok {
						o.RefAfter = n
					}
					if ka != "5m" {
						o.ClosedByKA = waitFor(time.Second, func() bool { return nloaded() == 0 })
					}
					// a request for another model has to evict it (one model at a time)
					ec, eerr := post("/api/generate", body("vm1", false, "0s"), false, 3*time.Second)
					o.EvictCode = ec
					o.EvictOK = eerr == nil && ec == 200
				}
				waitFor(time.Second, func() bool { return nloaded() == 0 })
				o.LoadedEnd = nloaded()
				o.PsEnd = psCount()
				mu.Lock()
				for _, m := range mocks {
					if m.closed.Load() == 0 {
						o.NeverClose = append(o.NeverClose, m.id)
					}
				}
				mu.Unlock()
				enc.Encode(o)
				if o.LoadedEnd != 0 {
					// start over with a fresh scheduler state is not possible here: report and stop, what follows would only repeat it
					enc.Encode(map[string]any{"stopped": fmt.Sprintf("after %s: the scheduler still has %d runner(s) loaded", route, o.LoadedEnd)})
					return
				}
			}
		}
	}
	enc.Encode(map[string]any{"done": true, "cases": k})
}
