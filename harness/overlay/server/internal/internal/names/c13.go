//go:build verif

package names

// VerifC13IsValidPart calls the real, unexported isValidPart (C13 harness).
func VerifC13IsValidPart(kind int, s string) bool { return isValidPart(kind, s) }
