//go:build verif

package ollama

import (
	"errors"
)

// C13 harness exports: the real, unexported extended-name functions of the registry client.

func VerifC13SplitExtended(s string) (scheme, name, digest string) { return splitExtended(s) }

type VerifC13Ext struct {
	Scheme     string
	H, N, M, T string
	Sum        [32]byte
	Err        string // "" | "name" (ErrNameInvalid) | other error text
}

func VerifC13ParseNameExtended(mask, s string) VerifC13Ext {
	r := &Registry{Mask: mask}
	scheme, n, d, err := r.parseNameExtended(s)
	if err != nil {
		if errors.Is(err, ErrNameInvalid) {
			return VerifC13Ext{Err: "name:" + err.Error()}
		}
		return VerifC13Ext{Err: "other:" + err.Error()}
	}
	return VerifC13Ext{Scheme: scheme, H: n.Host(), N: n.Namespace(), M: n.Model(), T: n.Tag(), Sum: d.Sum()}
}
