//go:build verif

// C09 harness driver (add-only overlay file, build tag verif): runs the REAL Registry.Pull / Registry.Push and the
// REAL blob.DiskCache against a scripted in-process registry (an http.RoundTripper: no sockets, exact control over
// status codes, body pieces, read errors and the completion order of concurrent chunk downloads).
//
// case {"kind":"pull", "threshold":n, "max_streams":m, "name":"http://host/ns/model:tag",
//       "pre":[{"op":"put","data":hex} | {"op":"raw","name":file name in blobs/,"data":hex} | {"op":"link","name":s,"data":hex}],
//       "handler":bool, "attempts":[attempt...]}
// attempt {"manifest":{"status":200,"body":hex,"code":s},
//          "chunksums":{layerhex:{"status":200,"body":hex,"tail":null|"boom"}},
//          "blobs":{layerhex:{"s-e":{"status":200,"pieces":[hex...],"tail":null|"reset"|"boom"|"timeout","code":s}}},
//          "order":null | [[layerhex,"s-e"],...]}
// With "order" every blob GET waits until all listed requests have arrived and is then answered, one at a time, in
// that order (the next one only after the previous response body was closed by the client).
package ollama

import (
	"bytes"
	"context"
	"crypto/ed25519"
	"crypto/rand"
	"encoding/hex"
	"encoding/json"
	"errors"
	"fmt"
	"io"
	"io/fs"
	"net/http"
	"os"
	"path/filepath"
	"strings"
	"sync"
	"time"

	"github.com/ollama/ollama/server/internal/cache/blob"
)

type verifBody struct {
	pieces [][]byte
	tail   string
	cur    []byte
	closed func()
	once   sync.Once
	ctx    context.Context
}

var errVerifBoom = errors.New("verif: scripted body error")

func (b *verifBody) Read(p []byte) (int, error) {
	if err := b.ctx.Err(); err != nil {
		return 0, err
	}
	for len(b.cur) == 0 {
		if len(b.pieces) == 0 {
			switch b.tail {
			case "reset":
				return 0, errors.New("read tcp 127.0.0.1:1->127.0.0.1:2: read: connection reset by peer")
			case "boom":
				return 0, errVerifBoom
			case "timeout":
				return 0, fmt.Errorf("%w: scripted", context.DeadlineExceeded)
			case "stall":
				// the registry stops sending: only Pull's read timeout (or a cancellation) ends the request
				select {
				case <-b.ctx.Done():
					return 0, context.Cause(b.ctx)
				case <-time.After(5 * time.Second):
					return 0, errors.New("verif: stalled body was never interrupted")
				}
			}
			return 0, io.EOF
		}
		b.cur, b.pieces = b.pieces[0], b.pieces[1:]
		if len(b.cur) == 0 {
			return 0, nil
		}
	}
	n := copy(p, b.cur)
	b.cur = b.cur[n:]
	return n, nil
}

func (b *verifBody) Close() error {
	b.once.Do(func() {
		if b.closed != nil {
			b.closed()
		}
	})
	return nil
}

type verifGate struct {
	key     string
	release chan struct{}
	done    chan struct{}
}

type verifRT struct {
	mu       sync.Mutex
	attempts []any
	idx      int // index of the current attempt (advanced by every manifest GET)
	log      []string
	gated    bool
	needAuth bool // every request built by Registry.newRequest must carry the client's bearer token
	arrived  chan *verifGate
	onAttempt func(i int) // called when attempt i starts (before its manifest is answered)
	cancel    func()      // cancels the context of the running pull (scripted cancellation)
}

func verifHexBytes(v any) []byte {
	s, _ := v.(string)
	b, err := hex.DecodeString(s)
	if err != nil {
		panic("bad hex")
	}
	return b
}

func (rt *verifRT) cur() map[string]any {
	if rt.idx-1 >= 0 && rt.idx-1 < len(rt.attempts) {
		m, _ := rt.attempts[rt.idx-1].(map[string]any)
		return m
	}
	return nil
}

func verifErrResp(req *http.Request, status int, code string) *http.Response {
	body := fmt.Sprintf(`{"errors":[{"code":%q,"message":"scripted"}]}`, code)
	hdr := http.Header{}
	if strings.HasPrefix(code, "LOC") {
		// a redirect that names a target; the target answers 404 to whatever follows it
		hdr.Set("Location", "http://redirect.test/v2/x/y/redirected/"+code)
	}
	return &http.Response{StatusCode: status, Status: fmt.Sprint(status), Header: hdr, Body: io.NopCloser(strings.NewReader(body)),
		ContentLength: int64(len(body)), Request: req, Proto: "HTTP/1.1", ProtoMajor: 1, ProtoMinor: 1}
}

func (rt *verifRT) bodyResp(req *http.Request, status int, pieces [][]byte, tail string, hdr http.Header, closed func()) *http.Response {
	if hdr == nil {
		hdr = http.Header{}
	}
	return &http.Response{StatusCode: status, Status: fmt.Sprint(status), Header: hdr, ContentLength: -1, Request: req,
		Proto: "HTTP/1.1", ProtoMajor: 1, ProtoMinor: 1,
		Body: &verifBody{pieces: pieces, tail: tail, closed: closed, ctx: req.Context()}}
}

func (rt *verifRT) RoundTrip(req *http.Request) (*http.Response, error) {
	if err := req.Context().Err(); err != nil {
		return nil, err
	}
	if req.Body != nil {
		io.Copy(io.Discard, req.Body)
		req.Body.Close()
	}
	parts := strings.Split(strings.TrimPrefix(req.URL.Path, "/"), "/")
	if rt.needAuth && !(req.Method == "GET" && len(parts) >= 5 && parts[3] == "blobs") && !strings.HasPrefix(req.Header.Get("Authorization"), "Bearer ") {
		rt.mu.Lock()
		rt.log = append(rt.log, "unauthenticated "+req.Method+" "+req.URL.Path)
		rt.mu.Unlock()
		return verifErrResp(req, 401, "UNAUTHORIZED"), nil
	}
	// v2/<ns>/<model>/<kind>/<ref>
	kind, ref := "", ""
	if len(parts) >= 5 {
		kind, ref = parts[3], parts[4]
	}
	switch {
	case req.Method == "GET" && kind == "manifests":
		rt.mu.Lock()
		rt.idx++
		i := rt.idx
		rt.log = append(rt.log, fmt.Sprintf("%d manifest", i))
		rt.mu.Unlock()
		if rt.onAttempt != nil {
			rt.onAttempt(i)
		}
		a := rt.cur()
		if a == nil {
			return verifErrResp(req, 404, "SCRIPT_EXHAUSTED"), nil
		}
		m, _ := a["manifest"].(map[string]any)
		status := int(m["status"].(float64))
		if status != 200 {
			code, _ := m["code"].(string)
			return verifErrResp(req, status, code), nil
		}
		return rt.bodyResp(req, 200, [][]byte{verifHexBytes(m["body"])}, "", nil, nil), nil
	case req.Method == "GET" && kind == "chunksums":
		lh := strings.TrimPrefix(ref, "sha256:")
		rt.mu.Lock()
		rt.log = append(rt.log, fmt.Sprintf("%d chunksums %s", rt.idx, lh))
		a := rt.cur()
		rt.mu.Unlock()
		cs, _ := a["chunksums"].(map[string]any)
		e, _ := cs[lh].(map[string]any)
		if e == nil {
			return verifErrResp(req, 404, "NO_SCRIPT"), nil
		}
		if cn, _ := e["cancel"].(bool); cn {
			if rt.cancel != nil {
				rt.cancel()
			}
			<-req.Context().Done()
			return nil, req.Context().Err()
		}
		status := int(e["status"].(float64))
		if status != 200 {
			return verifErrResp(req, status, "CHUNKSUMS"), nil
		}
		tail, _ := e["tail"].(string)
		hdr := http.Header{}
		hdr.Set("Content-Location", fmt.Sprintf("http://blob.test/v2/%s/%s/blobs/sha256:%s", parts[1], parts[2], lh))
		return rt.bodyResp(req, 200, [][]byte{verifHexBytes(e["body"])}, tail, hdr, nil), nil
	case req.Method == "GET" && kind == "blobs":
		lh := strings.TrimPrefix(ref, "sha256:")
		rng := strings.TrimPrefix(req.Header.Get("Range"), "bytes=")
		key := lh + " " + rng
		rt.mu.Lock()
		rt.log = append(rt.log, fmt.Sprintf("%d blob %s", rt.idx, key))
		a := rt.cur()
		var g *verifGate
		if rt.gated {
			g = &verifGate{key: key, release: make(chan struct{}), done: make(chan struct{})}
		}
		rt.mu.Unlock()
		var closed func()
		if g != nil {
			rt.arrived <- g
			select {
			case <-g.release:
			case <-req.Context().Done():
				return nil, req.Context().Err()
			case <-time.After(20 * time.Second):
				return nil, errors.New("verif: gate never released")
			}
			var once sync.Once
			closed = func() { once.Do(func() { close(g.done) }) }
		}
		bl, _ := a["blobs"].(map[string]any)
		per, _ := bl[lh].(map[string]any)
		e, _ := per[rng].(map[string]any)
		if e == nil {
			if closed != nil {
				closed()
			}
			return verifErrResp(req, 404, "NO_SCRIPT"), nil
		}
		if cn, _ := e["cancel"].(bool); cn {
			if closed != nil {
				closed()
			}
			if rt.cancel != nil {
				rt.cancel()
			}
			<-req.Context().Done()
			return nil, req.Context().Err()
		}
		status := int(e["status"].(float64))
		if status/100 != 2 {
			code, _ := e["code"].(string)
			if closed != nil {
				closed()
			}
			return verifErrResp(req, status, code), nil
		}
		var pieces [][]byte
		pl, _ := e["pieces"].([]any)
		for _, p := range pl {
			pieces = append(pieces, verifHexBytes(p))
		}
		tail, _ := e["tail"].(string)
		return rt.bodyResp(req, status, pieces, tail, nil, closed), nil
	}
	return rt.push(req, kind, ref, parts)
}

// ---- push side of the scripted registry

type verifPushScript struct {
	post map[string]any // layerhex -> {"status":..,"location":bool}
	put  map[string]any // layerhex -> {"status":..}
	man  map[string]any
}

var verifPush *verifPushScript

func (rt *verifRT) push(req *http.Request, kind, ref string, parts []string) (*http.Response, error) {
	ps := verifPush
	if ps == nil {
		return verifErrResp(req, 404, "NO_SCRIPT"), nil
	}
	ok := func(hdr http.Header) *http.Response {
		if hdr == nil {
			hdr = http.Header{}
		}
		return &http.Response{StatusCode: 200, Status: "200", Header: hdr, Body: io.NopCloser(strings.NewReader("")), Request: req,
			Proto: "HTTP/1.1", ProtoMajor: 1, ProtoMinor: 1}
	}
	switch {
	case req.Method == "POST" && kind == "blobs":
		lh := strings.TrimPrefix(strings.TrimPrefix(req.URL.Query().Get("digest"), "sha256:"), "sha256-")
		rt.mu.Lock()
		rt.log = append(rt.log, "post "+lh)
		rt.mu.Unlock()
		e, _ := ps.post[lh].(map[string]any)
		status := 200
		if e != nil {
			status = int(e["status"].(float64))
		}
		if status/100 != 2 {
			code, _ := e["code"].(string)
			return verifErrResp(req, status, code+"POST"), nil
		}
		hdr := http.Header{}
		if loc, _ := e["location"].(bool); e == nil || loc {
			hdr.Set("Location", "http://upload.test/v2/x/y/upload/"+lh)
		}
		return ok(hdr), nil
	case req.Method == "PUT" && kind == "upload":
		lh := ref
		e, _ := ps.put[lh].(map[string]any)
		status := 200
		if e != nil {
			status = int(e["status"].(float64))
		}
		rt.mu.Lock()
		rt.log = append(rt.log, fmt.Sprintf("put %s %d", lh, status))
		rt.mu.Unlock()
		if status/100 != 2 {
			code, _ := e["code"].(string)
			return verifErrResp(req, status, code+"PUT"), nil
		}
		return ok(nil), nil
	case req.Method == "PUT" && kind == "manifests":
		status := 200
		if ps.man != nil {
			status = int(ps.man["status"].(float64))
		}
		rt.mu.Lock()
		rt.log = append(rt.log, fmt.Sprintf("manifest-put %d", status))
		rt.mu.Unlock()
		if status/100 != 2 {
			code, _ := ps.man["code"].(string)
			return verifErrResp(req, status, code+"MANIFEST"), nil
		}
		return ok(nil), nil
	}
	return verifErrResp(req, 404, "UNKNOWN"), nil
}

// ---- observation

func verifErrClass(err error) string {
	var re *Error
	switch {
	case err == nil:
		return ""
	case errors.Is(err, ErrModelNotFound):
		return "notfound"
	case errors.Is(err, ErrManifestInvalid):
		return "invalid"
	case errors.Is(err, ErrIncomplete):
		return "incomplete"
	case errors.Is(err, ErrNameInvalid):
		return "nameinvalid"
	case errors.As(err, &re):
		if re.Temporary() {
			return "temp"
		}
		return "perm"
	case strings.Contains(err.Error(), "underfoot"):
		return "checksum"
	case errors.Is(err, io.ErrUnexpectedEOF):
		return "short"
	case errors.Is(err, context.DeadlineExceeded), strings.Contains(err.Error(), "connection reset by peer"):
		return "read-retry"
	case errors.Is(err, errVerifBoom):
		return "read"
	case errors.Is(err, context.Canceled):
		return "canceled"
	case errors.Is(err, fs.ErrNotExist):
		return "notexist"
	}
	var se *json.SyntaxError
	if errors.As(err, &se) {
		return "invalid"
	}
	return "other:" + err.Error()
}

func verifSnap(dir string) map[string]any {
	blobs := map[string]string{}
	ents, _ := os.ReadDir(filepath.Join(dir, "blobs"))
	for _, e := range ents {
		b, err := os.ReadFile(filepath.Join(dir, "blobs", e.Name()))
		if err == nil {
			blobs[e.Name()] = hex.EncodeToString(b)
		}
	}
	links := map[string]string{}
	root := filepath.Join(dir, "manifests")
	filepath.WalkDir(root, func(p string, d fs.DirEntry, err error) error {
		if err != nil || d.IsDir() {
			return nil
		}
		b, err := os.ReadFile(p)
		if err == nil {
			rel, _ := filepath.Rel(root, p)
			links[filepath.ToSlash(rel)] = hex.EncodeToString(b)
		}
		return nil
	})
	return map[string]any{"blobs": blobs, "links": links}
}

// VerifHandler, when set (by the bridge in package server), runs one "POST /api/pull" through registry.Local.
var VerifHandler func(ctx context.Context, rc *Registry, name string, stream bool) (status int, body string)

func verifPre(cache *blob.DiskCache, dir string, pre []any) {
	for _, p := range pre {
		op, _ := p.(map[string]any)
		switch op["op"] {
		case "put":
			data := verifHexBytes(op["data"])
			if err := blob.PutBytes(cache, blob.DigestFromBytes(data), data); err != nil {
				panic(err)
			}
		case "raw":
			name, _ := op["name"].(string)
			if err := os.WriteFile(filepath.Join(dir, "blobs", name), verifHexBytes(op["data"]), 0o666); err != nil {
				panic(err)
			}
		case "link":
			data := verifHexBytes(op["data"])
			d := blob.DigestFromBytes(data)
			if err := blob.PutBytes(cache, d, data); err != nil {
				panic(err)
			}
			name, _ := op["name"].(string)
			if err := cache.Link(name, d); err != nil {
				panic(err)
			}
		}
	}
}

// VerifC09 runs one case.
func VerifC09(c map[string]any) any {
	switch c["kind"] {
	case "pull":
		return verifPull(c)
	case "push":
		return verifPushCase(c)
	}
	return map[string]any{"harness_error": "unknown kind"}
}

func verifPull(c map[string]any) any {
	dir, err := os.MkdirTemp("", "c09-")
	if err != nil {
		return map[string]any{"harness_error": err.Error()}
	}
	defer os.RemoveAll(dir)
	if n, ok := c["dirname"].(string); ok && n != "" {
		dir = filepath.Join(dir, n)
		if err := os.MkdirAll(dir, 0o777); err != nil {
			return map[string]any{"harness_error": err.Error()}
		}
	}
	cache, err := blob.Open(dir)
	if err != nil {
		return map[string]any{"harness_error": err.Error()}
	}
	pre, _ := c["pre"].([]any)
	verifPre(cache, dir, pre)
	attempts, _ := c["attempts"].([]any)
	rt := &verifRT{attempts: attempts, arrived: make(chan *verifGate, 1024)}
	rc := &Registry{Cache: cache, HTTPClient: &http.Client{Transport: rt}, MaxStreams: int(c["max_streams"].(float64)),
		ChunkingThreshold: int64(c["threshold"].(float64))}
	if a, _ := c["auth"].(bool); a {
		_, priv, _ := ed25519.GenerateKey(rand.Reader)
		rc.Key = &priv
		rt.needAuth = true
	}
	if ms, ok := c["read_timeout_ms"].(float64); ok {
		rc.ReadTimeout = time.Duration(ms) * time.Millisecond
	}
	name, _ := c["name"].(string)
	out := map[string]any{"pre_snap": verifSnap(dir)}

	installGates := func(i int) (order []string) {
		rt.mu.Lock()
		defer rt.mu.Unlock()
		rt.gated = false
		if i-1 < 0 || i-1 >= len(attempts) {
			return nil
		}
		a, _ := attempts[i-1].(map[string]any)
		ol, ok := a["order"].([]any)
		if !ok {
			return nil
		}
		rt.gated = true
		order = []string{}
		for _, x := range ol {
			pr, _ := x.([]any)
			order = append(order, pr[0].(string)+" "+pr[1].(string))
		}
		return order
	}
	// the scheduler of one gated attempt: every blob GET waits at a gate; whenever no new request has arrived for a
	// while, the waiting request that comes first in the scripted order is answered and runs to completion (its
	// response body is closed by the client) before the next one is considered
	runSched := func(order []string, stop chan struct{}) {
		prio := map[string]int{}
		for i, k := range order {
			if _, ok := prio[k]; !ok {
				prio[k] = i
			}
		}
		var pending []*verifGate
		for {
			quiet := time.After(15 * time.Millisecond)
		collect:
			for {
				select {
				case g := <-rt.arrived:
					pending = append(pending, g)
					quiet = time.After(15 * time.Millisecond)
				case <-quiet:
					break collect
				case <-stop:
					for _, g := range pending {
						close(g.release)
					}
					return
				}
			}
			if len(pending) == 0 {
				continue
			}
			best := 0
			for i, g := range pending {
				pi, ok := prio[g.key]
				if !ok {
					pi = 1 << 30
				}
				pb, ok := prio[pending[best].key]
				if !ok {
					pb = 1 << 30
				}
				if pi < pb {
					best = i
				}
			}
			g := pending[best]
			pending = append(pending[:best], pending[best+1:]...)
			close(g.release)
			select {
			case <-g.done:
			case <-time.After(5 * time.Second):
			case <-stop:
				for _, g := range pending {
					close(g.release)
				}
				return
			}
			time.Sleep(300 * time.Microsecond) // let the finished download goroutine return before the next one is answered
		}
	}

	if h, _ := c["handler"].(bool); h {
		// the retry loop of handlePull decides how many attempts are made; the state after attempt k is observed when
		// attempt k+1 asks for the manifest (Pull k has returned by then) and at the end
		var snaps []any
		var stops []chan struct{}
		hctx, hcancel := context.WithCancel(context.Background())
		defer hcancel()
		rt.cancel = hcancel
		rt.onAttempt = func(i int) {
			if i > 1 {
				snaps = append(snaps, verifSnap(dir))
			}
			if i > len(attempts)+3 {
				hcancel() // a retry loop that does not stop by itself: end the request
			}
			for _, s := range stops {
				close(s)
			}
			stops = nil
			if order := installGates(i); order != nil {
				stop := make(chan struct{})
				stops = append(stops, stop)
				go runSched(order, stop)
			}
		}
		status, body := 0, "no handler"
		if VerifHandler != nil {
			stream := true
			if b, ok := c["stream"].(bool); ok {
				stream = b
			}
			status, body = VerifHandler(hctx, rc, name, stream)
		}
		for _, s := range stops {
			close(s)
		}
		snaps = append(snaps, verifSnap(dir))
		out["handler_status"] = status
		out["handler_body"] = body
		out["snaps"] = snaps
		out["attempts_made"] = rt.idx
		if d, err := cache.Resolve(strings.TrimPrefix(name, "http://")); err == nil {
			out["resolve"] = fmt.Sprintf("%x", d.Sum())
		}
		out["log"] = rt.log
		return out
	}

	var res []any
	for i := range attempts {
		if a, _ := attempts[i].(map[string]any); a != nil {
			if ro, _ := a["reopen"].(bool); ro {
				// the process was restarted between the attempts: a new DiskCache on the same directory
				nc, err := blob.Open(dir)
				if err != nil {
					return map[string]any{"harness_error": "reopen: " + err.Error()}
				}
				cache = nc
				rc.Cache = nc
			}
		}
		ctx, cancel := context.WithCancel(context.Background())
		rt.cancel = cancel
		var stop chan struct{}
		rt.onAttempt = func(k int) {
			if order := installGates(k); order != nil {
				stop = make(chan struct{})
				go runSched(order, stop)
			}
		}
		rt.mu.Lock()
		rt.idx = i // the manifest GET of this attempt makes it i+1
		lstart := len(rt.log)
		rt.mu.Unlock()
		var perr error
		func() {
			defer func() {
				if r := recover(); r != nil {
					perr = fmt.Errorf("PANIC: %v", r)
				}
			}()
			perr = rc.Pull(ctx, name)
		}()
		cancel()
		if stop != nil {
			close(stop)
		}
		rt.mu.Lock()
		log := append([]string(nil), rt.log[lstart:]...)
		rt.mu.Unlock()
		o := map[string]any{"err": verifErrClass(perr), "snap": verifSnap(dir), "log": log}
		if perr != nil {
			o["msg"] = perr.Error()
		}
		if d, err := cache.Resolve(strings.TrimPrefix(name, "http://")); err == nil {
			o["resolve"] = fmt.Sprintf("%x", d.Sum())
		}
		res = append(res, o)
	}
	out["attempts"] = res
	return out
}

// push: {"kind":"push","name":..., "max_streams":m, "layers":[hex data...], "missing":[indices of layers whose blob is absent locally],
//        "post":{layerhex:{"status":..,"location":bool}}, "put":{layerhex:{"status":..}}, "manifest":{"status":..}}
func verifPushCase(c map[string]any) any {
	dir, err := os.MkdirTemp("", "c09p-")
	if err != nil {
		return map[string]any{"harness_error": err.Error()}
	}
	defer os.RemoveAll(dir)
	cache, err := blob.Open(dir)
	if err != nil {
		return map[string]any{"harness_error": err.Error()}
	}
	var layers []*Layer
	ll, _ := c["layers"].([]any)
	for _, x := range ll {
		data := verifHexBytes(x)
		d := blob.DigestFromBytes(data)
		if err := blob.PutBytes(cache, d, data); err != nil {
			panic(err)
		}
		layers = append(layers, &Layer{Digest: d, Size: int64(len(data)), MediaType: "application/vnd.ollama.image.model"})
	}
	mdata, _ := json.Marshal(&Manifest{Layers: layers})
	md := blob.DigestFromBytes(mdata)
	if err := blob.PutBytes(cache, md, mdata); err != nil {
		panic(err)
	}
	name, _ := c["name"].(string)
	if err := cache.Link(strings.TrimPrefix(name, "http://"), md); err != nil {
		panic(err)
	}
	post, _ := c["post"].(map[string]any)
	put, _ := c["put"].(map[string]any)
	man, _ := c["manifest"].(map[string]any)
	verifPush = &verifPushScript{post: post, put: put, man: man}
	defer func() { verifPush = nil }()
	rt := &verifRT{arrived: make(chan *verifGate, 16)}
	rc := &Registry{Cache: cache, HTTPClient: &http.Client{Transport: rt}, MaxStreams: int(c["max_streams"].(float64))}
	if a, _ := c["auth"].(bool); a {
		_, priv, _ := ed25519.GenerateKey(rand.Reader)
		rc.Key = &priv
		rt.needAuth = true
	}
	perr := rc.Push(context.Background(), name, nil)
	o := map[string]any{"err": verifErrClass(perr), "log": rt.log}
	if perr != nil {
		o["msg"] = perr.Error()
	}
	return o
}

var _ = bytes.NewReader
