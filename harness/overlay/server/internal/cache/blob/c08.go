//go:build verif

// C08 harness driver (add-only overlay file, build tag verif): runs the REAL DiskCache on scripted cases.
// It lives inside package blob only because the package is internal to github.com/ollama/ollama/server; it uses
// the exported API plus the unexported sentinel errInvalidName for error classification.
//
// case kinds (one JSON object each):
//
//	{"kind":"hist","ops":[op...]}   a history on a fresh cache directory; after every op the whole directory is reported
//	   op: {"op":"put","d":hex64,"size":n,"src":[{"data":hex,"st":"more|eof|err"}...],"bytes":bool,"crash":null|k}
//	       {"op":"import","src":[...],"size":n} {"op":"get","d":hex64} {"op":"link","name":s,"d":hex64}
//	       {"op":"unlink","name":s} {"op":"resolve","name":s} {"op":"raw","path":"h/n/m/t","data":hex}
//	   "crash":k runs the Put in a child process that is SIGKILLed when its k-th Read begins (k>=1), i.e. after
//	   Stat/OpenFile and k-1 complete Read+Write iterations.
//	{"kind":"conc","d":hex64,"f0":null|hex,"writers":[{"size":n,"src":[...]}...],"sched":[i...]}
//	   concurrent Puts of one digest; every scheduled step lets writer i run until its next Read call (or its end).
package blob

import (
	"bytes"
	"crypto/sha256"
	"encoding/hex"
	"encoding/json"
	"errors"
	"fmt"
	"io"
	"io/fs"
	"os"
	"os/exec"
	"path/filepath"
	"strings"
	"syscall"
	"time"
)

var errVerifSrc = errors.New("verif: scripted source error")

type verifRd struct {
	data []byte
	st   string
}

// verifGen is procedurally generated content (so that histories with blobs of MiBs stay small): the SHA-256 of
// "verif-<seed>" repeated up to n bytes.  props/c08.py generates the same bytes.
func verifGen(seed, n int) []byte {
	blk := sha256.Sum256([]byte(fmt.Sprintf("verif-%d", seed)))
	out := make([]byte, 0, n+32)
	for len(out) < n {
		out = append(out, blk[:]...)
	}
	return out[:n]
}

// {"gen":{"seed":s,"len":n,"chunk":c,"flip":pos|-1,"cut":m|-1,"extra":k}}: generated content, optionally with one byte
// flipped, cut to m bytes, or followed by k more bytes, delivered in reads of c bytes
func verifGenReads(g map[string]any) []verifRd {
	num := func(k string, def int) int {
		if v, ok := g[k].(float64); ok {
			return int(v)
		}
		return def
	}
	data := verifGen(num("seed", 0), num("len", 0))
	if p := num("flip", -1); p >= 0 && p < len(data) {
		data[p] ^= 1
	}
	if m := num("cut", -1); m >= 0 && m < len(data) {
		data = data[:m]
	}
	if k := num("extra", 0); k > 0 {
		data = append(data, verifGen(num("seed", 0)+1, k)...)
	}
	c := num("chunk", 32768)
	var out []verifRd
	for len(data) > 0 {
		n := min(c, len(data))
		out = append(out, verifRd{data[:n], "more"})
		data = data[n:]
	}
	return out
}

func verifReads(v any) []verifRd {
	if g, ok := v.(map[string]any); ok {
		if gg, ok := g["gen"].(map[string]any); ok {
			return verifGenReads(gg)
		}
	}
	l, _ := v.([]any)
	out := make([]verifRd, 0, len(l))
	for _, x := range l {
		m, _ := x.(map[string]any)
		s, _ := m["data"].(string)
		b, err := hex.DecodeString(s)
		if err != nil {
			panic("bad hex in src")
		}
		st, _ := m["st"].(string)
		out = append(out, verifRd{b, st})
	}
	return out
}

// scripted reader: the i-th Read returns the i-th scripted result (each must fit the caller's buffer);
// before returns from a hook called when a Read begins (gating / crash injection).
type verifReader struct {
	rds    []verifRd
	i      int
	before func(call int) error
	Sizes  []int
}

func (r *verifReader) Read(p []byte) (int, error) {
	if r.before != nil {
		if err := r.before(r.i + 1); err != nil {
			return 0, err
		}
	}
	if r.i >= len(r.rds) {
		r.i++
		return 0, io.EOF
	}
	x := r.rds[r.i]
	r.i++
	if len(x.data) > len(p) {
		panic(fmt.Sprintf("verif: scripted read of %d bytes does not fit buffer of %d", len(x.data), len(p)))
	}
	n := copy(p, x.data)
	r.Sizes = append(r.Sizes, n)
	switch x.st {
	case "eof":
		return n, io.EOF
	case "err":
		return n, errVerifSrc
	}
	return n, nil
}

// verifWriterTo is a source that io.Copy drains through WriteTo: it hands the scripted chunks to the destination's Write
// one by one and can kill the process right after the k-th Write call returned, i.e. at a write boundary *including
// after the final write and before any clean-up of the caller* (crash injection child only).
type verifWriterTo struct {
	chunks    [][]byte
	killAfter int
}

func (r *verifWriterTo) Read(p []byte) (int, error) { return 0, io.EOF }

func (r *verifWriterTo) WriteTo(w io.Writer) (int64, error) {
	var total int64
	for i, c := range r.chunks {
		n, err := w.Write(c)
		total += int64(n)
		if i+1 == r.killAfter {
			syscall.Kill(os.Getpid(), syscall.SIGKILL)
			time.Sleep(10 * time.Second)
		}
		if err != nil {
			return total, err
		}
	}
	return total, nil
}

func verifDigest(v any) Digest {
	s, _ := v.(string)
	d, err := ParseDigest("sha256:" + s)
	if err != nil {
		panic("bad digest " + s)
	}
	return d
}

func verifErrClass(err error) string {
	switch {
	case err == nil:
		return ""
	case errors.Is(err, errVerifSrc):
		return "source"
	case strings.Contains(err.Error(), "underfoot"):
		return "underfoot"
	case strings.Contains(err.Error(), "exceeds expected size"):
		return "exceeds"
	case errors.Is(err, io.ErrUnexpectedEOF):
		return "ueof"
	case errors.Is(err, fs.ErrNotExist):
		return "notexist"
	case errors.Is(err, errInvalidName):
		return "invalidname"
	case errors.Is(err, ErrInvalidDigest):
		return "invaliddigest"
	case strings.Contains(err.Error(), "blob: expected"):
		return "sizemismatch"
	}
	return "other:" + err.Error()
}

func verifRes(err error) map[string]any {
	if err == nil {
		return map[string]any{"kind": "ok"}
	}
	return map[string]any{"kind": "err", "err": verifErrClass(err), "msg": err.Error()}
}

// verifLarge: the case works with blobs of MiBs: snapshots carry digest and size of every blob file, not its bytes
var verifLarge bool

func verifSnapshot(c *DiskCache, dir string, digests []Digest) map[string]any {
	blobs := map[string]string{}
	bsum := map[string]any{}
	ents, _ := os.ReadDir(filepath.Join(dir, "blobs"))
	for _, e := range ents {
		b, err := os.ReadFile(filepath.Join(dir, "blobs", e.Name()))
		if err == nil {
			if verifLarge {
				bsum[e.Name()] = []any{fmt.Sprintf("%x", sha256.Sum256(b)), len(b)}
			} else {
				blobs[e.Name()] = hex.EncodeToString(b)
			}
		}
	}
	links := map[string]string{}
	root := filepath.Join(dir, "manifests")
	filepath.WalkDir(root, func(p string, d fs.DirEntry, err error) error {
		if err != nil || d.IsDir() {
			return nil
		}
		b, err := os.ReadFile(p)
		if err == nil {
			rel, _ := filepath.Rel(root, p)
			links[filepath.ToSlash(rel)] = hex.EncodeToString(b)
		}
		return nil
	})
	// files that are neither under blobs/ nor under manifests/ (a manifest written through a ".." part lands here)
	stray := []string{}
	filepath.WalkDir(dir, func(p string, d fs.DirEntry, err error) error {
		if err != nil || d.IsDir() {
			return nil
		}
		rel, _ := filepath.Rel(dir, p)
		rel = filepath.ToSlash(rel)
		if !strings.HasPrefix(rel, "blobs/") && !strings.HasPrefix(rel, "manifests/") {
			stray = append(stray, rel)
		}
		return nil
	})
	gets := map[string]int64{}
	for _, d := range digests {
		e, err := c.Get(d)
		if err != nil {
			gets[fmt.Sprintf("%x", d.sum[:])] = -1
		} else {
			gets[fmt.Sprintf("%x", d.sum[:])] = e.Size
		}
	}
	var names []string
	for n, err := range c.Links() {
		if err != nil {
			names = append(names, "!"+err.Error())
			break
		}
		names = append(names, n)
	}
	return map[string]any{"blobs": blobs, "bsum": bsum, "links": links, "gets": gets, "names": names, "stray": stray}
}

// verifProbe resolves every name of the case without side effects (manifestPath + readAndSum, i.e. Resolve without the
// PutBytes): the digest a Resolve would return now, or "" if it would fail.
func verifProbe(c *DiskCache, names []any) map[string]string {
	out := map[string]string{}
	for _, x := range names {
		n, _ := x.(string)
		file, err := c.manifestPath(n)
		if err != nil {
			out[n] = ""
			continue
		}
		_, d, err := readAndSum(file, 1<<20)
		if err != nil {
			out[n] = ""
			continue
		}
		out[n] = fmt.Sprintf("%x", d.sum[:])
	}
	return out
}

func verifDigests(c map[string]any) []Digest {
	l, _ := c["digests"].([]any)
	var out []Digest
	for _, x := range l {
		out = append(out, verifDigest(x))
	}
	return out
}

// VerifC08 runs one case against the real implementation.
func VerifC08(c map[string]any) any {
	switch c["kind"] {
	case "hist":
		return verifHist(c)
	case "conc":
		return verifConc(c)
	}
	return map[string]any{"harness_error": "unknown kind"}
}

func verifOp(c *DiskCache, dir string, op map[string]any) map[string]any {
	switch op["op"] {
	case "put":
		d := verifDigest(op["d"])
		size := int64(op["size"].(float64))
		rds := verifReads(op["src"])
		if _, ok := op["wcrash"].(float64); ok {
			return verifChildPut(dir, op)
		}
		if k, ok := op["crash"].(float64); ok {
			if int(k) == 0 {
				return map[string]any{"kind": "crashed"}
			}
			return verifChildPut(dir, op)
		}
		if b, _ := op["bytes"].(bool); b {
			var data []byte
			if len(rds) > 0 {
				data = rds[0].data
			}
			return verifRes(c.Put(d, bytes.NewReader(data), size))
		}
		r := &verifReader{rds: rds}
		res := verifRes(c.Put(d, r, size))
		res["reads"] = r.Sizes
		return res
	case "import":
		size := int64(op["size"].(float64))
		d, err := c.Import(&verifReader{rds: verifReads(op["src"])}, size)
		if err != nil {
			return verifRes(err)
		}
		return map[string]any{"kind": "digest", "d": fmt.Sprintf("%x", d.sum[:])}
	case "get":
		e, err := c.Get(verifDigest(op["d"]))
		if err != nil {
			return verifRes(err)
		}
		return map[string]any{"kind": "size", "n": e.Size}
	case "link":
		name, _ := op["name"].(string)
		return verifRes(c.Link(name, verifDigest(op["d"])))
	case "unlink":
		name, _ := op["name"].(string)
		ok, err := c.Unlink(name)
		if err != nil {
			return verifRes(err)
		}
		return map[string]any{"kind": "bool", "b": ok}
	case "resolve":
		name, _ := op["name"].(string)
		d, err := c.Resolve(name)
		if err != nil {
			return verifRes(err)
		}
		return map[string]any{"kind": "digest", "d": fmt.Sprintf("%x", d.sum[:])}
	case "chunked":
		// DiskCache.Chunked + Chunker.Put per chunk (+ Commit): the other writer of blob files (chunked.go)
		d := verifDigest(op["d"])
		size := int64(op["size"].(float64))
		ch, err := c.Chunked(d, size)
		if err != nil {
			return verifRes(err)
		}
		defer ch.Close()
		var perrs []string
		cl, _ := op["chunks"].([]any)
		for _, x := range cl {
			m, _ := x.(map[string]any)
			start := int64(m["start"].(float64))
			ln := int64(m["len"].(float64))
			err := ch.Put(Chunk{Start: start, End: start + ln - 1}, verifDigest(m["d"]), &verifReader{rds: verifReads(m["src"])})
			perrs = append(perrs, verifErrClass(err))
		}
		res := map[string]any{"kind": "ok", "puts": perrs}
		if cm, _ := op["commit"].(bool); cm {
			if err := ch.Commit(); err != nil {
				res = map[string]any{"kind": "err", "err": "commit", "msg": err.Error(), "puts": perrs}
			}
		}
		return res
	case "raw":
		p, _ := op["path"].(string)
		data, _ := hex.DecodeString(op["data"].(string))
		full := filepath.Join(dir, "manifests", filepath.FromSlash(p))
		os.MkdirAll(filepath.Dir(full), 0o777)
		if err := os.WriteFile(full, data, 0o666); err != nil {
			return verifRes(err)
		}
		return map[string]any{"kind": "ok"}
	}
	return map[string]any{"kind": "harness_error", "msg": "unknown op"}
}

// verifOddDir: the cache directory gets the (odd but legal) name the case asks for, inside the temporary directory
func verifOddDir(c map[string]any, dir string) (string, error) {
	if n, ok := c["dirname"].(string); ok && n != "" {
		dir = filepath.Join(dir, n)
		if err := os.MkdirAll(dir, 0o777); err != nil {
			return "", err
		}
	}
	return dir, nil
}

func verifHist(c map[string]any) any {
	dir, err := os.MkdirTemp("", "c08-")
	if err != nil {
		return map[string]any{"harness_error": err.Error()}
	}
	defer os.RemoveAll(dir)
	if dir, err = verifOddDir(c, dir); err != nil {
		return map[string]any{"harness_error": err.Error()}
	}
	verifLarge, _ = c["large"].(bool)
	defer func() { verifLarge = false }()
	cache, err := Open(dir)
	if err != nil {
		return map[string]any{"harness_error": err.Error()}
	}
	digests := verifDigests(c)
	ops, _ := c["ops"].([]any)
	// the cache's clock (DiskCache.now, which stamps every file the cache writes): "frozen" = one instant for the whole
	// history (as the package's own tests do), "coarse" = advances by one second every third operation, else the real clock
	frozen := time.Date(2021, 1, 1, 0, 0, 0, 0, time.UTC)
	opno := 0
	switch c["clock"] {
	case "frozen":
		cache.now = func() time.Time { return frozen }
	case "coarse":
		cache.now = func() time.Time { return frozen.Add(time.Duration(opno/3) * time.Second) }
	}
	var steps []any
	for _, o := range ops {
		opno++
		op, _ := o.(map[string]any)
		res := verifOp(cache, dir, op)
		snap := verifSnapshot(cache, dir, digests)
		if pn, ok := c["probe"].([]any); ok {
			snap["probe"] = verifProbe(cache, pn)
		}
		steps = append(steps, map[string]any{"res": res, "snap": snap})
	}
	return map[string]any{"steps": steps}
}

// VerifC08Child is the body of the crash-injection child process: it performs one Put whose source kills the
// process (SIGKILL, no deferred function runs) when its k-th Read begins.
func VerifC08Child() {
	var in struct {
		Dir string
		Op  map[string]any
	}
	if err := json.NewDecoder(os.Stdin).Decode(&in); err != nil {
		fmt.Println(`{"kind":"harness_error","msg":"child decode"}`)
		os.Exit(0)
	}
	cache, err := Open(in.Dir)
	if err != nil {
		fmt.Println(`{"kind":"harness_error","msg":"child open"}`)
		os.Exit(0)
	}
	if wk, ok := in.Op["wcrash"].(float64); ok {
		wt := &verifWriterTo{killAfter: int(wk)}
		for _, x := range verifReads(in.Op["src"]) {
			if len(x.data) > 0 {
				wt.chunks = append(wt.chunks, x.data)
			}
		}
		res := verifRes(cache.Put(verifDigest(in.Op["d"]), wt, int64(in.Op["size"].(float64))))
		json.NewEncoder(os.Stdout).Encode(res)
		os.Exit(0)
	}
	k := int(in.Op["crash"].(float64))
	r := &verifReader{rds: verifReads(in.Op["src"]), before: func(call int) error {
		if call == k {
			syscall.Kill(os.Getpid(), syscall.SIGKILL)
			time.Sleep(10 * time.Second)
		}
		return nil
	}}
	res := verifRes(cache.Put(verifDigest(in.Op["d"]), r, int64(in.Op["size"].(float64))))
	json.NewEncoder(os.Stdout).Encode(res)
	os.Exit(0)
}

func verifChildPut(dir string, op map[string]any) map[string]any {
	cmd := exec.Command(os.Args[0])
	cmd.Env = append(os.Environ(), "VERIF_C08_CHILD=1")
	in, _ := json.Marshal(map[string]any{"Dir": dir, "Op": op})
	cmd.Stdin = bytes.NewReader(in)
	var out bytes.Buffer
	cmd.Stdout = &out
	err := cmd.Run()
	if err != nil {
		var ee *exec.ExitError
		if errors.As(err, &ee) {
			if ws, ok := ee.Sys().(syscall.WaitStatus); ok && ws.Signaled() && ws.Signal() == syscall.SIGKILL {
				return map[string]any{"kind": "crashed"}
			}
		}
		return map[string]any{"kind": "harness_error", "msg": "child: " + err.Error() + " " + out.String()}
	}
	var res map[string]any
	if err := json.Unmarshal(out.Bytes(), &res); err != nil {
		return map[string]any{"kind": "harness_error", "msg": "child output: " + out.String()}
	}
	return res
}

// ---- concurrent writers under a deterministic scheduler

type verifEvent struct {
	blocked bool
	err     error
}

type verifWriter struct {
	ev      chan verifEvent
	release chan bool // true = go on, false = abort
	started bool
	done    bool
	status  string
}

func verifConc(c map[string]any) any {
	dir, err := os.MkdirTemp("", "c08c-")
	if err != nil {
		return map[string]any{"harness_error": err.Error()}
	}
	defer os.RemoveAll(dir)
	if dir, err = verifOddDir(c, dir); err != nil {
		return map[string]any{"harness_error": err.Error()}
	}
	cache, err := Open(dir)
	if err != nil {
		return map[string]any{"harness_error": err.Error()}
	}
	d := verifDigest(c["d"])
	if f0, ok := c["f0"].(string); ok {
		b, _ := hex.DecodeString(f0)
		os.WriteFile(cache.GetFile(d), b, 0o666)
	}
	wl, _ := c["writers"].([]any)
	ws := make([]*verifWriter, len(wl))
	for i := range wl {
		ws[i] = &verifWriter{ev: make(chan verifEvent), release: make(chan bool), status: "new"}
	}
	start := func(i int) {
		w := ws[i]
		spec, _ := wl[i].(map[string]any)
		r := &verifReader{rds: verifReads(spec["src"]), before: func(int) error {
			w.ev <- verifEvent{blocked: true}
			if !<-w.release {
				return errors.New("verif: aborted")
			}
			return nil
		}}
		size := int64(spec["size"].(float64))
		go func() {
			err := cache.Put(d, r, size)
			w.ev <- verifEvent{err: err}
		}()
	}
	wait := func(i int) {
		w := ws[i]
		select {
		case e := <-w.ev:
			if e.blocked {
				w.status = "copy"
			} else {
				w.done = true
				if e.err == nil {
					w.status = "ok"
				} else {
					w.status = "err:" + verifErrClass(e.err)
				}
			}
		case <-time.After(10 * time.Second):
			w.done = true
			w.status = "stuck"
		}
	}
	var steps []any
	sched, _ := c["sched"].([]any)
	for _, s := range sched {
		i := int(s.(float64))
		if i >= 0 && i < len(ws) {
			w := ws[i]
			if !w.started {
				w.started = true
				start(i)
				wait(i)
			} else if !w.done {
				w.release <- true
				wait(i)
			}
		}
		var fo any
		if b, err := os.ReadFile(cache.GetFile(d)); err == nil {
			fo = hex.EncodeToString(b)
		}
		sts := make([]string, len(ws))
		for j, w := range ws {
			sts[j] = w.status
		}
		size := int64(-1)
		if e, err := cache.Get(d); err == nil {
			size = e.Size
		}
		steps = append(steps, map[string]any{"file": fo, "st": sts, "get": size})
	}
	// let the abandoned writers go (they fail with an abort error; the directory is discarded)
	for _, w := range ws {
		if w.started && !w.done {
			w.release <- false
			<-w.ev
		}
	}
	return map[string]any{"steps": steps}
}
