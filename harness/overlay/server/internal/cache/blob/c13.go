//go:build verif

package blob

import (
	"time"

	"github.com/ollama/ollama/server/internal/internal/names"
)

// C13 harness exports: the real, unexported path functions of the blob cache and (because package names is
// only importable below server/internal) the name parser of package names.

type VerifC13Name struct {
	H, N, M, T string
	Valid, FQ  bool
	Str        string
}

func VerifC13NamesParse(s string) VerifC13Name {
	n := names.Parse(s)
	return VerifC13Name{H: n.Host(), N: n.Namespace(), M: n.Model(), T: n.Tag(), Valid: n.IsValid(), FQ: n.IsFullyQualified(), Str: n.String()}
}

func VerifC13NamesValidPart(kind int, s string) bool { return names.VerifC13IsValidPart(kind, s) }

func VerifC13NameToPath(name string) (string, error) { return nameToPath(name) }

func verifC13Cache(dir string) *DiskCache { return &DiskCache{dir: dir, now: time.Now} }

// VerifC13ManifestPath runs the real manifestPath of a cache rooted at dir (no Open: nothing is created).
func VerifC13ManifestPath(dir, name string) (string, error) { return verifC13Cache(dir).manifestPath(name) }

// VerifC13Links returns what c.links() yields, in its order.
func VerifC13Links(dir string) ([]string, error) {
	var out []string
	for l, err := range verifC13Cache(dir).links() {
		if err != nil {
			return nil, err
		}
		out = append(out, l)
	}
	return out, nil
}

func VerifC13GetFile(dir string, d Digest) string { return verifC13Cache(dir).GetFile(d) }

func VerifC13SplitNameDigest(s string) (string, string) { return splitNameDigest(s) }
