//go:build verif

package blob

import (
	"crypto/sha256"
	"encoding/hex"
	"errors"
	"io/fs"
	"os"
	"path/filepath"
	"time"

	"github.com/ollama/ollama/server/internal/internal/names"
)

// C13 harness exports: the real, unexported path functions of the blob cache and (because package names is
// only importable below server/internal) the name parser of package names.

type VerifC13Name struct {
	H, N, M, T string
	Valid, FQ  bool
	Str        string
}

func VerifC13NamesParse(s string) VerifC13Name {
	n := names.Parse(s)
	return VerifC13Name{H: n.Host(), N: n.Namespace(), M: n.Model(), T: n.Tag(), Valid: n.IsValid(), FQ: n.IsFullyQualified(), Str: n.String()}
}

func VerifC13NamesValidPart(kind int, s string) bool { return names.VerifC13IsValidPart(kind, s) }

func VerifC13NameToPath(name string) (string, error) { return nameToPath(name) }

func verifC13Cache(dir string) *DiskCache { return &DiskCache{dir: dir, now: time.Now} }

// VerifC13ManifestPath runs the real manifestPath of a cache rooted at dir (no Open: nothing is created).
func VerifC13ManifestPath(dir, name string) (string, error) { return verifC13Cache(dir).manifestPath(name) }

// VerifC13Links returns what c.links() yields, in its order.
func VerifC13Links(dir string) ([]string, error) {
	var out []string
	for l, err := range verifC13Cache(dir).links() {
		if err != nil {
			return nil, err
		}
		out = append(out, l)
	}
	return out, nil
}

func VerifC13GetFile(dir string, d Digest) string { return verifC13Cache(dir).GetFile(d) }

func VerifC13SplitNameDigest(s string) (string, string) { return splitNameDigest(s) }

// ---- histories on ONE long-lived DiskCache whose directory is also written directly (C13 cachehist)

type VerifC13HOp struct {
	Op, Name, Path string
	Data           []byte
}

type VerifC13HObs struct {
	Code   int
	Err    string
	Digest string
	Ok     bool
	Links  []string
	Sums   []string
}

func verifC13Code(err error) (int, string) {
	switch {
	case err == nil:
		return 0, ""
	case errors.Is(err, errInvalidName):
		return 3, ""
	case errors.Is(err, fs.ErrNotExist):
		return 1, ""
	}
	return 8, err.Error()
}

// VerifC13History opens a real cache with Open(dir) and runs the operations on that one instance; after every
// operation the directory is listed by a fresh, stateless observer (links() of a new DiskCache value).
func VerifC13History(dir string, ops []VerifC13HOp) ([]VerifC13HObs, error) {
	c, err := Open(dir)
	if err != nil {
		return nil, err
	}
	var out []VerifC13HObs
	for _, op := range ops {
		var o VerifC13HObs
		switch op.Op {
		case "link":
			d := DigestFromBytes(op.Data)
			if err := PutBytes(c, d, op.Data); err != nil {
				return nil, err
			}
			o.Code, o.Err = verifC13Code(c.Link(op.Name, d))
		case "resolve":
			d, err := c.Resolve(op.Name)
			o.Code, o.Err = verifC13Code(err)
			if err == nil {
				o.Digest = hex.EncodeToString(d.sum[:])
			}
		case "unlink":
			ok, err := c.Unlink(op.Name)
			o.Code, o.Err = verifC13Code(err)
			o.Ok = ok
		case "plant":
			p := filepath.Join(dir, op.Path)
			if err := os.MkdirAll(filepath.Dir(p), 0o777); err != nil {
				return nil, err
			}
			if err := os.WriteFile(p, op.Data, 0o666); err != nil {
				return nil, err
			}
		case "remove":
			os.Remove(filepath.Join(dir, op.Path))
		}
		// independent of the code under test and of the directory's name: never a pattern built from dir
		ls, err := fs.Glob(os.DirFS(dir), "manifests/*/*/*/*")
		if err != nil {
			return nil, err
		}
		for _, l := range ls {
			data, _ := os.ReadFile(filepath.Join(dir, l))
			sum := sha256.Sum256(data)
			o.Links = append(o.Links, l)
			o.Sums = append(o.Sums, hex.EncodeToString(sum[:]))
		}
		out = append(out, o)
	}
	return out, nil
}
