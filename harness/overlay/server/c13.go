//go:build verif

package server

import (
	"github.com/ollama/ollama/types/model"

	"github.com/ollama/ollama/server/internal/cache/blob"
	"github.com/ollama/ollama/server/internal/client/ollama"
)

// C13 harness: re-exports of internal packages (server/internal/... cannot be imported by the external harness).

type VerifC13Name = blob.VerifC13Name
type VerifC13Ext = ollama.VerifC13Ext

func VerifC13NamesParse(s string) VerifC13Name              { return blob.VerifC13NamesParse(s) }
func VerifC13NamesValidPart(kind int, s string) bool        { return blob.VerifC13NamesValidPart(kind, s) }
func VerifC13NameToPath(name string) (string, error)        { return blob.VerifC13NameToPath(name) }
func VerifC13ManifestPath(dir, name string) (string, error) { return blob.VerifC13ManifestPath(dir, name) }
func VerifC13Links(dir string) ([]string, error)            { return blob.VerifC13Links(dir) }
func VerifC13SplitNameDigest(s string) (string, string)     { return blob.VerifC13SplitNameDigest(s) }
func VerifC13SplitExtended(s string) (string, string, string) {
	return ollama.VerifC13SplitExtended(s)
}
func VerifC13ParseNameExtended(mask, s string) VerifC13Ext { return ollama.VerifC13ParseNameExtended(mask, s) }
func VerifC13CompleteName(s string) string                 { return ollama.CompleteName(s) }

// VerifC13ParseDigest: blob.ParseDigest; the sum and, when valid, DiskCache.GetFile for a cache rooted at dir.
func VerifC13ParseDigest(dir, s string) (sum [32]byte, file string, err error) {
	d, err := blob.ParseDigest(s)
	if err != nil {
		return sum, "", err
	}
	return d.Sum(), blob.VerifC13GetFile(dir, d), nil
}

// VerifC13GetExistingName calls the real, unexported getExistingName (legacy case-insensitive lookup).
func VerifC13GetExistingName(n model.Name) (model.Name, error) { return getExistingName(n) }

type VerifC13HOp = blob.VerifC13HOp
type VerifC13HObs = blob.VerifC13HObs

// VerifC13History runs a history on one real blob.DiskCache (see the blob overlay).
func VerifC13History(dir string, ops []VerifC13HOp) ([]VerifC13HObs, error) {
	return blob.VerifC13History(dir, ops)
}
