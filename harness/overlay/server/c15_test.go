//go:build verif

package server

// C15 dynamic support (not a proof): drives the REAL router, handlers and scheduler of this package with mock
// runners under the Go race detector.  One JSON case per line in $C15_CASES, one JSON observation per line in
// $C15_OUT.  A case is a set of workers, each a list of HTTP requests, executed concurrently against one server.

import (
	"bufio"
	"bytes"
	"context"
	"crypto/sha256"
	"encoding/json"
	"fmt"
	"io"
	"net"
	"net/http"
	"net/http/httptest"
	"os"
	"path/filepath"
	"strconv"
	"strings"
	"sync"
	"sync/atomic"
	"testing"
	"time"

	"github.com/gin-gonic/gin"

	"github.com/ollama/ollama/api"
	"github.com/ollama/ollama/discover"
	"github.com/ollama/ollama/fs/ggml"
	"github.com/ollama/ollama/llm"
)

type c15Req struct {
	Method  string          `json:"method"`
	Path    string          `json:"path"`
	Body    json.RawMessage `json:"body,omitempty"`
	PauseUs int             `json:"pause_us,omitempty"`
	Raw     string          `json:"raw,omitempty"` // raw request body (blob upload)
	CancelUs int            `json:"cancel_us,omitempty"` // the client gives up (closes the connection) after this long
}

// fake registry + CDN for pull/push histories: models reg.test/library/p<i> = one shared layer + one own layer
type c15RegSpec struct {
	Models   int `json:"models"`
	LayerKB  int `json:"layer_kb"`
	HeadUs   int `json:"head_us"`  // latency of HEAD/manifest requests (widens the Prepare window)
	ChunkUs  int `json:"chunk_us"` // latency before a blob body is served
}

type c15Registry struct {
	spec     c15RegSpec
	blobs    map[string][]byte // digest -> content
	manifest map[string][]byte // repo -> manifest json
	cdnURL   string
	mu       sync.Mutex
	uploads  map[string]*bytes.Buffer
	pushed   map[string]int
}

func c15Digest(b []byte) string { return fmt.Sprintf("sha256:%x", sha256.Sum256(b)) }

func newC15Registry(spec c15RegSpec) *c15Registry {
	r := &c15Registry{spec: spec, blobs: map[string][]byte{}, manifest: map[string][]byte{}, uploads: map[string]*bytes.Buffer{}, pushed: map[string]int{}}
	shared := bytes.Repeat([]byte("shared-layer-0123456789abcdef"), spec.LayerKB*1024/29+1)
	r.blobs[c15Digest(shared)] = shared
	for i := 0; i < spec.Models; i++ {
		own := bytes.Repeat([]byte(fmt.Sprintf("own-%d-", i)), 4000)
		cfg := []byte(fmt.Sprintf(`{"model_format":"gguf","model_family":"test","n":%d}`, i))
		r.blobs[c15Digest(own)], r.blobs[c15Digest(cfg)] = own, cfg
		m := map[string]any{"schemaVersion": 2, "mediaType": "application/vnd.docker.distribution.manifest.v2+json",
			"config": map[string]any{"mediaType": "application/vnd.docker.container.image.v1+json", "digest": c15Digest(cfg), "size": len(cfg)},
			"layers": []map[string]any{
				{"mediaType": "application/vnd.ollama.image.license", "digest": c15Digest(shared), "size": len(shared)},
				{"mediaType": "application/vnd.ollama.image.license", "digest": c15Digest(own), "size": len(own)}}}
		r.manifest[fmt.Sprintf("library/p%d", i)], _ = json.Marshal(m)
	}
	return r
}

func (r *c15Registry) sleep(us int) {
	if us > 0 {
		time.Sleep(time.Duration(us) * time.Microsecond)
	}
}

// registry API (reached through testMakeRequestDialContext, whatever the host name)
func (r *c15Registry) serveRegistry(w http.ResponseWriter, q *http.Request) {
	p := strings.TrimPrefix(q.URL.Path, "/v2/")
	switch {
	case strings.Contains(p, "/manifests/"):
		repo := p[:strings.Index(p, "/manifests/")]
		if q.Method == http.MethodPut {
			io.Copy(io.Discard, q.Body)
			r.mu.Lock()
			r.pushed[repo]++
			r.mu.Unlock()
			w.WriteHeader(http.StatusCreated)
			return
		}
		r.sleep(r.spec.HeadUs)
		m, ok := r.manifest[repo]
		if !ok {
			http.NotFound(w, q)
			return
		}
		w.Header().Set("Content-Type", "application/vnd.docker.distribution.manifest.v2+json")
		w.Write(m)
	case strings.Contains(p, "/blobs/uploads/"):
		// start of an upload session
		r.mu.Lock()
		id := fmt.Sprintf("u%d", len(r.uploads))
		r.uploads[id] = &bytes.Buffer{}
		r.mu.Unlock()
		r.sleep(r.spec.HeadUs)
		w.Header().Set("Docker-Upload-Location", "http://reg.test/upload/"+id)
		w.WriteHeader(http.StatusAccepted)
	case strings.HasPrefix(q.URL.Path, "/upload/"):
		id := strings.TrimPrefix(q.URL.Path, "/upload/")
		body, _ := io.ReadAll(q.Body)
		r.mu.Lock()
		if b := r.uploads[id]; b != nil {
			b.Write(body)
		}
		r.mu.Unlock()
		r.sleep(r.spec.ChunkUs)
		if q.Method == http.MethodPut {
			w.WriteHeader(http.StatusCreated)
			return
		}
		w.Header().Set("Docker-Upload-Location", "http://reg.test/upload/"+id)
		w.WriteHeader(http.StatusAccepted)
	case strings.Contains(p, "/blobs/"):
		d := p[strings.Index(p, "/blobs/")+len("/blobs/"):]
		b, ok := r.blobs[d]
		if q.Method == http.MethodHead {
			r.sleep(r.spec.HeadUs)
			if !ok {
				http.NotFound(w, q)
				return
			}
			w.Header().Set("Content-Length", fmt.Sprint(len(b)))
			return
		}
		if !ok {
			http.NotFound(w, q)
			return
		}
		// like the real registry: redirect to a CDN on another host
		w.Header().Set("Location", r.cdnURL+"/blob/"+d)
		w.WriteHeader(http.StatusTemporaryRedirect)
	default:
		http.NotFound(w, q)
	}
}

func (r *c15Registry) serveCDN(w http.ResponseWriter, q *http.Request) {
	d := strings.TrimPrefix(q.URL.Path, "/blob/")
	b, ok := r.blobs[d]
	if !ok {
		http.NotFound(w, q)
		return
	}
	r.sleep(r.spec.ChunkUs)
	http.ServeContent(w, q, "", time.Time{}, bytes.NewReader(b))
}

type c15Case struct {
	ID        string     `json:"id"`
	Models    int        `json:"models"`
	MaxLoaded int        `json:"max_loaded"`
	GPU       string     `json:"gpu"` // "cpu" | "metal" | "metal2" (two GPUs)
	LoadUs    int        `json:"load_us"`
	CompUs    int        `json:"comp_us"`
	Workers   [][]c15Req `json:"workers"`
	Rounds    int        `json:"rounds"`
	Registry   *c15RegSpec `json:"registry,omitempty"`
	Setup      []c15Req  `json:"setup,omitempty"`    // run one after the other before the workers start (e.g. create sibling models)
	Baseline   bool      `json:"baseline"`           // first answer every distinct worker request once, sequentially (w = -1): the reference
	RealLLM    bool      `json:"real_llm"`  // runners are REAL llm.llmServer objects talking to a fake runner endpoint
	Parallel   int       `json:"parallel"`  // OLLAMA_NUM_PARALLEL (requests one runner serves concurrently)
	TimeoutMs  int       `json:"timeout_ms"`  // per request (default 3000)
	DeadlineMs int       `json:"deadline_ms"` // per case: workers stop issuing requests after it (default 15000)
}

type c15Resp struct {
	W      int      `json:"w"`
	I      int      `json:"i"`
	Path   string   `json:"path"`
	Code   int      `json:"code"`
	T0     int64    `json:"t0"`
	T1     int64    `json:"t1"`
	Models []string `json:"models,omitempty"` // for /api/ps
	Err    string   `json:"err,omitempty"`
	Integrity string `json:"integrity,omitempty"` // real_llm: did the request get exactly its own stream
	Key       string `json:"key,omitempty"`       // baseline cases: method path body
	Digest    string `json:"digest,omitempty"`    // baseline cases: what the answer says about the model (status, error text, capabilities)
}

// c15Digest: the part of an answer that must not depend on what other requests are doing
func c15AnswerDigest(path string, code int, body []byte) string {
	if code >= 400 {
		var e struct {
			Error string `json:"error"`
		}
		json.Unmarshal(body, &e)
		return fmt.Sprintf("%d %s", code, e.Error)
	}
	if path == "/api/show" {
		var sr struct {
			Capabilities []string `json:"capabilities"`
			Template     string   `json:"template"`
		}
		json.Unmarshal(body, &sr)
		return fmt.Sprintf("%d capabilities=%v template=%q", code, sr.Capabilities, sr.Template)
	}
	return fmt.Sprint(code)
}

type c15Life struct {
	Model   string `json:"model"`
	Created int64  `json:"created"`
	Closed  int64  `json:"closed"` // 0 = still open
	UseAfterClose int `json:"use_after_close"`
}

type c15Obs struct {
	ID       string    `json:"id"`
	Resps    []c15Resp `json:"resps"`
	Lives    []c15Life `json:"lives"`
	Recovery string    `json:"recovery,omitempty"` // what gin's Recovery middleware logged (recovered panics)
	Setup    string    `json:"setup,omitempty"`
	Blobs    []string  `json:"blobs"` // blob file name of model m<i>
	Skipped  int       `json:"skipped"` // requests not issued because the case deadline passed (a stall: liveness, not C15)
}

var c15Epoch = time.Now()

func c15Now() int64 { return int64(time.Since(c15Epoch)) }

type c15Mock struct {
	model   string
	created int64
	closed  atomic.Int64
	uac     atomic.Int32
	loadD   time.Duration
	compD   time.Duration
}

func (m *c15Mock) use() {
	if m.closed.Load() != 0 {
		m.uac.Add(1)
	}
}
func (m *c15Mock) Ping(ctx context.Context) error { m.use(); return nil }
func (m *c15Mock) WaitUntilRunning(ctx context.Context) error {
	select {
	case <-time.After(m.loadD):
		return nil
	case <-ctx.Done():
		return ctx.Err()
	}
}
func (m *c15Mock) Completion(ctx context.Context, req llm.CompletionRequest, fn func(llm.CompletionResponse)) error {
	m.use()
	time.Sleep(m.compD)
	fn(llm.CompletionResponse{Content: "ok", Done: true, DoneReason: llm.DoneReasonStop, PromptEvalCount: 1, PromptEvalDuration: 1, EvalCount: 1, EvalDuration: 1})
	return nil
}
func (m *c15Mock) Embedding(ctx context.Context, input string) ([]float32, error) {
	m.use()
	return []float32{0.5, 0.5}, nil
}
func (m *c15Mock) Tokenize(ctx context.Context, content string) ([]int, error) {
	var t []int
	for range strings.Fields(content) {
		t = append(t, len(t))
	}
	return t, nil
}
func (m *c15Mock) Detokenize(ctx context.Context, tokens []int) (string, error) { return "", nil }
func (m *c15Mock) Close() error {
	m.closed.CompareAndSwap(0, c15Now())
	return nil
}
func (m *c15Mock) EstimatedVRAM() uint64                  { return 1 << 20 }
func (m *c15Mock) EstimatedTotal() uint64                 { return 1 << 20 }
func (m *c15Mock) EstimatedVRAMByGPU(gpuID string) uint64 { return 1 << 20 }

type c15Buf struct {
	mu sync.Mutex
	b  bytes.Buffer
}

func (b *c15Buf) Write(p []byte) (int, error) { b.mu.Lock(); defer b.mu.Unlock(); return b.b.Write(p) }
func (b *c15Buf) String() string              { b.mu.Lock(); defer b.mu.Unlock(); return b.b.String() }

func c15Gguf(i int) []byte {
	var buf bytes.Buffer
	f, _ := os.CreateTemp("", "c15gguf")
	defer os.Remove(f.Name())
	kv := ggml.KV{
		"general.architecture":          "llama",
		"general.name":                  fmt.Sprintf("c15-%d", i),
		"llama.block_count":             uint32(1),
		"llama.context_length":          uint32(8192),
		"llama.embedding_length":        uint32(4096),
		"llama.attention.head_count":    uint32(32),
		"llama.attention.head_count_kv": uint32(8),
		"tokenizer.ggml.tokens":         []string{""},
		"tokenizer.ggml.scores":         []float32{0},
		"tokenizer.ggml.token_type":     []int32{0},
	}
	var ts []ggml.Tensor
	for _, n := range []string{"token_embd.weight", "blk.0.attn_norm.weight", "blk.0.ffn_down.weight", "blk.0.ffn_gate.weight", "blk.0.ffn_up.weight",
		"blk.0.ffn_norm.weight", "blk.0.attn_k.weight", "blk.0.attn_output.weight", "blk.0.attn_q.weight", "blk.0.attn_v.weight", "output.weight"} {
		ts = append(ts, ggml.Tensor{Name: n, Shape: []uint64{1}, WriterTo: bytes.NewReader(make([]byte, 4))})
	}
	if err := ggml.WriteGGUF(f, kv, ts); err != nil {
		panic(err)
	}
	f.Seek(0, 0)
	io.Copy(&buf, f)
	f.Close()
	return buf.Bytes()
}

func c15Do(client *http.Client, base string, r c15Req) (int, []byte, error) {
	var body io.Reader
	if len(r.Body) > 0 {
		body = bytes.NewReader(r.Body)
	} else if r.Raw != "" {
		body = strings.NewReader(r.Raw)
	}
	ctx := context.Background()
	if r.CancelUs > 0 {
		var cancel context.CancelFunc
		ctx, cancel = context.WithTimeout(ctx, time.Duration(r.CancelUs)*time.Microsecond)
		defer cancel()
	}
	req, err := http.NewRequestWithContext(ctx, r.Method, base+r.Path, body)
	if err != nil {
		return 0, nil, err
	}
	req.Header.Set("Content-Type", "application/json")
	resp, err := client.Do(req)
	if err != nil {
		return 0, nil, err
	}
	defer resp.Body.Close()
	b, _ := io.ReadAll(resp.Body)
	return resp.StatusCode, b, nil
}

func c15Run(t *testing.T, c c15Case) c15Obs {
	obs := c15Obs{ID: c.ID}
	dir, err := os.MkdirTemp("", "c15models")
	if err != nil {
		t.Fatal(err)
	}
	defer os.RemoveAll(dir)
	t.Setenv("OLLAMA_MODELS", dir)
	t.Setenv("OLLAMA_MAX_LOADED_MODELS", fmt.Sprint(c.MaxLoaded))
	if c.Parallel < 1 {
		c.Parallel = 1
	}
	t.Setenv("OLLAMA_NUM_PARALLEL", fmt.Sprint(c.Parallel))
	rec := &c15Buf{}
	gin.SetMode(gin.TestMode)
	gin.DefaultWriter = io.Discard
	gin.DefaultErrorWriter = rec

	var mu sync.Mutex
	var mocks []*c15Mock
	ctx, cancel := context.WithCancel(context.Background())
	sched := InitScheduler(ctx)
	var fakeRunner *httptest.Server
	if c.RealLLM {
		fakeRunner = httptest.NewServer(llm.VerifFakeRunner(time.Duration(c.CompUs) * time.Microsecond))
		defer fakeRunner.Close()
	}
	sched.newServerFn = func(gpus discover.GpuInfoList, model string, f *ggml.GGML, adapters []string, projectors []string, opts api.Options, numParallel int) (llm.LlamaServer, error) {
		if c.RealLLM {
			_, portStr, _ := net.SplitHostPort(fakeRunner.Listener.Addr().String())
			port, _ := strconv.Atoi(portStr)
			return llm.VerifNewServer(port, numParallel, opts)
		}
		m := &c15Mock{model: model, created: c15Now(), loadD: time.Duration(c.LoadUs) * time.Microsecond, compD: time.Duration(c.CompUs) * time.Microsecond}
		mu.Lock()
		mocks = append(mocks, m)
		mu.Unlock()
		return m, nil
	}
	gpuFn := func() discover.GpuInfoList {
		switch c.GPU {
		case "cpu":
			g := discover.GpuInfo{Library: "cpu"}
			g.TotalMemory, g.FreeMemory = 64<<30, 64<<30
			return discover.GpuInfoList{g}
		case "metal2":
			a := discover.GpuInfo{Library: "metal", ID: "0"}
			a.TotalMemory, a.FreeMemory = 64<<30, 64<<30
			b := discover.GpuInfo{Library: "metal", ID: "1"}
			b.TotalMemory, b.FreeMemory = 64<<30, 64<<30
			return discover.GpuInfoList{a, b}
		}
		g := discover.GpuInfo{Library: "metal", ID: "0"}
		g.TotalMemory, g.FreeMemory = 64<<30, 64<<30
		return discover.GpuInfoList{g}
	}
	sched.getGpuFn, sched.getCpuFn = gpuFn, gpuFn
	sched.reschedDelay = 2 * time.Millisecond
	if c.Registry != nil {
		reg := newC15Registry(*c.Registry)
		regSrv := httptest.NewServer(http.HandlerFunc(reg.serveRegistry))
		cdnSrv := httptest.NewServer(http.HandlerFunc(reg.serveCDN))
		defer regSrv.Close()
		defer cdnSrv.Close()
		reg.cdnURL = cdnSrv.URL
		c15RegAddr.Store(regSrv.Listener.Addr().String())
	}
	s := &Server{sched: sched}
	router, err := s.GenerateRoutes(nil)
	if err != nil {
		t.Fatal(err)
	}
	sched.Run(ctx)
	hs := httptest.NewServer(router)
	if c.TimeoutMs <= 0 {
		c.TimeoutMs = 3000
	}
	if c.DeadlineMs <= 0 {
		c.DeadlineMs = 15000
	}
	client := &http.Client{Timeout: time.Duration(c.TimeoutMs) * time.Millisecond}
	deadline := time.Now().Add(time.Duration(c.DeadlineMs) * time.Millisecond)
	var skipped atomic.Int32

	// set-up through the API itself: upload one GGUF blob per model, create the models
	for i := 0; i < c.Models; i++ {
		g := c15Gguf(i)
		digest := fmt.Sprintf("sha256:%x", sha256.Sum256(g))
		req, _ := http.NewRequest("POST", hs.URL+"/api/blobs/"+digest, bytes.NewReader(g))
		resp, err := client.Do(req)
		if err != nil || resp.StatusCode != http.StatusCreated {
			obs.Setup += fmt.Sprintf("blob %d: %v %v; ", i, err, resp)
			continue
		}
		resp.Body.Close()
		obs.Blobs = append(obs.Blobs, strings.Replace(digest, ":", "-", 1))
		body, _ := json.Marshal(map[string]any{"model": fmt.Sprintf("m%d", i), "files": map[string]string{"f.gguf": digest}, "stream": false})
		code, b, err := c15Do(client, hs.URL, c15Req{Method: "POST", Path: "/api/create", Body: body})
		if err != nil || code != 200 {
			obs.Setup += fmt.Sprintf("create %d: %d %s %v; ", i, code, b, err)
		}
	}

	for i, r := range c.Setup {
		code, b, err := c15Do(client, hs.URL, r)
		if err != nil || code >= 400 {
			obs.Setup += fmt.Sprintf("setup %d %s: %d %s %v; ", i, r.Path, code, b, err)
		}
	}
	if c.Baseline {
		seen := map[string]bool{}
		for _, w := range c.Workers {
			for _, r := range w {
				key := r.Method + " " + r.Path + " " + string(r.Body)
				if seen[key] {
					continue
				}
				seen[key] = true
				code, b, _ := c15Do(client, hs.URL, r)
				obs.Resps = append(obs.Resps, c15Resp{W: -1, Path: r.Method + " " + r.Path, Code: code, Key: key, Digest: c15AnswerDigest(r.Path, code, b)})
			}
		}
	}

	var respMu sync.Mutex
	rounds := c.Rounds
	if rounds < 1 {
		rounds = 1
	}
	for round := 0; round < rounds; round++ {
		var wg sync.WaitGroup
		start := make(chan struct{})
		for wi, w := range c.Workers {
			wg.Add(1)
			go func(wi int, w []c15Req) {
				defer wg.Done()
				<-start
				for i, r := range w {
					if time.Now().After(deadline) {
						skipped.Add(1)
						continue
					}
					if r.PauseUs > 0 {
						time.Sleep(time.Duration(r.PauseUs) * time.Microsecond)
					}
					t0 := c15Now()
					code, b, err := c15Do(client, hs.URL, r)
					o := c15Resp{W: wi, I: i + round*1000, Path: r.Method + " " + r.Path, Code: code, T0: t0, T1: c15Now()}
					if err != nil {
						o.Err = err.Error()
					}
					if c.Baseline && err == nil {
						o.Key = r.Method + " " + r.Path + " " + string(r.Body)
						o.Digest = c15AnswerDigest(r.Path, code, b)
					}
					if r.Path == "/api/ps" && code == 200 {
						var pr api.ProcessResponse
						if json.Unmarshal(b, &pr) == nil {
							o.Models = []string{}
							for _, m := range pr.Models {
								o.Models = append(o.Models, m.Name)
							}
						}
					} else if code >= 500 {
						o.Err = string(b)
					}
					if c.RealLLM && code == 200 && r.Path == "/api/generate" {
						var rq struct {
							Prompt string `json:"prompt"`
						}
						var rs struct {
							Response string `json:"response"`
						}
						json.Unmarshal(r.Body, &rq)
						if rq.Prompt != "" {
							if json.Unmarshal(b, &rs) != nil {
								o.Integrity = "mismatch: response is not JSON: " + string(b[:min(len(b), 120)])
							} else if want := llm.VerifExpected(rq.Prompt); rs.Response != want {
								k := 0
								for k < len(want) && k < len(rs.Response) && want[k] == rs.Response[k] {
									k++
								}
								o.Integrity = fmt.Sprintf("mismatch: the response is not this request's stream: differs at byte %d of %d/%d", k, len(rs.Response), len(want))
							} else {
								o.Integrity = "ok"
							}
						}
					}
					respMu.Lock()
					obs.Resps = append(obs.Resps, o)
					respMu.Unlock()
				}
			}(wi, w)
		}
		close(start)
		wg.Wait()
	}
	obs.Skipped = int(skipped.Load())
	hs.CloseClientConnections()
	go hs.Close() // may block on handlers stuck behind a scheduler stall
	cancel()
	time.Sleep(5 * time.Millisecond)
	done := make(chan struct{})
	go func() { sched.unloadAllRunners(); close(done) }() // blocks for ever if the scheduler is deadlocked
	select {
	case <-done:
	case <-time.After(300 * time.Millisecond):
		obs.Setup += "unloadAllRunners did not return (scheduler stalled); "
	}
	mu.Lock()
	for _, m := range mocks {
		obs.Lives = append(obs.Lives, c15Life{Model: filepath.Base(m.model), Created: m.created, Closed: m.closed.Load(), UseAfterClose: int(m.uac.Load())})
	}
	mu.Unlock()
	obs.Recovery = rec.String()
	if len(obs.Recovery) > 6000 {
		obs.Recovery = obs.Recovery[:6000]
	}
	return obs
}

var c15RegAddr atomic.Value // address of the current case's fake registry

func TestVerifC15(t *testing.T) {
	in, out := os.Getenv("C15_CASES"), os.Getenv("C15_OUT")
	if in == "" || out == "" {
		t.Skip("C15_CASES / C15_OUT not set")
	}
	// set once, before any server goroutine exists (the hook is a plain package variable)
	c15RegAddr.Store("127.0.0.1:1")
	testMakeRequestDialContext = func(ctx context.Context, network, _ string) (net.Conn, error) {
		var d net.Dialer
		return d.DialContext(ctx, network, c15RegAddr.Load().(string))
	}
	f, err := os.Open(in)
	if err != nil {
		t.Fatal(err)
	}
	defer f.Close()
	of, err := os.Create(out)
	if err != nil {
		t.Fatal(err)
	}
	defer of.Close()
	sc := bufio.NewScanner(f)
	sc.Buffer(make([]byte, 1<<20), 1<<26)
	for sc.Scan() {
		line := strings.TrimSpace(sc.Text())
		if line == "" {
			continue
		}
		var c c15Case
		if err := json.Unmarshal([]byte(line), &c); err != nil {
			t.Fatal(err)
		}
		o := c15Run(t, c)
		b, _ := json.Marshal(o)
		of.Write(append(b, '\n'))
	}
}
