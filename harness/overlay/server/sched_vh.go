//go:build verif

// Steering runtime for the scheduler checks C01/C02/C11 (add-only; injected with -overlay under build tag verif).
// The instrumented copy of sched.go (generated at check time by harness/instr from the current source) calls the
// vh* functions below before every synchronisation operation.  When no controller is active (vhActive == nil)
// or the calling goroutine is not registered with it, every vh* function is a no-op and the code behaves as the
// original.  With a controller, a registered goroutine parks at each call until the controller releases it, and
// the controller releases one goroutine at a time and only when its pending operation can complete.
package server

import (
	"reflect"
	"runtime"
	"strconv"
	"sync"
	"sync/atomic"
)

// ------------------------------------------------------------------ channel-backed mutex

// vhMutex replaces sync.Mutex in the instrumented sched.go.  A waiter blocks on a channel send (durably
// blocked for testing/synctest) and the owner is visible to the controller.
type vhMutex struct {
	once  sync.Once
	ch    chan struct{}
	held  atomic.Bool
	owner atomic.Pointer[vhG]
}

func (m *vhMutex) lazy() { m.once.Do(func() { m.ch = make(chan struct{}, 1) }) }

func (m *vhMutex) Lock() {
	m.lazy()
	m.ch <- struct{}{}
	m.held.Store(true)
	m.owner.Store(vhCur())
}

func (m *vhMutex) TryLock() bool {
	m.lazy()
	select {
	case m.ch <- struct{}{}:
		m.held.Store(true)
		m.owner.Store(vhCur())
		return true
	default:
		return false
	}
}

func (m *vhMutex) Unlock() {
	m.lazy()
	m.owner.Store(nil)
	m.held.Store(false)
	select {
	case <-m.ch:
	default:
		panic("vhMutex: unlock of unlocked mutex")
	}
}

// vhHeld reports whether a mutex (of whatever type the current sched.go uses) is held, and by which
// controlled goroutine.  For a plain sync.Mutex (uninstrumented build) the answer is "unknown": false.
func vhHeld(m any) (bool, string) {
	if mm, ok := m.(*vhMutex); ok {
		if !mm.held.Load() {
			return false, ""
		}
		if o := mm.owner.Load(); o != nil {
			return true, o.Name
		}
		return true, "?"
	}
	return false, ""
}

// ------------------------------------------------------------------ controller

const vhKill = -99

type vhG struct {
	Name   string
	Site   string
	Kind   string // entry | lock | send | recv | done | select | env
	ready  func() []int
	resume chan int
	parked atomic.Bool
	done   atomic.Bool
	waitMu *vhMutex
	Steps  int
}

type vhCtl struct {
	mu     sync.Mutex // protects the fields below; never held across a blocking operation
	byGoid map[uint64]*vhG
	all    []*vhG
	counts map[string]int
}

type vhCase struct {
	Dir string // "s" send, "r" receive, "d" <-ctx.Done()
	Ch  any
	Ctx interface{ Err() error }
}

var vhActive atomic.Pointer[vhCtl]

func vhNewCtl() *vhCtl {
	c := &vhCtl{byGoid: map[uint64]*vhG{}, counts: map[string]int{}}
	vhActive.Store(c)
	return c
}

func (c *vhCtl) Stop() { vhActive.CompareAndSwap(c, nil) }

func vhGoid() uint64 {
	var buf [64]byte
	n := runtime.Stack(buf[:], false)
	// "goroutine 123 [running]:..."
	var id uint64
	for i := len("goroutine "); i < n; i++ {
		ch := buf[i]
		if ch < '0' || ch > '9' {
			break
		}
		id = id*10 + uint64(ch-'0')
	}
	return id
}

func vhCur() *vhG {
	c := vhActive.Load()
	if c == nil {
		return nil
	}
	id := vhGoid()
	c.mu.Lock()
	g := c.byGoid[id]
	c.mu.Unlock()
	return g
}

func (c *vhCtl) newG(name string) *vhG {
	g := &vhG{Name: name, resume: make(chan int)}
	c.mu.Lock()
	c.all = append(c.all, g)
	c.mu.Unlock()
	return g
}

// All returns every goroutine ever registered, in creation order.
func (c *vhCtl) All() []*vhG {
	c.mu.Lock()
	defer c.mu.Unlock()
	return append([]*vhG(nil), c.all...)
}

// Parked returns the registered goroutines that are parked at a yield point, in creation order.
func (c *vhCtl) Parked() []*vhG {
	var out []*vhG
	for _, g := range c.All() {
		if g.parked.Load() && !g.done.Load() {
			out = append(out, g)
		}
	}
	return out
}

// Alts are the alternatives with which the goroutine can be released now (empty: not enabled).
func (g *vhG) Alts() []int {
	if g.ready == nil {
		return []int{0}
	}
	return g.ready()
}

func (c *vhCtl) Release(g *vhG, alt int) { g.resume <- alt }

func vhPark(g *vhG, site, kind string, ready func() []int) int {
	g.Site, g.Kind, g.ready = site, kind, ready
	g.parked.Store(true)
	alt := <-g.resume
	g.parked.Store(false)
	g.Steps++
	if alt == vhKill {
		runtime.Goexit()
	}
	return alt
}

// vhSpawn is evaluated by the parent at the `go` statement: the child's name is fixed at spawn time.
func vhSpawn(site string) *vhG {
	c := vhActive.Load()
	if c == nil {
		return nil
	}
	c.mu.Lock()
	c.counts[site]++
	n := c.counts[site]
	c.mu.Unlock()
	return c.newG(site + "#" + strconv.Itoa(n))
}

func vhEnter(g *vhG) {
	if g == nil {
		return
	}
	c := vhActive.Load()
	if c == nil {
		return
	}
	id := vhGoid()
	c.mu.Lock()
	c.byGoid[id] = g
	c.mu.Unlock()
	vhPark(g, g.Name, "entry", nil)
}

func vhExit(g *vhG) {
	if g == nil {
		return
	}
	g.done.Store(true)
	if c := vhActive.Load(); c != nil {
		id := vhGoid()
		c.mu.Lock()
		if c.byGoid[id] == g {
			delete(c.byGoid, id)
		}
		c.mu.Unlock()
	}
}

func vhTimer(site string, f func()) func() {
	c := vhActive.Load()
	if c == nil {
		return f
	}
	c.mu.Lock()
	c.counts[site]++
	base := site + "#" + strconv.Itoa(c.counts[site])
	c.mu.Unlock()
	var fires atomic.Int32
	return func() {
		if vhActive.Load() != c {
			f()
			return
		}
		k := fires.Add(1)
		g := c.newG(base + "." + strconv.Itoa(int(k)))
		vhEnter(g)
		defer vhExit(g)
		f()
	}
}

func vhLock(site string, m any) {
	g := vhCur()
	if g == nil {
		return
	}
	mm, _ := m.(*vhMutex)
	g.waitMu = mm
	vhPark(g, site, "lock", func() []int {
		if mm == nil || !mm.held.Load() {
			return []int{0}
		}
		return nil
	})
	g.waitMu = nil
}

func vhChanReady(dir string, ch any) bool {
	v := reflect.ValueOf(ch)
	if v.Kind() != reflect.Chan || v.IsNil() {
		return true // unknown: let it run (it will block for real if it must)
	}
	if v.Cap() == 0 {
		return true // unbuffered: the harness keeps a receiver waiting on every reply channel
	}
	if dir == "s" {
		return v.Len() < v.Cap()
	}
	return v.Len() > 0
}

func vhSend(site string, ch any) {
	g := vhCur()
	if g == nil {
		return
	}
	vhPark(g, site, "send", func() []int {
		if vhChanReady("s", ch) {
			return []int{0}
		}
		return nil
	})
}

func vhRecv(site string, ch any) {
	g := vhCur()
	if g == nil {
		return
	}
	vhPark(g, site, "recv", func() []int {
		if vhChanReady("r", ch) {
			return []int{0}
		}
		return nil
	})
}

func vhDone(site string, ctx interface{ Err() error }) {
	g := vhCur()
	if g == nil {
		return
	}
	vhPark(g, site, "done", func() []int {
		if ctx.Err() != nil {
			return []int{0}
		}
		return nil
	})
}

// vhSelect: -2 = not controlled, run the original select; -1 = default clause; i >= 0 = the i-th
// communication clause (in source order, default not counted), which is ready.
func vhSelect(site string, hasDefault bool, cases ...vhCase) int {
	g := vhCur()
	if g == nil {
		return -2
	}
	return vhPark(g, site, "select", func() []int {
		var r []int
		for i, c := range cases {
			ok := false
			if c.Dir == "d" {
				ok = c.Ctx != nil && c.Ctx.Err() != nil
			} else {
				ok = vhChanReady(c.Dir, c.Ch)
			}
			if ok {
				r = append(r, i)
			}
		}
		if len(r) == 0 && hasDefault {
			r = []int{-1}
		}
		return r
	})
}

// vhEnvChoice parks a controlled goroutine inside a mock (load outcome, ping outcome, newServer outcome);
// the controller releases it with the outcome it chose.  Uncontrolled callers get alternative 0.
func vhEnvChoice(site string, nalts int) int {
	g := vhCur()
	if g == nil {
		return 0
	}
	return vhPark(g, site, "env", func() []int {
		r := make([]int, nalts)
		for i := range r {
			r[i] = i
		}
		return r
	})
}
