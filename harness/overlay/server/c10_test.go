//go:build verif

package server

// C10, API clause: an untrusted file is uploaded (POST /api/blobs/:digest), used to create a model (POST /api/create,
// by file and then "from" the created model) and shown (POST /api/show, plain and verbose) through the REAL router
// (GenerateRoutes) behind a real HTTP server; after every case the server must still answer GET /api/version.
// Cases on stdin, one JSON observation per line on stdout, flushed after every case: the driver runs this test binary
// under an address-space limit; a panic outside gin's recovery (create decodes in its own goroutine) or a fatal
// out-of-memory kills the process, the driver sees which case did it.
//
// case:  {"bytes": hex, "name": "m1", "fname": "model.gguf"}   optional: "adapter": hex + "aname" (the `adapters` field), "from": model,
//        "extra": {template, system, license, parameters, messages, ...} merged into the create request; without "bytes" no `files`
// reply: {"blob": status, "create": status, "create_err": "...", "show": status, "show_verbose": status,
//         "from": status, "alive": status}

import (
	"bufio"
	"bytes"
	"crypto/sha256"
	"encoding/hex"
	"encoding/json"
	"fmt"
	"io"
	"log/slog"
	"net/http"
	"net/http/httptest"
	"os"
	"testing"
	"time"

	"github.com/gin-gonic/gin"
)

func c10post(client *http.Client, url string, body any) (int, string) {
	var rd io.Reader
	switch b := body.(type) {
	case []byte:
		rd = bytes.NewReader(b)
	default:
		j, _ := json.Marshal(body)
		rd = bytes.NewReader(j)
	}
	resp, err := client.Post(url, "application/json", rd)
	if err != nil {
		return -1, err.Error()
	}
	defer resp.Body.Close()
	out, _ := io.ReadAll(io.LimitReader(resp.Body, 1<<20))
	return resp.StatusCode, string(out)
}

func TestVerifC10API(t *testing.T) {
	if os.Getenv("VERIF_C10_API") == "" {
		t.Skip("driven by /verif/props/c10.py")
	}
	gin.SetMode(gin.ReleaseMode)
	gin.DefaultWriter = io.Discard
	gin.DefaultErrorWriter = io.Discard
	slog.SetDefault(slog.New(slog.NewTextHandler(io.Discard, nil)))
	t.Setenv("OLLAMA_MODELS", t.TempDir())

	s := &Server{}
	h, err := s.GenerateRoutes(nil)
	if err != nil {
		t.Fatal(err)
	}
	srv := httptest.NewServer(h)
	defer srv.Close()
	client := &http.Client{Timeout: 15 * time.Second}

	sc := bufio.NewScanner(os.Stdin)
	sc.Buffer(make([]byte, 1<<20), 1<<30)
	w := bufio.NewWriter(os.Stdout)
	enc := json.NewEncoder(w)
	for sc.Scan() {
		line := sc.Bytes()
		if len(line) == 0 {
			continue
		}
		var c map[string]any
		if err := json.Unmarshal(line, &c); err != nil {
			enc.Encode(map[string]any{"harness_error": err.Error()})
			w.Flush()
			continue
		}
		name, _ := c["name"].(string)
		out := map[string]any{}
		upload := func(field string) (string, bool) {
			hs, ok := c[field].(string)
			if !ok {
				return "", false
			}
			data, err := hex.DecodeString(hs)
			if err != nil {
				return "", false
			}
			sum := sha256.Sum256(data)
			digest := "sha256:" + hex.EncodeToString(sum[:])
			st, _ := c10post(client, srv.URL+"/api/blobs/"+digest, data)
			if field == "bytes" || st != http.StatusCreated && st != http.StatusOK {
				out["blob"] = st
			}
			return digest, true
		}
		stream := false
		body := map[string]any{"model": name, "stream": &stream}
		if digest, ok := upload("bytes"); ok {
			fname, _ := c["fname"].(string)
			body["files"] = map[string]string{fname: digest}
		}
		if digest, ok := upload("adapter"); ok {
			aname, _ := c["aname"].(string)
			body["adapters"] = map[string]string{aname: digest}
		}
		if from, ok := c["from"].(string); ok && from != "" {
			body["from"] = from
		}
		if extra, ok := c["extra"].(map[string]any); ok {
			for k, v := range extra {
				body[k] = v
			}
		}
		st, rbody := c10post(client, srv.URL+"/api/create", body)
		out["create"] = st
		if st != http.StatusOK {
			out["create_err"] = rbody
		}
		out["show"], _ = c10post(client, srv.URL+"/api/show", map[string]any{"model": name})
		out["show_verbose"], _ = c10post(client, srv.URL+"/api/show", map[string]any{"model": name, "verbose": true})
		if st == http.StatusOK {
			out["from"], _ = c10post(client, srv.URL+"/api/create", map[string]any{"model": name + "b", "from": name, "stream": &stream})
			out["show_from"], _ = c10post(client, srv.URL+"/api/show", map[string]any{"model": name + "b", "verbose": true})
			if c["list"] == true {
				if resp, err := client.Get(srv.URL + "/api/tags"); err == nil {
					b, _ := io.ReadAll(io.LimitReader(resp.Body, 1<<20))
					resp.Body.Close()
					out["listed"] = bytes.Contains(b, []byte("\""+name+":latest\""))
				}
			}
		}
		resp, err := client.Get(srv.URL + "/api/version")
		if err != nil {
			out["alive"] = -1
			out["alive_err"] = err.Error()
		} else {
			out["alive"] = resp.StatusCode
			resp.Body.Close()
		}
		enc.Encode(out)
		w.Flush()
	}
	fmt.Fprintln(os.Stderr, "c10api: done")
}
