//go:build verif

package kvcache

// VerifCell is one live cache location: its metadata and (when layer 0 has storage) the first two floats of its
// K row, which the C07 scripted model uses to store (token, position).
type VerifCell struct {
	Loc  int
	Pos  int32
	Seqs []int
	Tok  int32 // K row element 0
	Kpos int32 // K row element 1
	Data bool  // storage exists
}

// VerifCells07 returns the live cells (those referenced by at least one sequence) in location order.
func (c *Causal) VerifCells07() []VerifCell {
	var kd []float32
	rowLen := 0
	if k, ok := c.keys[0]; ok && k != nil {
		kd = k.Floats()
		rowLen = k.Dim(0) * k.Dim(1)
	}
	var out []VerifCell
	for i, cell := range c.cells {
		if len(cell.sequences) > 0 {
			vc := VerifCell{Loc: i, Pos: cell.pos, Seqs: append([]int(nil), cell.sequences...)}
			if kd != nil && rowLen >= 2 && (i+1)*rowLen <= len(kd) {
				vc.Tok, vc.Kpos, vc.Data = int32(kd[i*rowLen]), int32(kd[i*rowLen+1]), true
			}
			out = append(out, vc)
		}
	}
	return out
}

// VerifNumCells07 is the capacity chosen by Init.
func (c *Causal) VerifNumCells07() int { return len(c.cells) }

// VerifEnc07 reports whether the encoder cache holds cross-attention input and the position it belongs to.
func (c *EncoderCache) VerifEnc07() (bool, int32) { return c.encoderCached, c.encoderPos }
