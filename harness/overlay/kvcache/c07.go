//go:build verif

package kvcache

// VerifCell is the metadata of one live cache location (C07 harness: diagnosis of data/metadata divergence).
type VerifCell struct {
	Loc  int
	Pos  int32
	Seqs []int
}

// VerifCells07 returns the live cells (those referenced by at least one sequence) in location order.
func (c *Causal) VerifCells07() []VerifCell {
	var out []VerifCell
	for i, cell := range c.cells {
		if len(cell.sequences) > 0 {
			out = append(out, VerifCell{Loc: i, Pos: cell.pos, Seqs: append([]int(nil), cell.sequences...)})
		}
	}
	return out
}

// VerifNumCells07 is the capacity chosen by Init.
func (c *Causal) VerifNumCells07() int { return len(c.cells) }
