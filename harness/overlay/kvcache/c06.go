//go:build verif

package kvcache

// Read-only views of the unexported state of Causal for the C06 harness (add-only, build tag verif).

// C06Cell is the metadata of one cache location (live or not).
type C06Cell struct {
	Pos  int32
	Seqs []int
}

// C06Range is one entry of cellRanges.
type C06Range struct {
	Seq, Min, Max int
}

// C06Cells returns the metadata of every location, in location order.
func (c *Causal) C06Cells() []C06Cell {
	out := make([]C06Cell, len(c.cells))
	for i, cell := range c.cells {
		out[i] = C06Cell{Pos: cell.pos, Seqs: append([]int{}, cell.sequences...)}
	}
	return out
}

// C06Ranges returns cellRanges (unordered).
func (c *Causal) C06Ranges() []C06Range {
	out := make([]C06Range, 0, len(c.cellRanges))
	for s, r := range c.cellRanges {
		out = append(out, C06Range{Seq: s, Min: r.min, Max: r.max})
	}
	return out
}

// C06Cur returns curLoc and the (padded) curCellRange of the batch being processed.
func (c *Causal) C06Cur() (loc, min, max int) {
	return c.curLoc, c.curCellRange.min, c.curCellRange.max
}

// C06Layers is the number of layers for which K/V storage exists.
func (c *Causal) C06Layers() int {
	n := 0
	for _, k := range c.keys {
		if k != nil {
			n++
		}
	}
	return n
}

// C06Enc returns the position bookkeeping of an EncoderCache.
func (c *EncoderCache) C06Enc() (cached bool, pos, cur int32, reserve bool) {
	return c.encoderCached, c.encoderPos, c.curPos, c.curReserve
}
