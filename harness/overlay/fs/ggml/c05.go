//go:build verif

package ggml

import (
	"encoding/hex"
	"math"
	"strconv"
)

// Add-only export shims for the C05/C10 harnesses (build tag verif, injected with -overlay; never in /repo).

// VerifVal is a decoded GGUF value in a form that survives JSON: numbers as decimal strings of their
// raw bit pattern, strings as hex.
//
//	T: 0..12 = the gguf type code of the Go dynamic type of the value, 99 = a Go type the decoder never produces
type VerifVal struct {
	T    int        `json:"t"`
	Bits string     `json:"b,omitempty"` // numeric/bool: bit pattern, decimal
	Str  string     `json:"s,omitempty"` // string: hex
	N    string     `json:"n,omitempty"` // array: declared size (decimal, signed)
	Vals []VerifVal `json:"a"`           // array: collected values; null when not collected
	Coll bool       `json:"c,omitempty"` // array: values != nil
}

func u(x uint64) string { return strconv.FormatUint(x, 10) }

func VerifValue(v any) VerifVal {
	switch v := v.(type) {
	case uint8:
		return VerifVal{T: 0, Bits: u(uint64(v))}
	case int8:
		return VerifVal{T: 1, Bits: u(uint64(uint8(v)))}
	case uint16:
		return VerifVal{T: 2, Bits: u(uint64(v))}
	case int16:
		return VerifVal{T: 3, Bits: u(uint64(uint16(v)))}
	case uint32:
		return VerifVal{T: 4, Bits: u(uint64(v))}
	case int32:
		return VerifVal{T: 5, Bits: u(uint64(uint32(v)))}
	case float32:
		return VerifVal{T: 6, Bits: u(uint64(math.Float32bits(v)))}
	case bool:
		if v {
			return VerifVal{T: 7, Bits: "1"}
		}
		return VerifVal{T: 7, Bits: "0"}
	case string:
		return VerifVal{T: 8, Str: hex.EncodeToString([]byte(v))}
	case *array:
		r := VerifVal{T: 9, N: strconv.FormatInt(int64(v.size), 10), Coll: v.values != nil}
		if v.values != nil {
			r.Vals = make([]VerifVal, 0, len(v.values))
			for _, e := range v.values {
				r.Vals = append(r.Vals, VerifValue(e))
			}
		}
		return r
	case uint64:
		return VerifVal{T: 10, Bits: u(v)}
	case int64:
		return VerifVal{T: 11, Bits: u(uint64(v))}
	case float64:
		return VerifVal{T: 12, Bits: u(math.Float64bits(v))}
	}
	return VerifVal{T: 99}
}

// VerifBlock exposes Tensor.block (the sort key of WriteGGUF).
func VerifBlock(t Tensor) int { return t.block() }

// VerifSize / VerifTypeSize / VerifBlockSize expose the size tables.
func VerifTypeSize(kind uint32) uint64  { return Tensor{Kind: kind}.typeSize() }
func VerifBlockSize(kind uint32) uint64 { return Tensor{Kind: kind}.blockSize() }

// VerifPadding exposes ggufPadding.
func VerifPadding(offset, align int64) int64 { return ggufPadding(offset, align) }

// VerifVersion: the container version of a decoded file (0 when it is not gguf).
func VerifVersion(f *GGML) uint32 {
	if c, ok := f.container.(*containerGGUF); ok {
		return c.Version
	}
	return 0
}

// VerifFileTypeString exposes fileType(t).String() (Tensor.Type() is this on the tensor kind).
func VerifFileTypeString(t uint32) string { return fileType(t).String() }
