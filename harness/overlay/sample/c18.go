//go:build verif

// Add-only export shim for the C18 check (injected with `go build -overlay`, never written into the repository).
// It exposes the unexported sampling stages on bit patterns, lets the harness script the random source of a
// Sampler built by the real NewSampler, and reads the clamped parameters back.
package sample

import (
	"math"
	"math/rand/v2"
)

// VTok is a token as the harness sees it: id and the float32 value as its IEEE bit pattern.
type VTok struct {
	ID   int32  `json:"id"`
	Bits uint32 `json:"b"`
}

func verifIn(in []VTok) []token {
	ts := make([]token, len(in))
	for i, t := range in {
		ts[i] = token{id: t.ID, value: math.Float32frombits(t.Bits)}
	}
	return ts
}

func verifOut(ts []token) []VTok {
	out := make([]VTok, len(ts))
	for i, t := range ts {
		out[i] = VTok{ID: t.id, Bits: math.Float32bits(t.value)}
	}
	return out
}

func VerifGreedy(in []VTok) VTok {
	t := greedy(verifIn(in))
	return VTok{ID: t.id, Bits: math.Float32bits(t.value)}
}

func VerifTopK(in []VTok, k int) []VTok { return verifOut(topK(verifIn(in), k)) }

func VerifTemperature(in []VTok, temp uint32) []VTok {
	ts := verifIn(in)
	temperature(ts, math.Float32frombits(temp))
	return verifOut(ts)
}

func VerifSoftmax(in []VTok) []VTok {
	ts := verifIn(in)
	softmax(ts)
	return verifOut(ts)
}

func VerifTopP(in []VTok, p uint32) []VTok {
	return verifOut(topP(verifIn(in), math.Float32frombits(p)))
}

func VerifMinP(in []VTok, p uint32) []VTok {
	return verifOut(minP(verifIn(in), math.Float32frombits(p)))
}

// verifScript is a rand.Source that replays the given 64-bit words (then repeats the last one).
type verifScript struct {
	words []uint64
	i     int
	Used  int
}

func (s *verifScript) Uint64() uint64 {
	s.Used++
	if len(s.words) == 0 {
		return 0
	}
	w := s.words[min(s.i, len(s.words)-1)]
	s.i++
	return w
}

// VerifScriptSampler builds a sampler with the real NewSampler (so that parameter clamping is the code's own) and
// replaces its random source by a script; the second result reports how many words were consumed.
func VerifScriptSampler(temp, topP, minP uint32, topK int, words []uint64) (*Sampler, func() int) {
	s := NewSampler(math.Float32frombits(temp), topK, math.Float32frombits(topP), math.Float32frombits(minP), 0, nil)
	src := &verifScript{words: words}
	s.rng = rand.New(src)
	return &s, func() int { return src.Used }
}

// VerifNewSampler is NewSampler on bit patterns (grammar nil).
func VerifNewSampler(temp, topP, minP uint32, topK int, seed int) *Sampler {
	s := NewSampler(math.Float32frombits(temp), topK, math.Float32frombits(topP), math.Float32frombits(minP), seed, nil)
	return &s
}

// VerifParams reads back the (clamped) parameters of a sampler.
func VerifParams(s *Sampler) (temp, topP, minP uint32, topK int, seeded bool) {
	return math.Float32bits(s.temperature), math.Float32bits(s.topP), math.Float32bits(s.minP), s.topK, s.rng != nil
}

// VerifDraw consumes one draw of the sampler's own generator exactly as sample() does.
func VerifDraw(s *Sampler) (uint32, bool) {
	if s.rng == nil {
		return 0, false
	}
	return math.Float32bits(s.rng.Float32()), true
}

// VerifSampleTokens runs the unexported sample() on an explicit token list (ids need not be 0..n-1).
func VerifSampleTokens(s *Sampler, in []VTok) (VTok, string) {
	t, err := s.sample(verifIn(in))
	if err != nil {
		return VTok{ID: -1}, err.Error()
	}
	return VTok{ID: t.id, Bits: math.Float32bits(t.value)}, ""
}

// VerifScriptSamplerG is VerifScriptSampler with a grammar (the real NewSampler, then the scripted source).
func VerifScriptSamplerG(temp, topP, minP uint32, topK int, words []uint64, g *Grammar) (*Sampler, func() int) {
	s := NewSampler(math.Float32frombits(temp), topK, math.Float32frombits(topP), math.Float32frombits(minP), 0, g)
	src := &verifScript{words: words}
	s.rng = rand.New(src)
	return &s, func() int { return src.Used }
}

// VerifGrammarMask reports, for ids 0..n-1, whether the grammar (in its current state) rejects the id, by the same
// Apply the sampler uses (a rejected token's value becomes -Inf).
func VerifGrammarMask(g *Grammar, n int) []bool {
	ts := make([]token, n)
	for i := range ts {
		ts[i] = token{id: int32(i), value: 0}
	}
	g.Apply(ts)
	out := make([]bool, n)
	for i := range ts {
		out[i] = math.IsInf(float64(ts[i].value), -1)
	}
	return out
}
