//go:build verif

package ollamarunner

// C14 harness entry points: a Server around a caller-supplied (scripted) model.  Everything here only
// constructs values and calls the REAL NewInputCache / NewSequence / LoadCacheSlot / processBatch / run /
// completion.  The one piece of glue that is copied is the slot-assignment block of (*Server).completion
// (C14Submit), used by the step-by-step mode; the "http" mode goes through the real handler instead.

import (
	"context"
	"fmt"
	"net/http"
	"sync"

	"golang.org/x/sync/semaphore"

	"github.com/ollama/ollama/model"
	"github.com/ollama/ollama/sample"
)

// C14NewServer mirrors what Execute + loadModel set up, minus model loading and the worst-case graph reservation.
func C14NewServer(m model.Model, parallel, batchSize, kvSize int) (*Server, error) {
	s := &Server{batchSize: batchSize, model: m}
	s.cond = sync.NewCond(&s.mu)
	var err error
	s.cache, err = NewInputCache(m, "", int32(kvSize), parallel, batchSize, false)
	if err != nil {
		return nil, err
	}
	s.parallel = parallel
	s.seqs = make([]*Sequence, s.parallel)
	s.seqsSem = semaphore.NewWeighted(int64(s.parallel))
	return s, nil
}

// C14Submit = NewSequence + the slot-assignment block of completion().  kind: "" ok, "busy" no free entry
// (the handler would block on the semaphore), anything else an error.
func (s *Server) C14Submit(prompt string, numPredict int, numKeep int32, stop []string) (seq *Sequence, kind string, err error) {
	seq, err = s.NewSequence(prompt, nil, NewSequenceParams{
		numPredict: numPredict,
		stop:       stop,
		numKeep:    numKeep,
		sampler:    sample.NewSampler(0, 0, 0, 0, -1, nil), // temperature 0: greedy
		embedding:  false,
	})
	if err != nil {
		return nil, "newseq", err
	}
	if !s.seqsSem.TryAcquire(1) {
		return nil, "busy", nil
	}
	s.mu.Lock()
	defer s.mu.Unlock()
	for i, sq := range s.seqs {
		if sq == nil {
			seq.cache, seq.inputs, err = s.cache.LoadCacheSlot(seq.inputs)
			if err != nil {
				s.seqsSem.Release(1)
				return nil, "load", err
			}
			s.seqs[i] = seq
			s.cond.Signal()
			return seq, "", nil
		}
	}
	s.seqsSem.Release(1)
	return nil, "notfound", nil
}

// C14Idle: processBatch would block on the condition variable.
func (s *Server) C14Idle() bool {
	s.mu.Lock()
	defer s.mu.Unlock()
	return s.allNil()
}

// C14Step runs one real processBatch.
func (s *Server) C14Step() error { return s.processBatch() }

// C14Live: the sequence still occupies an entry of s.seqs.
func (s *Server) C14Live(q *Sequence) bool {
	s.mu.Lock()
	defer s.mu.Unlock()
	for _, x := range s.seqs {
		if x == q {
			return true
		}
	}
	return false
}

// C14Drain returns everything currently buffered on the sequence's response channel and whether it was closed.
func (q *Sequence) C14Drain() (out []string, closed bool) {
	for {
		select {
		case r, ok := <-q.responses:
			if !ok {
				return out, true
			}
			out = append(out, r)
		default:
			return out, false
		}
	}
}

func (q *Sequence) C14Pending() []string  { return append([]string{}, q.pendingResponses...) }
func (q *Sequence) C14Predicted() int     { return q.numPredicted }
func (q *Sequence) C14DoneReason() string { return q.doneReason.String() }

// C14Run runs the real (*Server).run loop; a panic inside it (run panics on any processBatch error) is handed
// to onPanic instead of killing the harness process.
func (s *Server) C14Run(ctx context.Context, onPanic func(string)) {
	defer func() {
		if r := recover(); r != nil {
			onPanic(fmt.Sprint(r))
		}
	}()
	s.run(ctx)
}

// C14Completion is the real HTTP handler of POST /completion.
func (s *Server) C14Completion(w http.ResponseWriter, r *http.Request) { s.completion(w, r) }

// C14Responses exposes the response channel to the harness's slow / blocked reader.
func (q *Sequence) C14Responses() chan string { return q.responses }
