//go:build verif

package ollamarunner

// VerifFlush runs the real flushPending on a sequence holding the given pending pieces and returns
// what was sent on the response channel (at most one string).
func VerifFlush(pending []string) []string {
	seq := &Sequence{pendingResponses: pending, responses: make(chan string, 1), quit: make(chan bool, 1)}
	flushPending(seq)
	select {
	case s := <-seq.responses:
		return []string{s}
	default:
		return []string{}
	}
}
