//go:build verif

package ollamarunner

// C07/C14 harness entry points: a Server around a caller-supplied (scripted) model, driven step by step.
// Everything here only constructs values and calls the real NewInputCache / NewSequence / LoadCacheSlot /
// processBatch; the one piece of glue that is *copied* is the slot-assignment block of (*Server).completion
// (VerifSubmit), because the handler itself needs an HTTP connection.

import (
	"context"
	"encoding/hex"
	"fmt"
	"net/http"
	"sync"
	"time"

	"golang.org/x/sync/semaphore"

	"github.com/ollama/ollama/llm"
	"github.com/ollama/ollama/model"
	"github.com/ollama/ollama/model/input"
	"github.com/ollama/ollama/sample"
)

// VerifNewServer mirrors what Execute + loadModel set up, minus model loading and the worst-case graph reservation.
func VerifNewServer(m model.Model, parallel, batchSize, kvSize int, multiUser bool) (*Server, error) {
	s := &Server{batchSize: batchSize, model: m}
	s.cond = sync.NewCond(&s.mu)
	var err error
	s.cache, err = NewInputCache(m, "", int32(kvSize), parallel, batchSize, multiUser)
	if err != nil {
		return nil, err
	}
	s.parallel = parallel
	s.seqs = make([]*Sequence, s.parallel)
	s.seqsSem = semaphore.NewWeighted(int64(s.parallel))
	return s, nil
}

// VerifSubmit = NewSequence + the slot-assignment block of completion().  Returns the index in s.seqs.
// kind: "" ok, "newseq" NewSequence failed, "busy" no free sequence entry (the handler would block on the
// semaphore), "load" LoadCacheSlot failed.
func (s *Server) VerifSubmit(prompt string, numPredict int, numKeep int32, stop []string) (idx int, seq *Sequence, kind string, err error) {
	return s.VerifSubmitMM(prompt, nil, numPredict, numKeep, stop)
}

// VerifSubmitMM: the same with images ([img-<id>] tags in the prompt refer to them).
func (s *Server) VerifSubmitMM(prompt string, images []llm.ImageData, numPredict int, numKeep int32, stop []string) (idx int, seq *Sequence, kind string, err error) {
	seq, err = s.NewSequence(prompt, images, NewSequenceParams{
		numPredict: numPredict,
		stop:       stop,
		numKeep:    numKeep,
		sampler:    sample.NewSampler(0, 0, 0, 0, -1, nil), // temperature 0: greedy
		embedding:  false,
	})
	if err != nil {
		return -1, nil, "newseq", err
	}
	if !s.seqsSem.TryAcquire(1) {
		return -1, nil, "busy", nil
	}
	s.mu.Lock()
	defer s.mu.Unlock()
	for i, sq := range s.seqs {
		if sq == nil {
			seq.cache, seq.inputs, err = s.cache.LoadCacheSlot(seq.inputs)
			if err != nil {
				s.seqsSem.Release(1)
				return -1, nil, "load", err
			}
			s.seqs[i] = seq
			s.cond.Signal()
			return i, seq, "", nil
		}
	}
	s.seqsSem.Release(1)
	return -1, nil, "notfound", nil
}

// VerifIdle: processBatch would block on the condition variable.
func (s *Server) VerifIdle() bool {
	s.mu.Lock()
	defer s.mu.Unlock()
	return s.allNil()
}

// VerifStep runs one real processBatch.
func (s *Server) VerifStep() error { return s.processBatch() }

// VerifDrain returns everything currently buffered on the sequence's response channel and whether it was closed.
func (q *Sequence) VerifDrain() (out []string, closed bool) {
	for {
		select {
		case r, ok := <-q.responses:
			if !ok {
				return out, true
			}
			out = append(out, r)
		default:
			return out, false
		}
	}
}

func (q *Sequence) VerifDoneReason() string { return q.doneReason.String() }

type VerifSlot struct {
	Id     int     `json:"id"`
	Inputs []int32 `json:"inputs"`
	InUse  bool    `json:"inuse"`
}

type VerifSeq struct {
	Inputs    []int32  `json:"inputs"`
	Pending   []int32  `json:"pending"`
	Slot      int      `json:"slot"`
	Predicted int      `json:"npred"`
	Pend      []string `json:"pend"`
}

type VerifState struct {
	Slots []VerifSlot `json:"slots"`
	Seqs  []*VerifSeq `json:"seqs"`
	Next  int         `json:"next"`
	// LRU order of the slots (ids by increasing lastUsed; never-used slots first, by id)
	Lru []int `json:"lru"`
}

func toks(in []input.Input) []int32 {
	out := make([]int32, 0, len(in))
	for _, x := range in {
		// a multimodal input of the scripted model carries its content as an int32 code (>= 1000)
		if v, ok := x.Multimodal.(int32); ok {
			out = append(out, v)
		} else {
			out = append(out, x.Token)
		}
	}
	return out
}

// VerifState projects the slot bookkeeping and the live sequences.
func (s *Server) VerifState() VerifState {
	s.mu.Lock()
	defer s.mu.Unlock()
	var st VerifState
	for _, sl := range s.cache.slots {
		st.Slots = append(st.Slots, VerifSlot{Id: sl.Id, Inputs: toks(sl.Inputs), InUse: sl.InUse})
	}
	for _, q := range s.seqs {
		if q == nil {
			st.Seqs = append(st.Seqs, nil)
			continue
		}
		pend := make([]string, 0, len(q.pendingResponses))
		for _, p := range q.pendingResponses {
			pend = append(pend, hex.EncodeToString([]byte(p)))
		}
		st.Seqs = append(st.Seqs, &VerifSeq{Inputs: toks(q.inputs), Pending: toks(q.pendingInputs), Slot: q.cache.Id, Predicted: q.numPredicted, Pend: pend})
	}
	st.Next = s.nextSeq
	// stable insertion sort of slot ids by lastUsed
	ids := make([]int, len(s.cache.slots))
	for i := range ids {
		ids[i] = i
	}
	for i := 1; i < len(ids); i++ {
		for j := i; j > 0 && s.cache.slots[ids[j]].lastUsed.Compare(s.cache.slots[ids[j-1]].lastUsed) < 0; j-- {
			ids[j], ids[j-1] = ids[j-1], ids[j]
		}
	}
	st.Lru = ids
	return st
}

func (s *Server) VerifNumCtx() int32 { return s.cache.numCtx }

// ---- InputCache-level entry points (used for direct tests of the cache functions)

func (s *Server) VerifShiftDiscard(inputLen, numKeep int32) int32 {
	return s.cache.ShiftDiscard(inputLen, numKeep)
}

func VerifShiftDiscard07(numCtx, inputLen, numKeep int32) int32 {
	c := &InputCache{numCtx: numCtx}
	return c.ShiftDiscard(inputLen, numKeep)
}

func VerifCommonPrefix07(a, b []int32) int32 {
	mk := func(l []int32) []input.Input {
		out := make([]input.Input, 0, len(l))
		for _, t := range l {
			out = append(out, input.Input{Token: t})
		}
		return out
	}
	return countCommonPrefix(mk(a), mk(b))
}

// VerifPureCache builds an InputCache without a KV cache (cache == nil), as the package's own tests do,
// for the pure slot-choice functions.
func VerifPureCache(numCtx int32, multi bool, slots [][]int32, inUse []bool, age []int) *InputCache {
	c := &InputCache{numCtx: numCtx, multiUserCache: multi}
	base := time.Now().Add(-24 * time.Hour)
	for i := range slots {
		in := make([]input.Input, 0, len(slots[i]))
		for _, t := range slots[i] {
			in = append(in, input.Input{Token: t})
		}
		c.slots = append(c.slots, InputCacheSlot{Id: i, Inputs: in, InUse: inUse[i], lastUsed: base.Add(time.Duration(age[i]) * time.Second)})
	}
	return c
}

// VerifFind runs the real slot choice (findLongestCacheSlot / findBestCacheSlot) and reports the chosen slot,
// the common-prefix length and the slots' inputs afterwards (a fork overwrites the evicted slot's inputs).
func (c *InputCache) VerifFind(prompt []int32) (slot int, numPast int32, after [][]int32, err error) {
	p := make([]input.Input, 0, len(prompt))
	for _, t := range prompt {
		p = append(p, input.Input{Token: t})
	}
	var sl *InputCacheSlot
	if !c.multiUserCache {
		sl, numPast, err = c.findLongestCacheSlot(p)
	} else {
		sl, numPast, err = c.findBestCacheSlot(p)
	}
	slot = -1
	if sl != nil {
		slot = sl.Id
	}
	for _, x := range c.slots {
		after = append(after, toks(x.Inputs))
	}
	return
}

// ---- concurrent stage: the real handler and the real run loop

// VerifRun07 runs the real (*Server).run loop; run panics on any processBatch error, which is handed to onPanic.
func (s *Server) VerifRun07(ctx context.Context, onPanic func(string)) {
	defer func() {
		if r := recover(); r != nil {
			onPanic(fmt.Sprint(r))
		}
	}()
	s.run(ctx)
}

// VerifCompletion07 is the real HTTP handler of POST /completion.
func (s *Server) VerifCompletion07(w http.ResponseWriter, r *http.Request) { s.completion(w, r) }

// VerifLiveSlotsUnlocked07 lists the cache slot of every live sequence WITHOUT taking s.mu: it is meant to be called from
// the model's Forward, i.e. from inside processBatch, which holds the lock.
func (s *Server) VerifLiveSlotsUnlocked07() []int {
	var out []int
	for _, q := range s.seqs {
		if q != nil && q.cache != nil {
			out = append(out, q.cache.Id)
		}
	}
	return out
}
