//go:build verif && !c14gen

package llamarunner

// Placeholder used when harness c14lr is built without the generated loop body (plain `ctx.go_build("c14lr")`,
// tools/setup.py): the "loop" operation then reports that it is unavailable.  props/c14.py builds c14lr with
// `-tags verif,c14gen` and the file produced by harness/cmd/c14gen instead.

const c14TailGenerated = false

func (s *Server) c14Tail(i int, seq *Sequence, token int, piece string, isEog bool) {
	panic("c14lr: loop body not generated (build with -tags verif,c14gen and the c14gen overlay)")
}
