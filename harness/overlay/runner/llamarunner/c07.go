//go:build verif

package llamarunner

// C07: the pure parts of llamarunner's InputCache (the package cannot be run without a llama.cpp model):
// ShiftDiscard, countCommonPrefix and the slot choice with a nil context, exactly as the package's own tests
// construct them.

import "time"

func VerifShiftDiscard07(numCtx, inputLen, numKeep int) int {
	c := &InputCache{numCtx: numCtx}
	return c.ShiftDiscard(inputLen, numKeep)
}

func verifInputs07(toks []int) []input {
	out := make([]input, 0, len(toks))
	for _, t := range toks {
		out = append(out, input{token: t})
	}
	return out
}

func VerifCommonPrefix07(a, b []int) int {
	return countCommonPrefix(verifInputs07(a), verifInputs07(b))
}

// VerifFind07 runs findLongestCacheSlot / findBestCacheSlot (lc == nil) and reports the chosen slot, the common
// prefix length and every slot's inputs afterwards (a fork overwrites the evicted slot's inputs).
func VerifFind07(numCtx int, multi bool, slots [][]int, inUse []bool, age []int, prompt []int) (slot int, numPast int, after [][]int, err error) {
	c := &InputCache{numCtx: numCtx, multiUserCache: multi}
	base := time.Now().Add(-24 * time.Hour)
	for i := range slots {
		c.slots = append(c.slots, InputCacheSlot{Id: i, Inputs: verifInputs07(slots[i]), InUse: inUse[i], lastUsed: base.Add(time.Duration(age[i]) * time.Second)})
	}
	var sl *InputCacheSlot
	if !multi {
		sl, numPast, err = c.findLongestCacheSlot(verifInputs07(prompt))
	} else {
		sl, numPast, err = c.findBestCacheSlot(verifInputs07(prompt))
	}
	slot = -1
	if sl != nil {
		slot = sl.Id
	}
	for _, x := range c.slots {
		row := make([]int, 0, len(x.Inputs))
		for _, in := range x.Inputs {
			row = append(row, in.token)
		}
		after = append(after, row)
	}
	return
}
