//go:build verif

package llm

import "github.com/ollama/ollama/discover"

// Add-only export shim for the scheduler harness (C01/C02/C11).  Nothing here changes behaviour.

// VerifEstimatedVRAMByGPU evaluates the real llmServer.EstimatedVRAMByGPU for a server that was started on gpus
// with the memory estimate est - what the scheduler's updateFreeSpace reads - without starting a subprocess.
func VerifEstimatedVRAMByGPU(gpus discover.GpuInfoList, est MemoryEstimate, gpuID string) uint64 {
	s := &llmServer{gpus: gpus, estimate: est}
	return s.EstimatedVRAMByGPU(gpuID)
}
