//go:build verif

package llm

// Scheduler harness, llm stage (C01): the REAL llmServer health check.  needsReload trusts llama.Ping(); the
// scheduler's unload and Completion's crash path both Close() the server.  An llmServer is built around a dummy
// child process (`sleep`) and an httptest server that answers /health with "ready" for ever (also after the child is
// gone) and /completion with a stream that breaks off mid-response.  Sequences of Ping / Completion(crash) / Close /
// process exit / WaitUntilRunning with delays of 0, 300 ms and 1100 ms are run; one JSON line per sequence, evaluated
// by props/c01.py: no Ping (and no WaitUntilRunning) succeeds once Close() has returned or the process has exited.

import (
	"context"
	"encoding/json"
	"net"
	"net/http"
	"net/http/httptest"
	"os"
	"os/exec"
	"strconv"
	"testing"
	"time"

	"golang.org/x/sync/semaphore"

	"github.com/ollama/ollama/api"
)

type vlOp struct {
	Op     string `json:"op"` // ping | wait | crash | close | exit | sleep
	Ms     int    `json:"ms,omitempty"`
	OK     bool   `json:"ok"`
	Err    string `json:"err,omitempty"`
	Exited bool   `json:"exited"` // the child process had been reaped when the op returned
}

func vlHealthServer() *httptest.Server {
	mux := http.NewServeMux()
	mux.HandleFunc("/health", func(w http.ResponseWriter, r *http.Request) {
		w.Header().Set("Content-Type", "application/json")
		json.NewEncoder(w).Encode(map[string]any{"status": int(ServerStatusReady), "progress": 1.0})
	})
	mux.HandleFunc("/completion", func(w http.ResponseWriter, r *http.Request) {
		// one chunk of a chunked response, then the connection is cut: the client sees "unexpected EOF"
		w.Header().Set("Content-Type", "text/event-stream")
		w.WriteHeader(200)
		w.Write([]byte("data: {\"content\":\"a\"}\n"))
		if f, ok := w.(http.Flusher); ok {
			f.Flush()
		}
		if hj, ok := w.(http.Hijacker); ok {
			if conn, _, err := hj.Hijack(); err == nil {
				conn.Close()
			}
		}
	})
	return httptest.NewServer(mux)
}

func vlNewServer(t *testing.T, hs *httptest.Server) *llmServer {
	_, portStr, _ := net.SplitHostPort(hs.Listener.Addr().String())
	port, _ := strconv.Atoi(portStr)
	cmd := exec.Command("sleep", "600")
	if err := cmd.Start(); err != nil {
		t.Fatal(err)
	}
	s := &llmServer{port: port, cmd: cmd, done: make(chan error, 1), options: api.DefaultOptions(), numParallel: 1, sem: semaphore.NewWeighted(1)}
	go func() { s.done <- cmd.Wait() }() // what NewLlamaServer's reaper does
	return s
}

func TestVerifSchedLLM(t *testing.T) {
	if os.Getenv("VERIF_SCHED_LLM") == "" {
		t.Skip("verification harness entry point; run by /verif/props/c01.py")
	}
	hs := vlHealthServer()
	defer hs.Close()
	enc := json.NewEncoder(os.Stdout)
	d := []int{0, 300, 1100}
	var seqs [][]vlOp
	for _, ms := range d {
		seqs = append(seqs,
			[]vlOp{{Op: "ping"}, {Op: "close"}, {Op: "sleep", Ms: ms}, {Op: "ping"}, {Op: "ping"}},
			[]vlOp{{Op: "ping"}, {Op: "crash"}, {Op: "sleep", Ms: ms}, {Op: "ping"}, {Op: "wait"}},
			[]vlOp{{Op: "wait"}, {Op: "ping"}, {Op: "exit"}, {Op: "sleep", Ms: ms}, {Op: "ping"}, {Op: "close"}, {Op: "ping"}},
		)
	}
	seqs = append(seqs,
		[]vlOp{{Op: "ping"}, {Op: "ping"}, {Op: "sleep", Ms: 50}, {Op: "ping"}, {Op: "crash"}, {Op: "ping"}, {Op: "close"}, {Op: "ping"}},
		[]vlOp{{Op: "ping"}, {Op: "close"}, {Op: "close"}, {Op: "ping"}, {Op: "wait"}},
	)
	for _, seq := range seqs {
		s := vlNewServer(t, hs)
		for i := range seq {
			o := &seq[i]
			ctx, cancel := context.WithTimeout(context.Background(), 2*time.Second)
			var err error
			switch o.Op {
			case "ping":
				err = s.Ping(ctx)
			case "wait":
				err = s.WaitUntilRunning(ctx)
			case "crash":
				err = s.Completion(ctx, CompletionRequest{Prompt: "hi"}, func(CompletionResponse) {})
				if err == nil {
					err = context.Canceled // the stream was cut: a nil error would itself be wrong; recorded as not ok
					o.Err = "completion returned nil although the stream broke off"
				} else {
					o.OK = true // "ok" for crash: the crash path was taken
					o.Err = err.Error()
					err = nil
				}
			case "close":
				err = s.Close()
			case "exit":
				s.cmd.Process.Kill()
				for k := 0; k < 400 && s.cmd.ProcessState == nil; k++ {
					time.Sleep(5 * time.Millisecond)
				}
			case "sleep":
				time.Sleep(time.Duration(o.Ms) * time.Millisecond)
			}
			cancel()
			if o.Op != "crash" {
				o.OK = err == nil
				if err != nil {
					o.Err = err.Error()
				}
			}
			o.Exited = s.cmd.ProcessState != nil
		}
		if s.cmd.ProcessState == nil {
			s.cmd.Process.Kill()
		}
		enc.Encode(map[string]any{"seq": seq})
	}
	enc.Encode(map[string]any{"done": true, "sequences": len(seqs)})
}
