//go:build verif

package llm

// C15 (add-only, build tag verif): a REAL llmServer - the object the scheduler shares between all concurrent API
// requests of one model - wired to a fake runner HTTP endpoint instead of an ollama runner subprocess, plus that
// fake runner.  Every stream the fake runner serves is a function of the prompt alone, so a caller can check that
// it received exactly its own chunks.

import (
	"encoding/json"
	"fmt"
	"io"
	"net/http"
	"os"
	"os/exec"
	"regexp"
	"strconv"
	"strings"
	"time"

	"golang.org/x/sync/semaphore"

	"github.com/ollama/ollama/api"
	"github.com/ollama/ollama/model"
)

type verifTextProcessor struct{}

func (verifTextProcessor) Encode(s string, _ bool) ([]int32, error) {
	var out []int32
	for _, f := range strings.Fields(s) {
		out = append(out, int32(len(f)))
	}
	return out, nil
}

func (verifTextProcessor) Decode(t []int32) (string, error) {
	var sb strings.Builder
	for _, x := range t {
		sb.WriteString(strings.Repeat("x", int(x)))
		sb.WriteByte(' ')
	}
	return sb.String(), nil
}

func (verifTextProcessor) Is(int32, model.Special) bool { return false }

// VerifNewServer builds an llmServer exactly as NewLlamaServer does, except that nothing is loaded and its "process" is
// a parked `sleep` (so that the liveness checks and Close behave): the runner endpoint is http://127.0.0.1:<port>.
func VerifNewServer(port, numParallel int, opts api.Options) (LlamaServer, error) {
	if numParallel < 1 {
		numParallel = 1
	}
	s := &llmServer{
		port:          port,
		cmd:           exec.Command("sleep", "100000"),
		status:        NewStatusWriter(os.Stderr),
		options:       opts,
		modelPath:     "verif",
		textProcessor: verifTextProcessor{},
		estimate:      MemoryEstimate{VRAMSize: 1 << 20, TotalSize: 1 << 20},
		numParallel:   numParallel,
		sem:           semaphore.NewWeighted(int64(numParallel)),
		totalLayers:   1,
		done:          make(chan error, 1),
	}
	s.cmd.Stdout, s.cmd.Stderr = io.Discard, io.Discard
	if err := s.cmd.Start(); err != nil {
		return nil, err
	}
	go func() { s.done <- s.cmd.Wait() }()
	return s, nil
}

var verifSpec = regexp.MustCompile(`sid=(\w+) n=(\d+) size=(\d+)`)

// VerifExpected is the text a completion of `prompt` must produce ("" when the prompt carries no stream spec)
func VerifExpected(prompt string) string {
	var sb strings.Builder
	for _, c := range verifChunks(prompt) {
		sb.WriteString(c)
	}
	return sb.String()
}

func verifChunks(prompt string) []string {
	m := verifSpec.FindStringSubmatch(prompt)
	if m == nil {
		return []string{"ok"}
	}
	n, _ := strconv.Atoi(m[2])
	size, _ := strconv.Atoi(m[3])
	var out []string
	for k := 0; k < n; k++ {
		sz := 8
		if k%3 == 1 {
			sz = size // every third chunk is big: it fills a good part of the scanner's buffer
		}
		letter := string(rune('a' + (len(m[1])+k+int(m[1][len(m[1])-1]))%26))
		out = append(out, fmt.Sprintf("[%s:%d:%s]", m[1], k, strings.Repeat(letter, sz)))
	}
	return out
}

// VerifFakeRunner serves /health, /completion (server-sent lines, one chunk per line, flushed one by one) and /embedding
func VerifFakeRunner(chunkDelay time.Duration) http.Handler {
	mux := http.NewServeMux()
	mux.HandleFunc("/health", func(w http.ResponseWriter, r *http.Request) {
		json.NewEncoder(w).Encode(ServerStatusResponse{Status: ServerStatusReady})
	})
	mux.HandleFunc("/completion", func(w http.ResponseWriter, r *http.Request) {
		var req struct {
			Prompt string `json:"prompt"`
		}
		body, _ := io.ReadAll(r.Body)
		json.Unmarshal(body, &req)
		fl, _ := w.(http.Flusher)
		chunks := verifChunks(req.Prompt)
		for _, c := range chunks {
			b, _ := json.Marshal(CompletionResponse{Content: c})
			fmt.Fprintf(w, "data: %s\n\n", b)
			if fl != nil {
				fl.Flush()
			}
			if chunkDelay > 0 {
				time.Sleep(chunkDelay)
			}
		}
		b, _ := json.Marshal(CompletionResponse{Done: true, DoneReason: DoneReasonStop, PromptEvalCount: 1, PromptEvalDuration: 1, EvalCount: len(chunks), EvalDuration: 1})
		fmt.Fprintf(w, "data: %s\n\n", b)
	})
	mux.HandleFunc("/embedding", func(w http.ResponseWriter, r *http.Request) {
		var req EmbeddingRequest
		body, _ := io.ReadAll(r.Body)
		json.Unmarshal(body, &req)
		json.NewEncoder(w).Encode(EmbeddingResponse{Embedding: VerifEmbedding(req.Content)})
	})
	return mux
}

// VerifEmbedding: the vector the fake runner answers for `content`
func VerifEmbedding(content string) []float32 {
	sum := 0
	for _, c := range content {
		sum += int(c)
	}
	return []float32{float32(len(content)), float32(sum % 1000), 0.5}
}

var _ = os.Getenv
