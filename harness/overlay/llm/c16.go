//go:build verif

package llm

// Add-only export shims for the C16 harness (memory estimator).  Nothing here changes behaviour.

// VerifProjectorMemoryRequirements exposes the unexported projectorMemoryRequirements so that the harness can
// report, per projector file, the (weights, graph) pair that EstimateGPULayers adds up.
func VerifProjectorMemoryRequirements(filename string) (uint64, uint64) {
	return projectorMemoryRequirements(filename)
}

// VerifInternals returns the logging-only fields of a MemoryEstimate (what LogValue prints).
func (m MemoryEstimate) VerifInternals() map[string]uint64 {
	return map[string]uint64{
		"layers_model":      uint64(m.layersModel),
		"kv":                m.kv,
		"weights":           m.memoryWeights,
		"out":               m.memoryLayerOutput,
		"graph_full":        m.graphFullOffload,
		"graph_partial":     m.graphPartialOffload,
		"projector_weights": m.projectorWeights,
		"projector_graph":   m.projectorGraph,
	}
}
