//go:build verif

package llm

// C15 dynamic support, llm level: concurrent Completion / Embedding / Tokenize / Detokenize / Ping calls on ONE real
// llmServer (fake runner endpoint) under the race detector, with per-stream integrity checks.
// One JSON case per line in $C15_CASES, one JSON observation per line in $C15_OUT.

import (
	"bufio"
	"context"
	"encoding/json"
	"fmt"
	"net"
	"net/http/httptest"
	"os"
	"strconv"
	"strings"
	"sync"
	"testing"
	"time"

	"github.com/ollama/ollama/api"
)

type c15LLMCase struct {
	ID       string `json:"id"`
	Parallel int    `json:"parallel"`
	Streams  int    `json:"streams"`  // concurrent Completion calls
	Chunks   int    `json:"chunks"`   // chunks per stream
	Size     int    `json:"size"`     // bytes of the big chunks
	Embeds   int    `json:"embeds"`   // concurrent Embedding callers
	Toks     int    `json:"toks"`     // concurrent Tokenize/Detokenize callers
	Pings    int    `json:"pings"`    // concurrent Ping callers
	DelayUs  int    `json:"delay_us"` // fake runner delay between chunks
	Rounds   int    `json:"rounds"`
}

type c15LLMObs struct {
	ID       string   `json:"id"`
	Calls    int      `json:"calls"`
	Bad      []string `json:"bad"` // integrity failures / errors (first few)
	NBad     int      `json:"nbad"`
	MaxInFlight int   `json:"max_in_flight"`
}

func c15LLMRun(t *testing.T, c c15LLMCase) c15LLMObs {
	obs := c15LLMObs{ID: c.ID, Bad: []string{}}
	fake := httptest.NewServer(VerifFakeRunner(time.Duration(c.DelayUs) * time.Microsecond))
	defer fake.Close()
	_, portStr, _ := net.SplitHostPort(fake.Listener.Addr().String())
	port, _ := strconv.Atoi(portStr)
	opts := api.DefaultOptions()
	srv, err := VerifNewServer(port, c.Parallel, opts)
	if err != nil {
		t.Fatal(err)
	}
	defer srv.Close()
	var mu sync.Mutex
	bad := func(f string, a ...any) {
		mu.Lock()
		obs.NBad++
		if len(obs.Bad) < 5 {
			s := fmt.Sprintf(f, a...)
			if len(s) > 300 {
				s = s[:300]
			}
			obs.Bad = append(obs.Bad, s)
		}
		mu.Unlock()
	}
	inflight, maxIn := 0, 0
	rounds := c.Rounds
	if rounds < 1 {
		rounds = 1
	}
	ctx := context.Background()
	for round := 0; round < rounds; round++ {
		var wg sync.WaitGroup
		start := make(chan struct{})
		for i := 0; i < c.Streams; i++ {
			wg.Add(1)
			go func(i int) {
				defer wg.Done()
				<-start
				prompt := fmt.Sprintf("please sid=s%dr%d n=%d size=%d thanks", i, round, c.Chunks, c.Size+i*37)
				var sb strings.Builder
				done := 0
				first := true
				myOpts := opts // every API request has its own options
				err := srv.Completion(ctx, CompletionRequest{Prompt: prompt, Options: &myOpts}, func(r CompletionResponse) {
					if first {
						first = false
						mu.Lock()
						inflight++
						if inflight > maxIn {
							maxIn = inflight
						}
						mu.Unlock()
					}
					if r.Done {
						done++
					}
					sb.WriteString(r.Content)
				})
				mu.Lock()
				if !first {
					inflight--
				}
				obs.Calls++
				mu.Unlock()
				want := VerifExpected(prompt)
				switch {
				case err != nil:
					bad("completion %d: error %v", i, err)
				case done != 1:
					bad("completion %d: %d final responses", i, done)
				case sb.String() != want:
					got := sb.String()
					k := 0
					for k < len(got) && k < len(want) && got[k] == want[k] {
						k++
					}
					bad("completion %d received text that is not its own: differs at byte %d of %d/%d: got ...%q want ...%q", i, k, len(got), len(want), clip(got, k), clip(want, k))
				}
			}(i)
		}
		for i := 0; i < c.Embeds; i++ {
			wg.Add(1)
			go func(i int) {
				defer wg.Done()
				<-start
				for k := 0; k < 5; k++ {
					in := fmt.Sprintf("embed %d %d %s", i, k, strings.Repeat("e", i+k))
					v, err := srv.Embedding(ctx, in)
					want := VerifEmbedding(in)
					mu.Lock()
					obs.Calls++
					mu.Unlock()
					if err != nil || len(v) != len(want) || v[0] != want[0] || v[1] != want[1] {
						bad("embedding %d/%d: %v %v want %v", i, k, err, v, want)
					}
				}
			}(i)
		}
		for i := 0; i < c.Toks; i++ {
			wg.Add(1)
			go func(i int) {
				defer wg.Done()
				<-start
				for k := 0; k < 20; k++ {
					in := strings.Repeat("w"+strings.Repeat("o", i)+" ", k+1)
					toks, err := srv.Tokenize(ctx, in)
					mu.Lock()
					obs.Calls++
					mu.Unlock()
					if err != nil || len(toks) != k+1 || toks[0] != i+1 {
						bad("tokenize %d/%d: %v %v", i, k, err, toks)
						continue
					}
					s, err := srv.Detokenize(ctx, toks)
					if err != nil || len(strings.Fields(s)) != k+1 {
						bad("detokenize %d/%d: %v %q", i, k, err, s)
					}
				}
			}(i)
		}
		for i := 0; i < c.Pings; i++ {
			wg.Add(1)
			go func() {
				defer wg.Done()
				<-start
				for k := 0; k < 10; k++ {
					if err := srv.Ping(ctx); err != nil {
						bad("ping: %v", err)
					}
					_ = srv.EstimatedVRAM()
					_ = srv.EstimatedTotal()
				}
			}()
		}
		close(start)
		wg.Wait()
	}
	obs.MaxInFlight = maxIn
	return obs
}

func clip(s string, k int) string {
	a, b := k-10, k+30
	if a < 0 {
		a = 0
	}
	if b > len(s) {
		b = len(s)
	}
	return s[a:b]
}

func TestVerifC15LLM(t *testing.T) {
	in, out := os.Getenv("C15_CASES"), os.Getenv("C15_OUT")
	if in == "" || out == "" {
		t.Skip("C15_CASES / C15_OUT not set")
	}
	f, err := os.Open(in)
	if err != nil {
		t.Fatal(err)
	}
	defer f.Close()
	of, err := os.Create(out)
	if err != nil {
		t.Fatal(err)
	}
	defer of.Close()
	sc := bufio.NewScanner(f)
	sc.Buffer(make([]byte, 1<<20), 1<<24)
	for sc.Scan() {
		line := strings.TrimSpace(sc.Text())
		if line == "" {
			continue
		}
		var c c15LLMCase
		if err := json.Unmarshal([]byte(line), &c); err != nil {
			t.Fatal(err)
		}
		o := c15LLMRun(t, c)
		b, _ := json.Marshal(o)
		of.Write(append(b, '\n'))
	}
}
