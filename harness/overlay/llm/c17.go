//go:build verif

package llm

import (
	"os/exec"

	"golang.org/x/sync/semaphore"

	"github.com/ollama/ollama/api"
)

// VerifC17NewServer builds the REAL llmServer (the client side of the runner protocol: Completion, health checks, Close)
// pointed at a runner that listens on 127.0.0.1:port, without loading a model.  The runner process is a placeholder
// (`sleep`) so that getServerStatus (cmd.ProcessState) and Close (cmd.Process.Kill, <-done) work as in production.
func VerifC17NewServer(port int) (LlamaServer, error) {
	cmd := exec.Command("sleep", "86400")
	if err := cmd.Start(); err != nil {
		return nil, err
	}
	s := &llmServer{
		port:        port,
		cmd:         cmd,
		done:        make(chan error, 1),
		options:     api.DefaultOptions(),
		numParallel: 1,
		sem:         semaphore.NewWeighted(1),
	}
	go func() {
		s.done <- cmd.Wait()
	}()
	return s, nil
}
