//go:build verif

package model

import (
	"github.com/ollama/ollama/kvcache"
	"github.com/ollama/ollama/ml"
)

// C14NewBase builds a model.Base around a given backend and cache, so that the scripted model of the C14
// harness (defined outside this package, embedding Base) satisfies the Model interface, whose Config method
// returns an unexported type.
func C14NewBase(b ml.Backend, cache kvcache.Cache) Base {
	return Base{b: b, config: config{Cache: cache}}
}
