//go:build verif

package model

// VerifSplit (C20) returns what the real pre-tokeniser (regexp2, BytePairEncoding.split) yields for s,
// in order.  Add-only export; used to observe the engine that the Coq model treats as an oracle.
func (bpe *BytePairEncoding) VerifSplit(s string) []string {
	out := []string{}
	for m := range bpe.split(s) {
		out = append(out, m)
	}
	return out
}
