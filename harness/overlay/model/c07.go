//go:build verif

package model

import (
	"github.com/ollama/ollama/kvcache"
	"github.com/ollama/ollama/ml"
)

// VerifNewBase builds a model.Base around a given backend and cache, so that a scripted model
// defined outside this package (embedding Base) satisfies the Model interface (C07/C14 harness).
func VerifNewBase(b ml.Backend, cache kvcache.Cache) Base {
	return Base{b: b, config: config{Cache: cache}}
}
