module verifharness

go 1.24.0

require github.com/ollama/ollama v0.0.0

replace github.com/ollama/ollama => /repo
