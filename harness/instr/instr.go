// Package instr rewrites a copy of /repo/server/sched.go (the *current* one, at check time) so that the
// scheduler can be steered deterministically by the controller of harness/overlay/server/sched_vh.go:
//
//   - the type sync.Mutex is replaced by vhMutex (channel backed: a waiter is durably blocked for synctest,
//     and the owner is known to the controller);
//   - before every `X.Lock()`, channel send, channel receive and `select` a call vhLock/vhSend/vhRecv/vhDone/
//     vhSelect is inserted: the goroutine parks there until the controller releases it, and it is released only
//     when the operation can complete (mutex free, buffer space, value available), so exactly one scheduler
//     goroutine runs at a time and a run is a sequence of "synchronisation operation + the code up to the next one";
//   - a `select` becomes `switch vhSelect(...)`: the controller picks one of the *ready* cases (any ready case is a
//     legal outcome of the original select); when the goroutine is not controlled the original select runs;
//   - `go f()` registers the new goroutine with the controller (name fixed at spawn time, so runs are replayable);
//     `time.AfterFunc(d, f)` wraps f the same way.
//
// The rewrite only adds scheduling points and resolves nondeterminism that the Go runtime would resolve
// arbitrarily: every execution of the instrumented file is an execution of the original one.  Statements the
// rewriter does not recognise are left alone (they then simply run inside the enclosing region).
package instr

import (
	"bytes"
	"fmt"
	"go/ast"
	"go/format"
	"go/parser"
	"go/token"
	"strconv"
)

type rw struct {
	fn     string
	counts map[string]int
	sites  []string
}

func (r *rw) site(kind string) *ast.BasicLit {
	r.counts[kind]++
	s := fmt.Sprintf("%s.%s%d", r.fn, kind, r.counts[kind])
	r.sites = append(r.sites, s)
	return &ast.BasicLit{Kind: token.STRING, Value: strconv.Quote(s)}
}

func call(name string, args ...ast.Expr) *ast.CallExpr {
	return &ast.CallExpr{Fun: ast.NewIdent(name), Args: args}
}

func isDoneCall(e ast.Expr) (ast.Expr, bool) {
	c, ok := e.(*ast.CallExpr)
	if !ok || len(c.Args) != 0 {
		return nil, false
	}
	s, ok := c.Fun.(*ast.SelectorExpr)
	if !ok || s.Sel.Name != "Done" {
		return nil, false
	}
	return s.X, true
}

// recvOf returns the channel expression if e is `<-ch`
func recvOf(e ast.Expr) (ast.Expr, bool) {
	for {
		p, ok := e.(*ast.ParenExpr)
		if !ok {
			break
		}
		e = p.X
	}
	u, ok := e.(*ast.UnaryExpr)
	if !ok || u.Op != token.ARROW {
		return nil, false
	}
	return u.X, true
}

func (r *rw) recvYield(ch ast.Expr) ast.Stmt {
	if x, ok := isDoneCall(ch); ok {
		return &ast.ExprStmt{X: call("vhDone", r.site("done"), x)}
	}
	return &ast.ExprStmt{X: call("vhRecv", r.site("recv"), ch)}
}

func (r *rw) caseLit(comm ast.Stmt) ast.Expr {
	mk := func(dir string, field string, x ast.Expr) ast.Expr {
		return &ast.CompositeLit{Type: ast.NewIdent("vhCase"), Elts: []ast.Expr{
			&ast.KeyValueExpr{Key: ast.NewIdent("Dir"), Value: &ast.BasicLit{Kind: token.STRING, Value: strconv.Quote(dir)}},
			&ast.KeyValueExpr{Key: ast.NewIdent(field), Value: x},
		}}
	}
	switch c := comm.(type) {
	case *ast.SendStmt:
		return mk("s", "Ch", c.Chan)
	case *ast.ExprStmt:
		if ch, ok := recvOf(c.X); ok {
			if x, ok := isDoneCall(ch); ok {
				return mk("d", "Ctx", x)
			}
			return mk("r", "Ch", ch)
		}
	case *ast.AssignStmt:
		if len(c.Rhs) == 1 {
			if ch, ok := recvOf(c.Rhs[0]); ok {
				if x, ok := isDoneCall(ch); ok {
					return mk("d", "Ctx", x)
				}
				return mk("r", "Ch", ch)
			}
		}
	}
	return nil
}

func (r *rw) stmts(list []ast.Stmt) []ast.Stmt {
	var out []ast.Stmt
	for _, s := range list {
		out = append(out, r.stmt(s)...)
	}
	return out
}

func (r *rw) block(b *ast.BlockStmt) {
	if b != nil {
		b.List = r.stmts(b.List)
	}
}

// exprs instruments function literals and time.AfterFunc calls inside an expression / simple statement
func (r *rw) exprs(n ast.Node) {
	if n == nil {
		return
	}
	ast.Inspect(n, func(x ast.Node) bool {
		switch e := x.(type) {
		case *ast.FuncLit:
			r.block(e.Body)
			return false
		case *ast.CallExpr:
			if s, ok := e.Fun.(*ast.SelectorExpr); ok && s.Sel.Name == "AfterFunc" && len(e.Args) == 2 {
				if id, ok := s.X.(*ast.Ident); ok && id.Name == "time" {
					r.exprs(e.Args[1])
					e.Args[1] = call("vhTimer", r.site("timer"), e.Args[1])
					r.exprs(e.Args[0])
					return false
				}
			}
		}
		return true
	})
}

func (r *rw) stmt(s ast.Stmt) []ast.Stmt {
	switch st := s.(type) {
	case *ast.BlockStmt:
		r.block(st)
	case *ast.IfStmt:
		if st.Init != nil {
			r.exprs(st.Init)
		}
		r.exprs(st.Cond)
		r.block(st.Body)
		if st.Else != nil {
			e := r.stmt(st.Else)
			if len(e) == 1 {
				st.Else = e[0]
			}
		}
	case *ast.ForStmt:
		r.exprs(st.Cond)
		r.block(st.Body)
	case *ast.RangeStmt:
		r.exprs(st.X)
		r.block(st.Body)
	case *ast.SwitchStmt:
		r.exprs(st.Tag)
		for _, c := range st.Body.List {
			cc := c.(*ast.CaseClause)
			cc.Body = r.stmts(cc.Body)
		}
	case *ast.TypeSwitchStmt:
		for _, c := range st.Body.List {
			cc := c.(*ast.CaseClause)
			cc.Body = r.stmts(cc.Body)
		}
	case *ast.LabeledStmt:
		in := r.stmt(st.Stmt)
		if len(in) == 1 {
			st.Stmt = in[0]
		} else {
			// keep the label on the original statement, yields go before the label
			st.Stmt = in[len(in)-1]
			return append(in[:len(in)-1:len(in)-1], st)
		}
	case *ast.DeferStmt:
		r.exprs(st.Call)
	case *ast.ReturnStmt:
		for _, e := range st.Results {
			r.exprs(e)
		}
	case *ast.DeclStmt:
		r.exprs(st.Decl)
	case *ast.SendStmt:
		r.exprs(st.Value)
		return []ast.Stmt{&ast.ExprStmt{X: call("vhSend", r.site("send"), st.Chan)}, st}
	case *ast.ExprStmt:
		if ch, ok := recvOf(st.X); ok {
			return []ast.Stmt{r.recvYield(ch), st}
		}
		if c, ok := st.X.(*ast.CallExpr); ok {
			if sel, ok := c.Fun.(*ast.SelectorExpr); ok && sel.Sel.Name == "Lock" && len(c.Args) == 0 {
				y := &ast.ExprStmt{X: call("vhLock", r.site("lock"), &ast.UnaryExpr{Op: token.AND, X: sel.X})}
				return []ast.Stmt{y, st}
			}
		}
		r.exprs(st.X)
	case *ast.AssignStmt:
		if len(st.Rhs) == 1 {
			if ch, ok := recvOf(st.Rhs[0]); ok {
				return []ast.Stmt{r.recvYield(ch), st}
			}
		}
		for _, e := range st.Rhs {
			r.exprs(e)
		}
	case *ast.GoStmt:
		return []ast.Stmt{r.goStmt(st)}
	case *ast.SelectStmt:
		return []ast.Stmt{r.selectStmt(st)}
	}
	return []ast.Stmt{s}
}

func (r *rw) goStmt(st *ast.GoStmt) ast.Stmt {
	site := r.site("go")
	g := ast.NewIdent("vhg")
	gparam := &ast.Field{Names: []*ast.Ident{g}, Type: &ast.StarExpr{X: ast.NewIdent("vhG")}}
	prologue := []ast.Stmt{
		&ast.ExprStmt{X: call("vhEnter", g)},
		&ast.DeferStmt{Call: call("vhExit", g)},
	}
	if fl, ok := st.Call.Fun.(*ast.FuncLit); ok && !hasVariadic(fl.Type.Params) {
		r.block(fl.Body)
		for _, a := range st.Call.Args {
			r.exprs(a)
		}
		fl.Type.Params.List = append(fl.Type.Params.List, gparam)
		fl.Body.List = append(prologue, fl.Body.List...)
		st.Call.Args = append(st.Call.Args, call("vhSpawn", site))
		return st
	}
	// go f(args): arguments are evaluated inside the new goroutine's wrapper (late); acceptable for the
	// argument forms found in sched.go (none at present)
	for _, a := range st.Call.Args {
		r.exprs(a)
	}
	body := append(prologue, &ast.ExprStmt{X: st.Call})
	fl := &ast.FuncLit{Type: &ast.FuncType{Params: &ast.FieldList{List: []*ast.Field{gparam}}}, Body: &ast.BlockStmt{List: body}}
	return &ast.GoStmt{Call: &ast.CallExpr{Fun: fl, Args: []ast.Expr{call("vhSpawn", site)}}}
}

func (r *rw) selectStmt(st *ast.SelectStmt) ast.Stmt {
	hasDefault := "false"
	var cases []ast.Expr
	ok := true
	for _, c := range st.Body.List {
		cc := c.(*ast.CommClause)
		cc.Body = r.stmts(cc.Body)
		if cc.Comm == nil {
			hasDefault = "true"
			continue
		}
		l := r.caseLit(cc.Comm)
		if l == nil {
			ok = false
		}
		cases = append(cases, l)
	}
	if !ok || len(cases) == 0 {
		return st // unrecognised form: leave the select alone (it runs, and may block, inside the region)
	}
	args := append([]ast.Expr{r.site("select"), ast.NewIdent(hasDefault)}, cases...)
	sw := &ast.SwitchStmt{Tag: call("vhSelect", args...), Body: &ast.BlockStmt{}}
	lit := func(i int) ast.Expr {
		if i < 0 {
			return &ast.UnaryExpr{Op: token.SUB, X: &ast.BasicLit{Kind: token.INT, Value: strconv.Itoa(-i)}}
		}
		return &ast.BasicLit{Kind: token.INT, Value: strconv.Itoa(i)}
	}
	sw.Body.List = append(sw.Body.List, &ast.CaseClause{List: []ast.Expr{lit(-2)}, Body: []ast.Stmt{st}})
	i := 0
	for _, c := range st.Body.List {
		cc := c.(*ast.CommClause)
		if cc.Comm == nil {
			sw.Body.List = append(sw.Body.List, &ast.CaseClause{List: []ast.Expr{lit(-1)}, Body: cc.Body})
			continue
		}
		body := append([]ast.Stmt{cc.Comm}, cc.Body...)
		sw.Body.List = append(sw.Body.List, &ast.CaseClause{List: []ast.Expr{lit(i)}, Body: body})
		i++
	}
	return sw
}

// Instrument returns the rewritten source and the list of yield sites.
func Instrument(filename string, src []byte) ([]byte, []string, error) {
	fset := token.NewFileSet()
	f, err := parser.ParseFile(fset, filename, src, 0)
	if err != nil {
		return nil, nil, err
	}
	var sites []string
	// 1. sync.Mutex -> vhMutex in struct fields and var declarations
	ast.Inspect(f, func(n ast.Node) bool {
		switch x := n.(type) {
		case *ast.Field:
			if isSyncMutex(x.Type) {
				x.Type = ast.NewIdent("vhMutex")
			}
		case *ast.ValueSpec:
			if x.Type != nil && isSyncMutex(x.Type) {
				x.Type = ast.NewIdent("vhMutex")
			}
		}
		return true
	})
	// 2. function bodies
	for _, d := range f.Decls {
		fd, ok := d.(*ast.FuncDecl)
		if !ok || fd.Body == nil {
			continue
		}
		r := &rw{fn: fd.Name.Name, counts: map[string]int{}}
		r.block(fd.Body)
		sites = append(sites, r.sites...)
	}
	// 3. drop the sync import when nothing else uses it
	usesSync := false
	ast.Inspect(f, func(n ast.Node) bool {
		if s, ok := n.(*ast.SelectorExpr); ok {
			if id, ok := s.X.(*ast.Ident); ok && id.Name == "sync" {
				usesSync = true
			}
		}
		return true
	})
	if !usesSync {
		for _, d := range f.Decls {
			gd, ok := d.(*ast.GenDecl)
			if !ok || gd.Tok != token.IMPORT {
				continue
			}
			var keep []ast.Spec
			for _, s := range gd.Specs {
				is := s.(*ast.ImportSpec)
				if is.Path.Value == `"sync"` {
					continue
				}
				keep = append(keep, s)
			}
			gd.Specs = keep
		}
		var imps []*ast.ImportSpec
		for _, is := range f.Imports {
			if is.Path.Value != `"sync"` {
				imps = append(imps, is)
			}
		}
		f.Imports = imps
	}
	f.Comments = nil
	var buf bytes.Buffer
	if err := format.Node(&buf, fset, f); err != nil {
		return nil, nil, err
	}
	hdr := "// Code generated by verif harness/instr from the current server/sched.go; DO NOT EDIT.\n"
	return append([]byte(hdr), buf.Bytes()...), sites, nil
}

func hasVariadic(fl *ast.FieldList) bool {
	if fl == nil {
		return false
	}
	for _, f := range fl.List {
		if _, ok := f.Type.(*ast.Ellipsis); ok {
			return true
		}
	}
	return false
}

func isSyncMutex(e ast.Expr) bool {
	s, ok := e.(*ast.SelectorExpr)
	if !ok || s.Sel.Name != "Mutex" {
		return false
	}
	id, ok := s.X.(*ast.Ident)
	return ok && id.Name == "sync"
}
