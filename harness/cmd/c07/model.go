package main

// The scripted model: a model.Model + model.TextProcessor whose Forward stores (token, position) as the K row of
// every batch entry in the REAL kvcache, reads back the history + mask the cache exposes, and produces one-hot
// logits that are a hash of exactly that visible history.  It records everything it was given.

import (
	"errors"
	"math"
	"sort"
	"strings"
	"sync/atomic"
	"time"

	"github.com/ollama/ollama/kvcache"
	"github.com/ollama/ollama/ml"
	"github.com/ollama/ollama/model"
	"github.com/ollama/ollama/model/input"
)

type visEntry struct {
	Kpos int32
	Tok  int32
}

type fwdRec struct {
	Toks   []int32      `json:"toks"`
	Pos    []int32      `json:"pos"`
	Seqs   []int        `json:"seqs"`
	Outs   []int32      `json:"outs"`
	Vis    [][][2]int   `json:"vis"`            // per batch entry: visible history as [kpos, tok], sorted
	Chosen []int32      `json:"chosen"`         // per output: the token the logits select
	VisT   [][][][2]int `json:"vist,omitempty"` // several layer types (wrapper of caches): per layer type, per batch entry
	Cross  int32        `json:"cross"`          // encoder mode: the cross-attention input the encoder cache supplied (-1: none)
}

type scripted struct {
	model.Base
	vocab int32
	eos   int32 // -1: never
	trace []fwdRec
	// concurrent stage: called at the start of every Forward (inside processBatch, under s.mu); no trace is kept
	onForward func(seqs []int)
	// concurrent stage: requests of a burst meet in Encode (NewSequence, just before the slot selection) and go on together
	barrierN   int32
	barrierCnt atomic.Int32
	// encoder mode (mllama-style): Config().Cache is (a front of) wrapper = WrapperCache(enc, Causal); layer type 0 is
	// the cross-attention layer backed by enc, layer type 1 the self-attention layer backed by the Causal
	wrapper *kvcache.WrapperCache
	enc     *kvcache.EncoderCache
	ntypes  int // > 1: wrapper of that many causal / sliding-window caches, one layer type each
}

// hashVis is the "network": a function of the visible history only.
func hashVis(vis [][2]int, vocab int32) int32 {
	h := int64(17)
	for _, e := range vis {
		h = (h*31 + int64(e[0])*7 + int64(e[1])*13 + 5) % 1000003
	}
	return int32(h % int64(vocab))
}

func sortVis(vis [][][2]int) {
	for i := range vis {
		v := vis[i]
		sort.Slice(v, func(a, b int) bool {
			if v[a][0] != v[b][0] {
				return v[a][0] < v[b][0]
			}
			return v[a][1] < v[b][1]
		})
		if v == nil {
			vis[i] = [][2]int{}
		}
	}
}

func (m *scripted) Forward(ctx ml.Context, batch input.Batch) (ml.Tensor, error) {
	if m.onForward != nil {
		m.onForward(batch.Sequences)
	}
	toksF := batch.Inputs.(*fakeTensor).data
	n := len(toksF)
	rec := fwdRec{Pos: append([]int32{}, batch.Positions...), Seqs: append([]int{}, batch.Sequences...), Outs: append([]int32{}, batch.Outputs...)}
	// multimodal entries carry their content (an int32 code >= 1000) in the side list; it takes the place of the token
	eff := make([]int32, 0, n)
	for _, f := range toksF {
		eff = append(eff, int32(f))
	}
	for _, mm := range batch.Multimodal {
		if v, ok := mm.Multimodal.(int32); ok {
			eff[mm.Index] = v
		}
	}
	rec.Toks = eff
	cache := m.Config().Cache
	rec.Vis = make([][][2]int, n)
	rec.Cross = -1
	if m.enc != nil {
		// cross-attention layer, as mllama's TextCrossAttention does it: an image in the batch is stored; whatever the
		// encoder cache then says it holds is what every token of the batch attends to
		m.wrapper.SetLayer(0)
		m.wrapper.SetLayerType(0)
		if k := len(batch.Multimodal); k > 0 {
			if v, ok := batch.Multimodal[k-1].Multimodal.(int32); ok {
				img, _ := ctx.FromFloatSlice([]float32{float32(v)}, 1)
				m.wrapper.Put(ctx, img, img)
			}
		}
		if m.enc.EncoderCached() {
			k, _, _ := m.wrapper.Get(ctx)
			rec.Cross = int32(k.(*fakeTensor).data[0])
		}
		m.wrapper.SetLayerType(1)
	}
	if cache != nil {
		kd := make([]float32, 0, 2*n)
		for i := 0; i < n; i++ {
			kd = append(kd, float32(eff[i]), float32(batch.Positions[i]))
		}
		key, _ := ctx.FromFloatSlice(kd, 2, 1, n)
		cache.SetLayer(0)
		readVis := func() ([][][2]int, error) {
			vis := make([][][2]int, n)
			cache.Put(ctx, key, key)
			k, _, mask := cache.Get(ctx)
			kf := k.(*fakeTensor).data
			mf := mask.(*fakeTensor).data
			length := mask.Dim(0)
			for i := 0; i < n; i++ {
				for j := 0; j < length; j++ {
					if mf[i*length+j] == 0 {
						vis[i] = append(vis[i], [2]int{int(kf[2*j+1]), int(kf[2*j])})
					} else if !math.IsInf(float64(mf[i*length+j]), -1) {
						return nil, errors.New("scripted model: mask value neither 0 nor -Inf")
					}
				}
			}
			return vis, nil
		}
		if m.ntypes > 1 {
			// a model with several layer types, each backed by its own cache of the wrapper (gemma2/gemma3: local
			// sliding-window layers + global layers): every layer type stores the keys and reads what its cache exposes
			for t := 0; t < m.ntypes; t++ {
				m.wrapper.SetLayerType(t)
				vis, err := readVis()
				if err != nil {
					return nil, err
				}
				sortVis(vis)
				rec.VisT = append(rec.VisT, vis)
			}
			rec.Vis = rec.VisT[0]
		} else {
			vis, err := readVis()
			if err != nil {
				return nil, err
			}
			rec.Vis = vis
		}
	} else {
		// no cache: the model sees the batch itself, causally, per sequence
		for i := 0; i < n; i++ {
			for j := 0; j < n; j++ {
				if batch.Sequences[j] == batch.Sequences[i] && batch.Positions[j] <= batch.Positions[i] {
					rec.Vis[i] = append(rec.Vis[i], [2]int{int(batch.Positions[j]), int(eff[j])})
				}
			}
		}
	}
	sortVis(rec.Vis)
	logits := make([]float32, int(m.vocab)*len(batch.Outputs))
	for oi, o := range batch.Outputs {
		vis := rec.Vis[o]
		if len(rec.VisT) > 1 {
			vis = nil
			for t, vt := range rec.VisT {
				vis = append(vis, [2]int{-2, t})
				vis = append(vis, vt[o]...)
			}
		}
		if rec.Cross >= 0 {
			vis = append([][2]int{{-1, int(rec.Cross)}}, vis...)
		}
		t := hashVis(vis, m.vocab)
		rec.Chosen = append(rec.Chosen, t)
		logits[oi*int(m.vocab)+int(t)] = 1
	}
	if m.onForward == nil {
		m.trace = append(m.trace, rec)
	}
	return ctx.FromFloatSlice(logits, int(m.vocab), len(batch.Outputs))
}

// EncodeMultimodal / PostTokenize (model.MultimodalProcessor): an "image" is two bytes (v, n); it becomes one input
// carrying the code 1000+100*(n-1)+v with SameBatch n-1, followed by n-1 placeholder tokens that must be evaluated in
// the same batch.
const placeholderTok = 24

func (m *scripted) EncodeMultimodal(ctx ml.Context, data []byte) (any, error) {
	if len(data) != 2 || data[1] < 1 || data[1] > 9 {
		return nil, errors.New("scripted image: want (value, size 1..9)")
	}
	return int32(1000 + 100*(int32(data[1])-1) + int32(data[0])), nil
}

func (m *scripted) PostTokenize(inputs []input.Input) ([]input.Input, error) {
	var out []input.Input
	for _, in := range inputs {
		code, ok := in.Multimodal.(int32)
		if !ok {
			out = append(out, in)
			continue
		}
		sb := int((code - 1000) / 100)
		out = append(out, input.Input{Multimodal: code, MultimodalHash: in.MultimodalHash, SameBatch: sb})
		for i := 0; i < sb; i++ {
			out = append(out, input.Input{Token: placeholderTok})
		}
	}
	return out, nil
}

// text: token t <-> letter 'a'+t
func (m *scripted) Encode(s string, addSpecial bool) ([]int32, error) {
	if n := atomic.LoadInt32(&m.barrierN); n > 0 {
		m.barrierCnt.Add(1)
		deadline := time.Now().Add(50 * time.Millisecond)
		for m.barrierCnt.Load() < n && time.Now().Before(deadline) {
		}
	}
	var out []int32
	for _, r := range s {
		if r < 'a' || r > 'z' {
			return nil, errors.New("scripted tokenizer: bad character")
		}
		out = append(out, int32(r-'a'))
	}
	return out, nil
}

func (m *scripted) Decode(toks []int32) (string, error) {
	var sb strings.Builder
	for _, t := range toks {
		sb.WriteByte(byte('a' + t%26))
		if t%2 != 0 {
			sb.WriteByte(byte('A' + t%26)) // odd tokens are two letters long
		}
	}
	return sb.String(), nil
}

func (m *scripted) Is(t int32, s model.Special) bool {
	return s == model.SpecialEOS && m.eos >= 0 && t == m.eos
}

// limitedCache: a real cache behind a front that refuses partial erasure (as recurrent / encoder-style caches do):
// every Remove other than "clear the whole sequence" fails without touching the cache.
type limitedCache struct {
	kvcache.Cache
	noPartial bool
	noResume  bool // CanResume always answers false (a cache that can only be continued after a full reload)
	// concurrent stage: every cache management call must be serialized by the server's lock (cache.go: "Operations on
	// InputCacheSlot (including finding one through LoadCacheSlot) require a lock ... that serializes these operations
	// with each other and processBatch"); overlapping calls are counted, Remove lingers a little to make an overlap visible
	watch    bool
	inOp     atomic.Int32
	overlaps atomic.Int32
}

func (l *limitedCache) enter(linger bool) {
	if !l.watch {
		return
	}
	if l.inOp.Add(1) > 1 {
		l.overlaps.Add(1)
	}
	if linger {
		time.Sleep(200 * time.Microsecond)
	}
}

func (l *limitedCache) leave() {
	if l.watch {
		l.inOp.Add(-1)
	}
}

func (l *limitedCache) CanResume(seq int, pos int32) bool {
	l.enter(false)
	defer l.leave()
	if l.noResume {
		return false
	}
	return l.Cache.CanResume(seq, pos)
}

func (l *limitedCache) CopyPrefix(srcSeq, dstSeq int, len int32) {
	l.enter(true)
	defer l.leave()
	l.Cache.CopyPrefix(srcSeq, dstSeq, len)
}

func (l *limitedCache) StartForward(ctx ml.Context, batch input.Batch, reserve bool) error {
	l.enter(false)
	defer l.leave()
	return l.Cache.StartForward(ctx, batch, reserve)
}

func (l *limitedCache) Remove(seq int, beginIndex, endIndex int32) error {
	l.enter(true)
	defer l.leave()
	if l.noPartial && !(beginIndex == 0 && endIndex == math.MaxInt32) {
		return errors.New("partial erase not supported")
	}
	return l.Cache.Remove(seq, beginIndex, endIndex)
}

// shiftKeys is the model's shiftFn: K rows are (token, position); a shift adds the offset to the position.
func shiftKeys(ctx ml.Context, layer int, key, shift ml.Tensor) (ml.Tensor, error) {
	kf := key.(*fakeTensor)
	sf := shift.(*fakeTensor).data
	out := &fakeTensor{dtype: kf.dtype, elementSize: kf.elementSize, data: make([]float32, len(kf.data)), shape: kf.shape}
	copy(out.data, kf.data)
	for i := range sf {
		out.data[2*i+1] += sf[i]
	}
	return out, nil
}
