// C07 harness: drives the REAL ollamarunner.Server (NewSequence, LoadCacheSlot, processBatch, ShiftCacheSlot) over
// the REAL kvcache.Causal on an in-memory backend, with a scripted model whose output is a hash of the history
// the cache exposes.  One case = one history of submit/step operations; after every operation the slot
// bookkeeping, the live sequences and the cache contents per sequence are reported.  Every request is also run
// alone on a fresh server (the reference of "same as a fresh runner").
package main

import (
	"context"
	"fmt"
	"log/slog"
	"sort"
	"strings"

	"github.com/ollama/ollama/kvcache"
	"github.com/ollama/ollama/llm"
	"github.com/ollama/ollama/ml"
	"github.com/ollama/ollama/model"
	"github.com/ollama/ollama/runner/llamarunner"
	"github.com/ollama/ollama/runner/ollamarunner"
	"verifharness/hx"
)

type cfgT struct {
	Parallel, Kv, Batch, Vocab, Eos, Pad, MaskPad int
	Multi, Shift, Partial, Resume, NoCache, Watch bool
	Window                                        int   // 0: plain causal; >0: sliding window cache
	Encoder                                       bool  // WrapperCache(EncoderCache, Causal), as mllama
	Wrap                                          []int // WrapperCache of these caches (0: causal, w > 0: sliding window w), as gemma2/gemma3
}

func getCfg(c map[string]any) cfgT {
	m, _ := c["cfg"].(map[string]any)
	b := func(k string, d bool) bool {
		if v, ok := m[k].(bool); ok {
			return v
		}
		return d
	}
	i := func(k string, d int) int {
		if v, ok := m[k].(float64); ok {
			return int(v)
		}
		return d
	}
	var wrap []int
	if l, ok := m["wrap"].([]any); ok {
		for _, x := range l {
			wrap = append(wrap, hx.Int(x))
		}
	}
	return cfgT{Wrap: wrap, Parallel: i("parallel", 1), Kv: i("kv", 8), Batch: i("batch", 4), Vocab: i("vocab", 8), Eos: i("eos", -1),
		Pad: i("pad", 1), MaskPad: i("maskpad", 1), Multi: b("multi", false), Shift: b("shift", true), Partial: b("partial", true), Resume: b("resume", true),
		NoCache: b("nocache", false), Window: i("window", 0), Watch: b("watch", false), Encoder: b("encoder", false)}
}

type world struct {
	cfg     cfgT
	srv     *ollamarunner.Server
	m       *scripted
	causal  *kvcache.Causal
	front   *limitedCache
	causals []*kvcache.Causal // every causal / sliding-window cache behind the runner (one unless cfg.Wrap)
	enc     *kvcache.EncoderCache
	wrapper *kvcache.WrapperCache
	reqs    map[int]*ollamarunner.Sequence // request index -> sequence (live or finished, until closed seen)
	reqSlot map[int]int                    // request index -> slot it was given
}

func newWorld(cfg cfgT) (*world, error) {
	w := &world{cfg: cfg, reqs: map[int]*ollamarunner.Sequence{}, reqSlot: map[int]int{}}
	be := &fakeBackend{cachePadding: cfg.Pad, maskPadding: cfg.MaskPad}
	var cache kvcache.Cache
	if !cfg.NoCache {
		var sf func(ctx ml.Context, layer int, key, shift ml.Tensor) (ml.Tensor, error)
		if cfg.Shift {
			sf = shiftKeys
		}
		mk := func(win int) *kvcache.Causal {
			if win > 0 {
				return kvcache.NewSWACache(int32(win), sf)
			}
			return kvcache.NewCausalCache(sf)
		}
		var inner kvcache.Cache
		if len(cfg.Wrap) > 0 {
			var cs []kvcache.Cache
			for _, win := range cfg.Wrap {
				c := mk(win)
				w.causals = append(w.causals, c)
				cs = append(cs, c)
			}
			w.causal = w.causals[0]
			w.wrapper = kvcache.NewWrapperCache(cs...)
			inner = w.wrapper
		} else {
			w.causal = mk(cfg.Window)
			w.causals = []*kvcache.Causal{w.causal}
			inner = w.causal
		}
		if cfg.Encoder {
			// as model/models/mllama builds it
			w.enc = kvcache.NewEncoderCache()
			w.enc.SetConfig(ml.CacheConfig{})
			w.wrapper = kvcache.NewWrapperCache(w.enc, w.causal)
			inner = w.wrapper
		}
		if cfg.Partial && cfg.Resume && !cfg.Watch {
			cache = inner
		} else {
			w.front = &limitedCache{Cache: inner, noPartial: !cfg.Partial, noResume: !cfg.Resume, watch: cfg.Watch}
			cache = w.front
		}
	}
	w.m = &scripted{Base: model.VerifNewBase(be, cache), vocab: int32(cfg.Vocab), eos: int32(cfg.Eos), wrapper: w.wrapper, enc: w.enc, ntypes: len(cfg.Wrap)}
	var err error
	w.srv, err = ollamarunner.VerifNewServer(w.m, cfg.Parallel, cfg.Batch, cfg.Kv, cfg.Multi)
	return w, err
}

func promptString(v any) string {
	s, _ := promptAndImages(v)
	return s
}

// promptAndImages: tokens < 1000 are letters; a code 1000+100*sb+v is an image (v, sb+1) referred to by an [img-k]
// tag; the sb placeholder inputs that PostTokenize generates after it are skipped if the list already contains them.
func promptAndImages(v any) (string, []llm.ImageData) {
	l, _ := v.([]any)
	var sb strings.Builder
	var images []llm.ImageData
	skip := 0
	for _, x := range l {
		t := hx.Int(x)
		if skip > 0 && t == placeholderTok {
			skip--
			continue
		}
		skip = 0
		if t >= 1000 {
			n := (t-1000)/100 + 1
			id := len(images)
			images = append(images, llm.ImageData{ID: id, Data: []byte{byte((t - 1000) % 100), byte(n)}})
			fmt.Fprintf(&sb, "[img-%d]", id)
			skip = n - 1
		} else {
			sb.WriteByte(byte('a' + t))
		}
	}
	return sb.String(), images
}

func (w *world) cells() [][][3]int { return w.cellsOf(w.causal) }

func (w *world) cellsOf(causal *kvcache.Causal) [][][3]int {
	n := w.cfg.Parallel
	out := make([][][3]int, n)
	for i := range out {
		out[i] = [][3]int{}
	}
	if causal == nil {
		return out
	}
	for _, c := range causal.VerifCells07() {
		for _, s := range c.Seqs {
			kp, tk := int(c.Kpos), int(c.Tok)
			if !c.Data {
				kp, tk = -1, -1
			}
			if s >= 0 && s < n {
				out[s] = append(out[s], [3]int{int(c.Pos), tk, kp})
			} else {
				out = append(out, [][3]int{{s, int(c.Pos), tk}}) // a sequence id outside the slots: reported as an extra row
			}
		}
	}
	for _, v := range out {
		sort.Slice(v, func(a, b int) bool {
			for k := 0; k < 3; k++ {
				if v[a][k] != v[b][k] {
					return v[a][k] < v[b][k]
				}
			}
			return false
		})
	}
	return out
}

// observe: state projection + whatever was streamed since the last observation
func (w *world) observe(e map[string]any) {
	e["state"] = w.srv.VerifState()
	e["cells"] = w.cells()
	if len(w.causals) > 1 {
		ct := [][][][3]int{}
		for _, c := range w.causals {
			ct = append(ct, w.cellsOf(c))
		}
		e["cellst"] = ct
	}
	resp := map[string]any{}
	for k, q := range w.reqs {
		pieces, closed := q.VerifDrain()
		if len(pieces) > 0 || closed {
			r := map[string]any{"pieces": pieces, "closed": closed}
			if closed {
				r["reason"] = q.VerifDoneReason()
				delete(w.reqs, k)
			}
			resp[fmt.Sprint(k)] = r
		}
	}
	e["resp"] = resp
	if w.enc != nil {
		c, p := w.enc.VerifEnc07()
		if c {
			e["enc"] = []int{int(p)}
		} else {
			e["enc"] = []int{}
		}
	}
	e["defrag"] = defragCount
	defragCount = 0
	e["fwd"] = w.m.trace
	if w.m.trace == nil {
		e["fwd"] = []fwdRec{}
	}
	w.m.trace = nil
}

// resolvePrompt: a request either carries its prompt, or continues the conversation of an earlier request:
// prompt = the inputs currently recorded for the slot that request used (prompt + what was generated and fed
// back) followed by "extra".  The resolved prompt is written back into the op (and reported in the trace).
func (w *world) resolvePrompt(o map[string]any) {
	if o["cont"] == nil {
		return
	}
	prompt := []any{}
	if sl, ok := w.reqSlot[hx.Int(o["cont"])]; ok {
		for _, t := range w.srv.VerifState().Slots[sl].Inputs {
			prompt = append(prompt, float64(t))
		}
	}
	if ex, ok := o["extra"].([]any); ok {
		prompt = append(prompt, ex...)
	}
	o["prompt"] = prompt
	delete(o, "cont")
}

func (w *world) submit(k int, o map[string]any) map[string]any {
	w.resolvePrompt(o)
	e := map[string]any{"t": "submit", "req": k, "prompt": o["prompt"]}
	var stops []string
	if l, ok := o["stop"].([]any); ok {
		for _, x := range l { // a stop is a list of byte values
			bs, _ := x.([]any)
			var sb strings.Builder
			for _, b := range bs {
				sb.WriteByte(byte(hx.Int(b)))
			}
			stops = append(stops, sb.String())
		}
	}
	ps, images := promptAndImages(o["prompt"])
	idx, seq, kind, err := w.srv.VerifSubmitMM(ps, images, hx.Int(o["npred"]), int32(hx.Int(o["keep"])), stops)
	res := map[string]any{"kind": kind, "idx": idx}
	if err != nil {
		res["err"] = err.Error()
	}
	if kind == "" {
		w.reqs[k] = seq
		w.reqSlot[k] = w.srv.VerifState().Seqs[idx].Slot
	}
	e["res"] = res
	w.observe(e)
	return e
}

func (w *world) step() map[string]any {
	e := map[string]any{"t": "step"}
	res := map[string]any{}
	if w.srv.VerifIdle() {
		res["idle"] = true
	} else if err := w.srv.VerifStep(); err != nil {
		res["err"] = err.Error()
	}
	e["res"] = res
	w.observe(e)
	return e
}

// guarded runs one operation; a panic of the real code ends the case but keeps the trace so far
func guarded(f func() map[string]any) (e map[string]any, pan string) {
	defer func() {
		if r := recover(); r != nil {
			pan = fmt.Sprint(r)
		}
	}()
	return f(), ""
}

func runHist(c map[string]any) any {
	cfg := getCfg(c)
	w, err := newWorld(cfg)
	if err != nil {
		return map[string]any{"init_err": err.Error()}
	}
	ops, _ := c["ops"].([]any)
	maxDrain := hx.Int(c["drain"])
	trace := []map[string]any{}
	out := map[string]any{"numctx": w.srv.VerifNumCtx()}
	if w.causal != nil {
		out["ncells"] = w.causal.VerifNumCells07()
		nc := []int{}
		for _, c := range w.causals {
			nc = append(nc, c.VerifNumCells07())
		}
		out["ncellst"] = nc
	}
	nreq := 0
	var reqOps []map[string]any
	stopped := false
	do := func(f func() map[string]any) bool {
		e, pan := guarded(f)
		if pan != "" {
			out["panic"] = pan
			out["panic_at"] = len(trace)
			return false
		}
		trace = append(trace, e)
		if r, ok := e["res"].(map[string]any); ok && r["err"] != nil && e["t"] == "step" {
			return false // processBatch returned an error: the real runner panics here
		}
		return true
	}
	for _, x := range ops {
		o, _ := x.(map[string]any)
		ok := true
		if o["t"] == "submit" {
			k := nreq
			nreq++
			reqOps = append(reqOps, o)
			ok = do(func() map[string]any { return w.submit(k, o) })
		} else {
			ok = do(w.step)
		}
		if !ok {
			stopped = true
			break
		}
	}
	for i := 0; i < maxDrain && !stopped && !w.srv.VerifIdle(); i++ {
		if !do(w.step) {
			break
		}
	}
	out["trace"] = trace
	// reference: every request alone on a fresh server
	if fr, _ := c["fresh"].(bool); fr {
		refs := []any{}
		for k, o := range reqOps {
			refs = append(refs, hx.Guard(func() any { return freshRun(cfg, k, o, hx.Int(c["freshsteps"])) }))
		}
		out["fresh"] = refs
	}
	return out
}

func freshRun(cfg cfgT, k int, o map[string]any, maxSteps int) any {
	w, err := newWorld(cfg)
	if err != nil {
		return map[string]any{"init_err": err.Error()}
	}
	e := w.submit(k, o)
	res := e["res"].(map[string]any)
	out := map[string]any{"kind": res["kind"]}
	if res["kind"] != "" {
		return out
	}
	pieces := []string{}
	collect := func(e map[string]any) {
		if r, ok := e["resp"].(map[string]any)[fmt.Sprint(k)].(map[string]any); ok {
			pieces = append(pieces, r["pieces"].([]string)...)
			if r["closed"].(bool) {
				out["closed"] = true
				out["reason"] = r["reason"]
			}
		}
	}
	collect(e)
	var chosen []int32
	outvis := [][][][2]int{}
	for i := 0; i < maxSteps && !w.srv.VerifIdle(); i++ {
		e := w.step()
		if r := e["res"].(map[string]any); r["err"] != nil {
			out["err"] = r["err"]
			break
		}
		for _, f := range e["fwd"].([]fwdRec) {
			chosen = append(chosen, f.Chosen...)
			// several layer types: what each layer type's cache exposed to every sampled entry
			for _, o := range f.Outs {
				if len(f.VisT) > 1 {
					per := [][][2]int{}
					for _, vt := range f.VisT {
						per = append(per, vt[o])
					}
					outvis = append(outvis, per)
				}
			}
		}
		collect(e)
	}
	out["pieces"] = pieces
	out["chosen"] = chosen
	if len(cfg.Wrap) > 1 {
		out["outvis"] = outvis
	}
	return out
}

// logCounter swallows the packages' log output and counts kvcache's "defragmenting kv cache" messages, so that a
// history in which the cache defragmented can be told apart (defrag is C06's subject).
type logCounter struct{}

var defragCount int

func (logCounter) Enabled(context.Context, slog.Level) bool { return true }
func (logCounter) Handle(_ context.Context, r slog.Record) error {
	if r.Message == "defragmenting kv cache" {
		defragCount++
	}
	if r.Message == "evicting cache slot" || r.Message == "forking cache slot" {
		parkPoint() // inside findBestCacheSlot, before the slot is marked InUse
	}
	return nil
}
func (h logCounter) WithAttrs([]slog.Attr) slog.Handler { return h }
func (h logCounter) WithGroup(string) slog.Handler      { return h }

func ints(v any) []int {
	l, _ := v.([]any)
	out := make([]int, 0, len(l))
	for _, x := range l {
		out = append(out, hx.Int(x))
	}
	return out
}

func ints32(l []int) []int32 {
	out := make([]int32, 0, len(l))
	for _, x := range l {
		out = append(out, int32(x))
	}
	return out
}

func main() {
	slog.SetDefault(slog.New(logCounter{}))
	hx.Loop(func(c map[string]any) any {
		switch c["op"] {
		case "hist":
			return runHist(c)
		case "conc":
			return runConc(c)
		case "discard": // ShiftDiscard of both runners
			n, l, k := hx.Int(c["numctx"]), hx.Int(c["len"]), hx.Int(c["keep"])
			return map[string]any{"ollama": ollamarunner.VerifShiftDiscard07(int32(n), int32(l), int32(k)), "llama": llamarunner.VerifShiftDiscard07(n, l, k)}
		case "prefix":
			a, b := ints(c["a"]), ints(c["b"])
			return map[string]any{"ollama": ollamarunner.VerifCommonPrefix07(ints32(a), ints32(b)), "llama": llamarunner.VerifCommonPrefix07(a, b)}
		case "find": // slot choice on a hand-made InputCache without KV cache, both runners
			var slots [][]int
			var inuse []bool
			var age []int
			for _, x := range c["slots"].([]any) {
				m := x.(map[string]any)
				slots = append(slots, ints(m["inputs"]))
				inuse = append(inuse, m["inuse"].(bool))
				age = append(age, hx.Int(m["age"]))
			}
			multi, _ := c["multi"].(bool)
			prompt := ints(c["prompt"])
			out := map[string]any{}
			{
				var s32 [][]int32
				for _, r := range slots {
					s32 = append(s32, ints32(r))
				}
				ic := ollamarunner.VerifPureCache(8, multi, s32, inuse, age)
				slot, np, after, err := ic.VerifFind(ints32(prompt))
				o := map[string]any{"slot": slot, "numpast": np, "after": after}
				if err != nil {
					o["err"] = err.Error()
				}
				out["ollama"] = o
			}
			{
				slot, np, after, err := llamarunner.VerifFind07(8, multi, slots, inuse, age, prompt)
				o := map[string]any{"slot": slot, "numpast": np, "after": after}
				if err != nil {
					o["err"] = err.Error()
				}
				out["llama"] = o
			}
			return out
		}
		return map[string]any{"harness_error": "unknown op"}
	})
}
