package main

// A minimal in-memory ml.Backend / ml.Context / ml.Tensor: just what kvcache.Causal, model.Forward and the
// scripted model need.  Every tensor is a []float32 with a shape; views alias the parent's storage; Copy is
// executed immediately (the cache only ever copies whole contiguous row blocks).

import (
	"github.com/ollama/ollama/ml"
)

type fakeBackend struct {
	ml.Backend
	cachePadding int
	maskPadding  int
}

func (b *fakeBackend) NewContext() ml.Context        { return &fakeContext{} }
func (b *fakeBackend) NewContextSize(int) ml.Context { return &fakeContext{} }
func (b *fakeBackend) CacheConfig() ml.CacheConfig {
	return ml.CacheConfig{CachePadding: b.cachePadding, MaskBatchPadding: b.maskPadding}
}

type fakeContext struct {
	ml.Context
}

func (c *fakeContext) Empty(dtype ml.DType, shape ...int) ml.Tensor {
	total := 0
	if len(shape) > 0 {
		total = 1
		for _, s := range shape {
			total *= s
		}
	}
	return &fakeTensor{dtype: dtype, elementSize: 4, data: make([]float32, total), shape: append([]int(nil), shape...)}
}

func (c *fakeContext) Zeros(dtype ml.DType, shape ...int) ml.Tensor { return c.Empty(dtype, shape...) }

func (c *fakeContext) FromFloatSlice(s []float32, shape ...int) (ml.Tensor, error) {
	t := c.Empty(ml.DTypeF32, shape...).(*fakeTensor)
	copy(t.data, s)
	return t, nil
}

func (c *fakeContext) FromIntSlice(s []int32, shape ...int) (ml.Tensor, error) {
	f := make([]float32, len(s))
	for i := range f {
		f[i] = float32(s[i])
	}
	out, _ := c.FromFloatSlice(f, shape...)
	out.(*fakeTensor).dtype = ml.DTypeI32
	return out, nil
}

func (c *fakeContext) Input() ml.Context               { return c }
func (c *fakeContext) Layer(int) ml.Context            { return c }
func (c *fakeContext) Forward(...ml.Tensor) ml.Context { return c }
func (c *fakeContext) Compute(...ml.Tensor)            {}
func (c *fakeContext) Reserve() error                  { return nil }
func (c *fakeContext) MaxGraphNodes() int              { return 64 }
func (c *fakeContext) Close()                          {}

type fakeTensor struct {
	ml.Tensor
	dtype       ml.DType
	elementSize int
	data        []float32
	shape       []int
}

func (t *fakeTensor) Dim(n int) int { return t.shape[n] }
func (t *fakeTensor) Stride(n int) int {
	stride := t.elementSize
	for i := range n {
		stride *= t.shape[i]
	}
	return stride
}
func (t *fakeTensor) Shape() []int    { return t.shape }
func (t *fakeTensor) DType() ml.DType { return t.dtype }
func (t *fakeTensor) Bytes() []byte   { return nil }
func (t *fakeTensor) Floats() []float32 {
	out := make([]float32, len(t.data))
	copy(out, t.data)
	return out
}

func (t *fakeTensor) View(ctx ml.Context, offset int, shape ...int) ml.Tensor {
	offset /= t.elementSize
	var s []int
	switch len(shape) {
	case 1:
		s = []int{shape[0]}
	case 5:
		s = []int{shape[0], shape[2], shape[4]}
	default:
		panic("fakeTensor.View: unsupported number of dimensions")
	}
	n := 1
	for _, x := range s {
		n *= x
	}
	return &fakeTensor{dtype: t.dtype, elementSize: t.elementSize, data: t.data[offset : offset+n], shape: s}
}

func (t *fakeTensor) Copy(ctx ml.Context, t2 ml.Tensor) ml.Tensor {
	copy(t2.(*fakeTensor).data, t.data)
	return nil
}
