package main

// The concurrent stage: the REAL (*Server).completion HTTP handler is called from several goroutines at once while
// the REAL run loop decodes, so that the handler-level locking (slot selection + InUse marking + insertion into
// s.seqs under s.mu) is what is exercised.  Requests are first "warmed" sequentially (so that every slot holds
// inputs), then a burst is fired from a barrier.  With "park" the first request that logs from inside the slot
// selection (findBestCacheSlot logs "evicting/forking cache slot" before the slot is marked InUse) is held until a
// second one gets there too (or 25 ms pass).

import (
	"bytes"
	"context"
	"encoding/json"
	"fmt"
	"net/http"
	"net/http/httptest"
	"os"
	"sort"
	"strings"
	"sync"
	"sync/atomic"
	"time"

	"verifharness/hx"
)

var parker struct {
	mu      sync.Mutex
	enabled bool
	waiting chan struct{}
	parked  int
}

func parkPoint() {
	parker.mu.Lock()
	if !parker.enabled {
		parker.mu.Unlock()
		return
	}
	if parker.waiting != nil {
		// a second request reached the slot selection while the first is parked there
		close(parker.waiting)
		parker.waiting = nil
		parker.parked++
		parker.mu.Unlock()
		return
	}
	ch := make(chan struct{})
	parker.waiting = ch
	parker.mu.Unlock()
	select {
	case <-ch:
	case <-time.After(25 * time.Millisecond):
		parker.mu.Lock()
		if parker.waiting == ch {
			parker.waiting = nil
		}
		parker.mu.Unlock()
	}
}

type concReq struct {
	Prompt string   `json:"prompt"`
	Opts   concOpts `json:"options"`
}
type concOpts struct {
	Temperature float32  `json:"temperature"`
	NumPredict  int      `json:"num_predict"`
	NumKeep     int      `json:"num_keep"`
	Stop        []string `json:"stop"`
}

func (w *world) httpRequest(o map[string]any) map[string]any {
	ps, _ := promptAndImages(o["prompt"])
	body, _ := json.Marshal(concReq{Prompt: ps, Opts: concOpts{NumPredict: hx.Int(o["npred"]), NumKeep: hx.Int(o["keep"]), Stop: []string{}}})
	req := httptest.NewRequest(http.MethodPost, "/completion", bytes.NewReader(body))
	rec := httptest.NewRecorder()
	w.srv.VerifCompletion07(rec, req)
	out := map[string]any{"status": rec.Code}
	var text strings.Builder
	dec := json.NewDecoder(rec.Body)
	for {
		var r map[string]any
		if err := dec.Decode(&r); err != nil {
			break
		}
		if c, ok := r["content"].(string); ok {
			text.WriteString(c)
		}
		if d, _ := r["done"].(bool); d {
			out["done"] = true
			out["reason"] = r["done_reason"]
		}
	}
	if rec.Code != 200 {
		out["body"] = rec.Body.String()
	}
	out["text"] = text.String()
	return out
}

func runConc(c map[string]any) any {
	cfg := getCfg(c)
	cfg.Watch = true
	w, err := newWorld(cfg)
	if err != nil {
		return map[string]any{"init_err": err.Error()}
	}
	out := map[string]any{"numctx": w.srv.VerifNumCtx()}
	var dupMu sync.Mutex
	var dups [][]int
	w.m.onForward = func(seqs []int) {
		time.Sleep(100 * time.Microsecond) // keep the requests of a burst alive long enough to overlap in the run loop
		live := w.srv.VerifLiveSlotsUnlocked07()
		if os.Getenv("C07_DEBUG") != "" {
			fmt.Fprintln(os.Stderr, "forward seqs", seqs, "live", live)
		}
		sorted := append([]int{}, live...)
		sort.Ints(sorted)
		for i := 1; i < len(sorted); i++ {
			if sorted[i] == sorted[i-1] {
				dupMu.Lock()
				if len(dups) < 5 {
					dups = append(dups, live)
				}
				dupMu.Unlock()
				break
			}
		}
	}
	ctx, cancel := context.WithCancel(context.Background())
	defer cancel()
	var panicMu sync.Mutex
	panicked := ""
	go w.srv.VerifRun07(ctx, func(p string) {
		panicMu.Lock()
		panicked = p
		panicMu.Unlock()
	})
	warm, _ := c["warm"].([]any)
	burst, _ := c["burst"].([]any)
	var warmRes []any
	for _, x := range warm {
		warmRes = append(warmRes, w.httpRequest(x.(map[string]any)))
	}
	parker.mu.Lock()
	parker.enabled, _ = c["park"].(bool)
	parker.waiting = nil
	parker.parked = 0
	parker.mu.Unlock()
	w.m.barrierCnt.Store(0)
	atomic.StoreInt32(&w.m.barrierN, int32(len(burst)))
	res := make([]any, len(burst))
	var wg sync.WaitGroup
	start := make(chan struct{})
	for i, x := range burst {
		wg.Add(1)
		go func(i int, o map[string]any) {
			defer wg.Done()
			<-start
			done := make(chan map[string]any, 1)
			go func() { done <- w.httpRequest(o) }()
			select {
			case r := <-done:
				res[i] = r
			case <-time.After(5 * time.Second):
				res[i] = map[string]any{"timeout": true}
			}
		}(i, x.(map[string]any))
	}
	close(start)
	wg.Wait()
	atomic.StoreInt32(&w.m.barrierN, 0)
	parker.mu.Lock()
	parker.enabled = false
	out["parked"] = parker.parked
	parker.mu.Unlock()
	panicMu.Lock()
	if panicked != "" {
		out["panic"] = panicked
	}
	panicMu.Unlock()
	out["warm"] = warmRes
	out["overlaps"] = w.front.overlaps.Load()
	out["burst"] = res
	dupMu.Lock()
	out["dups"] = dups
	dupMu.Unlock()
	// the reference: every burst request alone on a fresh server (step mode)
	var refs []any
	for k, x := range burst {
		fcfg := cfg
		fcfg.Watch = false
		refs = append(refs, hx.Guard(func() any { return freshRun(fcfg, k, x.(map[string]any), 200) }))
	}
	out["fresh"] = refs
	return out
}
