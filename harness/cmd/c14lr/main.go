// C14 llamarunner harness: executes the REAL end-of-sequence paths of runner/llamarunner (flushPending,
// removeSequence, the prediction-limit check of processBatch) on a Server + Sequence built without a llama.cpp
// model, at the pending states a scripted generation reaches, with a fast or a slow/blocked reader of
// Sequence.responses.  The per-token loop body itself needs llama.cpp and is not executed here.
package main

import (
	"time"

	"github.com/ollama/ollama/runner/common"
	"github.com/ollama/ollama/runner/llamarunner"
	"verifharness/hx"
)

type segObs struct {
	Emit    []string `json:"emit"`
	Pend    []string `json:"pend"`
	Ret     *bool    `json:"ret,omitempty"`
	Closed  bool     `json:"closed"`
	Blocked bool     `json:"blocked"`
}

type obs struct {
	Outs     []string `json:"outs"`
	Segs     []segObs `json:"segs"`
	Closed   bool     `json:"closed"`
	Reason   string   `json:"reason"`
	Live     bool     `json:"live"`
	Free     int      `json:"free"`
	InUse    bool     `json:"inuse"`
	Blocked  int      `json:"blocked"`
	Hang     bool     `json:"hang,omitempty"`
	Leftover []string `json:"leftover"`
}

func runCase(c map[string]any) any {
	stops := hx.UnhexList(c["stops"])
	limit := hx.Int(c["limit"])
	reader, _ := c["reader"].(string)
	segs, _ := c["segs"].([]any)
	srv := llamarunner.C14NewServer(1)
	seq := srv.C14AddSequence(0, limit, stops)
	ch := seq.C14Responses()
	o := &obs{Outs: []string{}, Segs: []segObs{}, Leftover: []string{}}
	drainNow := func(so *segObs) {
		for {
			select {
			case r, ok := <-ch:
				if !ok {
					o.Closed, so.Closed = true, true
					return
				}
				so.Emit = append(so.Emit, hx.Hex(r))
				o.Outs = append(o.Outs, hx.Hex(r))
			default:
				return
			}
		}
	}
	for si, x := range segs {
		m := x.(map[string]any)
		kind, _ := m["kind"].(string)
		if o.Closed || !srv.C14Live(0) {
			break
		}
		seq.C14SetState(hx.UnhexList(m["pend"]), hx.Int(m["npred"]))
		so := segObs{Emit: []string{}}
		done := make(chan struct{})
		go func() {
			defer close(done)
			switch kind {
			case "flush":
				r := seq.C14Flush()
				so.Ret = &r
				if !r {
					srv.C14Remove(0, "closed") // what the loop does when the connection went away
				}
			case "eos":
				srv.C14Remove(0, "stop")
			case "stop":
				// the two statements of the loop that precede removeSequence in the stop branch (shared helpers)
				pend := seq.C14Pending()
				joined := ""
				for _, p := range pend {
					joined += p
				}
				if ok, stop := common.FindStop(joined, seq.C14Stop()); ok {
					pend, _ = common.TruncateStop(pend, stop)
					seq.C14SetState(pend, hx.Int(m["npred"]))
				}
				srv.C14Remove(0, "stop")
			case "limit", "settle":
				if err := srv.C14LimitCheck(); err != nil {
					panic(err)
				}
			default:
				panic("c14lr: unknown segment kind " + kind)
			}
		}()
		wait := 40 * time.Millisecond
		select {
		case <-done:
		case <-time.After(wait):
			// the producer is blocked on a full channel: it must wait for the reader, not drop anything
			so.Blocked = true
			o.Blocked++
			if reader == "never" {
				seq.C14CloseQuit()
				<-done
				break
			}
			rd := ch
			for fin := false; !fin; {
				select {
				case <-done:
					fin = true
				case r, ok := <-rd:
					if !ok {
						o.Closed, so.Closed = true, true
						rd = nil
					} else {
						so.Emit = append(so.Emit, hx.Hex(r))
						o.Outs = append(o.Outs, hx.Hex(r))
					}
				}
			}
		}
		last := si == len(segs)-1
		if reader == "fast" || last || !srv.C14Live(0) {
			if !o.Closed {
				drainNow(&so)
			}
		}
		so.Pend = hx.HexList(seq.C14Pending())
		o.Segs = append(o.Segs, so)
	}
	if !o.Closed {
		var so segObs
		drainNow(&so)
	}
	o.Reason = seq.C14DoneReason()
	o.Live = srv.C14Live(0)
	o.Free = srv.C14FreeEntries()
	o.InUse = seq.C14SlotInUse()
	return o
}


type event struct {
	Emit  []string `json:"emit"`
	Pend  []string `json:"pend"`
	Npred int      `json:"npred"`
	Done  bool     `json:"done"`
}

type loopObs struct {
	Submit    string   `json:"submit"`
	Outs      []string `json:"outs"`
	Reason    string   `json:"reason"`
	Closed    bool     `json:"closed"`
	Npred     int      `json:"npred"`
	Events    []event  `json:"events"`
	Blocked   int      `json:"blocked"`
	Exhausted bool     `json:"exhausted"`
	NoTail    bool     `json:"notail,omitempty"`
}

// runLoop drives llamarunner's own per-token statements (generated c14Tail) with scripted pieces: per token the real
// limit check (processBatch(nil, nil)), then the loop body for the sampled token, then the stand-in for Decode.
func runLoop(c map[string]any) any {
	o := &loopObs{Submit: "ok", Outs: []string{}, Events: []event{}}
	if !llamarunner.C14TailAvailable() {
		o.NoTail = true
		return o
	}
	stops := hx.UnhexList(c["stops"])
	limit := hx.Int(c["limit"])
	reader, _ := c["reader"].(string)
	if reader != "fast" {
		o.Submit = "slow"
	}
	toks, _ := c["toks"].([]any)
	srv := llamarunner.C14NewServer(1)
	seq := srv.C14AddSequence(0, limit, stops)
	seq.C14Prompt(hx.Int(c["prompt"]))
	ch := seq.C14Responses()
	// run one operation; when it blocks on the full response channel, read until it returns
	do := func(f func()) {
		done := make(chan struct{})
		go func() { defer close(done); f() }()
		select {
		case <-done:
			return
		case <-time.After(40 * time.Millisecond):
		}
		o.Blocked++
		rd := ch
		for {
			select {
			case <-done:
				return
			case r, ok := <-rd:
				if !ok {
					o.Closed = true
					rd = nil
				} else {
					o.Outs = append(o.Outs, hx.Hex(r))
				}
			}
		}
	}
	drain := func() (emit []string) {
		for !o.Closed {
			select {
			case r, ok := <-ch:
				if !ok {
					o.Closed = true
				} else {
					emit = append(emit, hx.Hex(r))
					o.Outs = append(o.Outs, hx.Hex(r))
				}
			default:
				return
			}
		}
		return
	}
	last := 0
	note := func() {
		var emit []string
		if reader == "fast" || !srv.C14Live(0) {
			emit = drain()
		}
		np := seq.C14Predicted()
		if reader == "fast" && (len(emit) > 0 || o.Closed || np != last) {
			if emit == nil {
				emit = []string{}
			}
			o.Events = append(o.Events, event{Emit: emit, Pend: hx.HexList(seq.C14Pending()), Npred: np, Done: o.Closed})
		}
		last = np
	}
	for ti := 0; ; ti++ {
		if !srv.C14Live(0) {
			break
		}
		do(func() {
			if err := srv.C14LimitCheck(); err != nil {
				panic(err)
			}
		})
		if !srv.C14Live(0) {
			note()
			break
		}
		if ti >= len(toks) {
			o.Exhausted = true
			break
		}
		t := toks[ti].(string)
		do(func() {
			if t == "EOS" {
				srv.C14Tail(0, ti, "<eos>", true)
			} else {
				srv.C14Tail(0, ti, hx.Unhex(t), false)
			}
		})
		if srv.C14Live(0) {
			seq.C14Decoded()
		}
		note()
	}
	drain()
	o.Npred = seq.C14Predicted()
	if o.Closed {
		o.Reason = seq.C14DoneReason()
	}
	return o
}

func main() {
	hx.Loop(func(c map[string]any) any {
		done := make(chan any, 1)
		go func() {
			done <- hx.Guard(func() any {
				if op, _ := c["op"].(string); op == "loop" {
					return runLoop(c)
				}
				return runCase(c)
			})
		}()
		select {
		case r := <-done:
			return r
		case <-time.After(20 * time.Second):
			return &obs{Hang: true}
		}
	})
}
