// twin: extracts, from the current source of both runners, the statements that make up the per-token
// streaming logic (the part modelled by coq/Runner/Stop.v) and prints them in a canonical form, so that the
// check can tell whether runner/llamarunner (which cannot be executed without a llama.cpp model) still has
// the same streaming logic as runner/ollamarunner (which is executed against the model).
package main

import (
	"bytes"
	"encoding/json"
	"fmt"
	"go/ast"
	"go/parser"
	"go/printer"
	"go/token"
	"os"
	"path/filepath"
	"strings"
)

func render(fset *token.FileSet, n any) string {
	var b bytes.Buffer
	printer.Fprint(&b, fset, n)
	// drop comments-free whitespace differences
	lines := strings.Split(b.String(), "\n")
	out := lines[:0]
	for _, l := range lines {
		l = strings.TrimSpace(l)
		if l != "" && !strings.HasPrefix(l, "//") {
			out = append(out, l)
		}
	}
	return strings.Join(out, "\n")
}

func isSel(e ast.Expr, x, sel string) bool {
	s, ok := e.(*ast.SelectorExpr)
	if !ok {
		return false
	}
	id, ok := s.X.(*ast.Ident)
	return ok && id.Name == x && s.Sel.Name == sel
}

func extract(path string) map[string]any {
	fset := token.NewFileSet()
	f, err := parser.ParseFile(fset, path, nil, 0) // comments dropped
	if err != nil {
		return map[string]any{"error": err.Error()}
	}
	res := map[string]any{}
	order := map[string]int{}
	for _, d := range f.Decls {
		fd, ok := d.(*ast.FuncDecl)
		if !ok {
			continue
		}
		switch fd.Name.Name {
		case "flushPending":
			res["flush"] = render(fset, fd.Body)
		case "removeSequence":
			var parts []string
			for _, st := range fd.Body.List {
				s := render(fset, st)
				if strings.Contains(s, "flushPending") || strings.Contains(s, "doneReason") || strings.Contains(s, "close(seq.responses)") {
					parts = append(parts, s)
				}
			}
			res["remove"] = strings.Join(parts, "\n")
		case "processBatch":
			ast.Inspect(fd.Body, func(n ast.Node) bool {
				switch st := n.(type) {
				case *ast.BlockStmt:
					for i, s := range st.List {
						if as, ok := s.(*ast.AssignStmt); ok && len(as.Lhs) == 1 && isSel(as.Lhs[0], "seq", "pendingResponses") {
							if call, ok := as.Rhs[0].(*ast.CallExpr); ok {
								if id, ok := call.Fun.(*ast.Ident); ok && id.Name == "append" {
									var parts []string
									for _, t := range st.List[i:] {
										parts = append(parts, render(fset, t))
									}
									res["tail"] = strings.Join(parts, "\n")
									order["append"] = int(as.Pos())
								}
							}
						}
					}
				case *ast.IfStmt:
					c := render(fset, st.Cond)
					b := render(fset, st.Body)
					if strings.Contains(c, "seq.numPredict > 0") {
						res["limit_cond"] = c
						res["limit_body"] = strings.NewReplacer("seqIdx", "IDX", "(i,", "(IDX,").Replace(b)
						order["limit"] = int(st.Pos())
					}
					if strings.Contains(b, "DoneReasonStop") && (strings.Contains(c, "SpecialEOS") || strings.Contains(c, "TokenIsEog")) {
						res["eos_body"] = b
						order["eos"] = int(st.Pos())
					}
				case *ast.IncDecStmt:
					if isSel(st.X, "seq", "numPredicted") && st.Tok == token.INC {
						order["inc"] = int(st.Pos())
						res["inc_count"] = fmt.Sprint(res["inc_count"], "+")
					}
				}
				return true
			})
		}
	}
	res["order_ok"] = order["limit"] > 0 && order["limit"] < order["inc"] && order["inc"] < order["eos"] && order["eos"] < order["append"]
	return res
}

func main() {
	repo := os.Args[1]
	out := map[string]any{
		"ollamarunner": extract(filepath.Join(repo, "runner/ollamarunner/runner.go")),
		"llamarunner":  extract(filepath.Join(repo, "runner/llamarunner/runner.go")),
	}
	json.NewEncoder(os.Stdout).Encode(out)
}
