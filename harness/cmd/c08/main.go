// C08 harness: runs the real blob.DiskCache (server/internal/cache/blob) on the cases given on stdin, through the
// add-only overlay driver harness/overlay/server/internal/cache/blob/c08.go (re-exported by package server).
// With VERIF_C08_CHILD=1 the process is the crash-injection child of one Put (killed by SIGKILL at a scripted Read).
package main

import (
	"os"

	"github.com/ollama/ollama/server"
	"verifharness/hx"
)

func main() {
	if os.Getenv("VERIF_C08_CHILD") == "1" {
		server.VerifC08Child()
		return
	}
	hx.Loop(func(c map[string]any) any { return server.VerifC08(c) })
}
