// C05 harness: runs the real ggml.WriteGGUF and ggml.Decode of /repo on the cases given on stdin.
//
//	{"op":"rt", "kv":[{"k":hex,"t":"u32|f32|bool|str|i32s|u32s|f32s|strs","v":...}], "tensors":[{"name":hex,"kind":n,"shape":["dec",..],"data":hex}],
//	 "max_array":n, "file":bool}
//	    -> {"werr":..., "bytes":hex, "order":[input index of the i-th written tensor], "blocks":[Tensor.block() per input tensor], "dec":{...}}
//	{"op":"leaf_kind","kind":n}            -> {"ts":typeSize,"bs":blockSize}
//	{"op":"leaf_pad","off":"dec","al":"dec"} -> {"pad":"dec"}
//	{"op":"decode","bytes":hex,"max_array":n} -> {"dec":{...}}
package main

import (
	"bytes"
	"encoding/hex"
	"fmt"
	"io"
	"math/bits"
	"os"
	"strconv"

	"github.com/ollama/ollama/fs/ggml"
	"github.com/ollama/ollama/fs/util/bufioutil"
	"verifharness/cmd/c05/ggdump"
	"verifharness/hx"
)

// idxReader is the tensor's io.WriterTo; it remembers the input index (the sort moves tensors) and can misreport the number of
// bytes it wrote, as every tensor writer of the convert package does (safetensor, torch, experts, ropeFactor all return 0).
type idxReader struct {
	*bytes.Reader
	idx int
	lie string // "": faithful, "zero": 0, "short": n-1, "double": 2n, "neg": -1
}

func (r *idxReader) WriteTo(w io.Writer) (int64, error) {
	n, err := r.Reader.WriteTo(w)
	switch r.lie {
	case "zero":
		return 0, err
	case "short":
		if n > 0 {
			return n - 1, err
		}
	case "double":
		return 2 * n, err
	case "neg":
		return -1, err
	}
	return n, err
}

// memWS is an in-memory io.WriteSeeker.
type memWS struct {
	b   []byte
	pos int64
}

func (m *memWS) Write(p []byte) (int, error) {
	end := m.pos + int64(len(p))
	if end > int64(len(m.b)) {
		m.b = append(m.b, make([]byte, end-int64(len(m.b)))...)
	}
	copy(m.b[m.pos:], p)
	m.pos = end
	return len(p), nil
}

func (m *memWS) Seek(off int64, whence int) (int64, error) {
	switch whence {
	case io.SeekStart:
		m.pos = off
	case io.SeekCurrent:
		m.pos += off
	case io.SeekEnd:
		m.pos = int64(len(m.b)) + off
	}
	if m.pos < 0 {
		return 0, fmt.Errorf("negative position")
	}
	return m.pos, nil
}

func polyHash(h uint64, x uint64) uint64 {
	hi, lo := bits.Mul64(h, 1000003)
	lo, c := bits.Add64(lo, x+1, 0)
	_, rem := bits.Div64(hi+c, lo, 2305843009213693951)
	return rem
}

func u64(v any) uint64 {
	s, _ := v.(string)
	x, err := strconv.ParseUint(s, 10, 64)
	if err != nil {
		panic("harness: bad number " + s)
	}
	return x
}

func buildKV(l []any) ggml.KV {
	kv := ggml.KV{}
	for _, e := range l {
		m := e.(map[string]any)
		k := hx.Unhex(m["k"])
		switch m["t"] {
		case "u32":
			kv[k] = uint32(u64(m["v"]))
		case "f32":
			kv[k] = f32(uint32(u64(m["v"])))
		case "bool":
			kv[k] = m["v"].(bool)
		case "str":
			kv[k] = hx.Unhex(m["v"])
		case "i32s":
			s := []int32{}
			for _, x := range m["v"].([]any) {
				s = append(s, int32(uint32(u64(x))))
			}
			kv[k] = s
		case "u32s":
			s := []uint32{}
			for _, x := range m["v"].([]any) {
				s = append(s, uint32(u64(x)))
			}
			kv[k] = s
		case "f32s":
			s := []float32{}
			for _, x := range m["v"].([]any) {
				s = append(s, f32(uint32(u64(x))))
			}
			kv[k] = s
		case "strs":
			kv[k] = hx.UnhexList(m["v"])
		default:
			panic("harness: bad kv type")
		}
	}
	return kv
}

func main() {
	hx.Loop(func(c map[string]any) any {
		switch c["op"] {
		case "rt":
			job := prepareRT(c)
			if f, _ := c["file"].(bool); f {
				fh, err := os.CreateTemp(".", "c05-*.gguf")
				if err != nil {
					panic("harness: " + err.Error())
				}
				defer os.Remove(fh.Name())
				defer fh.Close()
				job.werr = ggml.WriteGGUF(fh, job.kv, job.ts)
				job.out, _ = os.ReadFile(fh.Name())
			} else {
				ws := &memWS{}
				job.werr = ggml.WriteGGUF(ws, job.kv, job.ts)
				job.out = ws.b
			}
			return job.result(c)
		case "conc":
			return runConcurrent(c)
		case "block":
			// Tensor.block() for explicit names
			out := []string{}
			for _, n := range hx.UnhexList(c["names"]) {
				out = append(out, strconv.Itoa(ggml.VerifBlock(ggml.Tensor{Name: n})))
			}
			return map[string]any{"blocks": out}
		case "block_all":
			// Tensor.block() for prefix + every string of length 0..maxlen over the alphabet (by length, then lexicographic
			// by alphabet index); digest of the results
			alpha := []byte(hx.Unhex(c["alpha"]))
			prefix := hx.Unhex(c["prefix"])
			h := uint64(7)
			n := 0
			var rec func(cur []byte, left int)
			rec = func(cur []byte, left int) {
				if left == 0 {
					n++
					v := ggml.VerifBlock(ggml.Tensor{Name: prefix + string(cur)})
					h = polyHash(h, uint64(int64(v))%2305843009213693951)
					return
				}
				for _, a := range alpha {
					rec(append(cur, a), left-1)
				}
			}
			for l := 0; l <= hx.Int(c["maxlen"]); l++ {
				rec(nil, l)
			}
			return map[string]any{"n": n, "hash": strconv.FormatUint(h, 10)}
		case "ftype":
			// type.go: name of a file type number and what ParseFileType makes of that name (-1 = error)
			t := uint32(u64(c["t"]))
			name := ggml.VerifFileTypeString(t)
			parsed := int64(-1)
			if ft, err := ggml.ParseFileType(name); err == nil {
				parsed = int64(ft.Value())
			}
			tt := ggml.Tensor{Kind: t}
			return map[string]any{"name": hx.Hex(name), "parsed": strconv.FormatInt(parsed, 10), "tensor_type": hx.Hex(tt.Type())}
		case "parse":
			parsed := int64(-1)
			if ft, err := ggml.ParseFileType(hx.Unhex(c["s"])); err == nil {
				parsed = int64(ft.Value())
			}
			return map[string]any{"parsed": strconv.FormatInt(parsed, 10)}
		case "bseek":
			// buffer_seeker.go over a bytes.Reader: io.ReadFull / Seek sequences
			data, err := hex.DecodeString(c["data"].(string))
			if err != nil {
				panic("harness: bad hex")
			}
			bs := bufioutil.NewBufferedSeeker(bytes.NewReader(data), hx.Int(c["bufsize"]))
			res := []any{}
			for _, o := range c["ops"].([]any) {
				op := o.([]any)
				switch op[0] {
				case "r":
					buf := make([]byte, hx.Int(op[1]))
					n, err := io.ReadFull(bs, buf)
					res = append(res, map[string]any{"b": hex.EncodeToString(buf[:n]), "e": ggdump.ErrClass(err)})
				case "s":
					off, err := strconv.ParseInt(op[1].(string), 10, 64)
					if err != nil {
						panic("harness: bad offset")
					}
					pos, err := bs.Seek(off, hx.Int(op[2]))
					res = append(res, map[string]any{"p": strconv.FormatInt(pos, 10), "ok": err == nil})
				}
			}
			return map[string]any{"res": res}
		case "leaf_kind":
			k := uint32(u64(c["kind"]))
			return map[string]any{"ts": ggdump.U(ggml.VerifTypeSize(k)), "bs": ggdump.U(ggml.VerifBlockSize(k))}
		case "leaf_pad":
			return map[string]any{"pad": strconv.FormatInt(ggml.VerifPadding(int64(u64(c["off"])), int64(u64(c["al"]))), 10)}
		case "decode":
			b, err := hex.DecodeString(c["bytes"].(string))
			if err != nil {
				panic("harness: bad hex")
			}
			return map[string]any{"dec": ggdump.Decode(b, hx.Int(c["max_array"]), "")}
		}
		return map[string]any{"harness_error": "unknown op"}
	})
}
