package main

import "math"

func f32(bits uint32) float32 { return math.Float32frombits(bits) }
