// Package ggdump: shared by the C05 and C10 harness mains. Runs the real ggml.Decode on a byte string and
// projects the result (KV, tensors, offsets, end position) into JSON-safe form.
package ggdump

import (
	"bytes"
	"encoding/hex"
	"errors"
	"fmt"
	"io"
	"os"
	"runtime"
	"sort"
	"strconv"

	"github.com/ollama/ollama/fs/ggml"
)

type KVItem struct {
	K string        `json:"k"`
	V ggml.VerifVal `json:"v"`
}

type TensorItem struct {
	Name   string   `json:"name"`
	Kind   uint32   `json:"kind"`
	Shape  []string `json:"shape"`
	Offset string   `json:"offset"`
	Size   string   `json:"size"`
}

type Decoded struct {
	Err     string       `json:"err,omitempty"`  // "", "eof", "ueof", "other"
	ErrText string       `json:"errtext,omitempty"`
	Panic   string       `json:"panic,omitempty"`
	Version uint32       `json:"version"`
	KV      []KVItem     `json:"kv"`
	Tensors []TensorItem `json:"tensors"`
	TOff    string       `json:"toff"`
	End     string       `json:"end"`
	Alloc   uint64       `json:"alloc"` // bytes allocated (runtime TotalAlloc) during ggml.Decode alone
	File    *ggml.GGML   `json:"-"`
}

func U(x uint64) string { return strconv.FormatUint(x, 10) }

func ErrClass(err error) string {
	switch {
	case err == nil:
		return ""
	case errors.Is(err, io.EOF):
		return "eof"
	case errors.Is(err, io.ErrUnexpectedEOF):
		return "ueof"
	}
	return "other"
}

// Decode runs the real decoder. A panic is recovered and reported (a fatal runtime error such as out of
// memory cannot be recovered: the caller runs this in a child process with an address-space limit).
func Decode(b []byte, maxArr int, viaFile string) (d Decoded) { return DecodeAt(b, maxArr, viaFile, 0) }

// DecodeAt decodes b as the content that follows `skip` bytes of other data in the same reader (as ggufLayers does
// for the second and later models of one blob): every position the decoder sees is absolute.
func DecodeAt(b []byte, maxArr int, viaFile string, skip int) (d Decoded) {
	defer func() {
		if r := recover(); r != nil {
			d = Decoded{Panic: fmt.Sprint(r)}
		}
	}()
	if skip > 0 {
		pre := make([]byte, skip)
		for i := range pre {
			pre[i] = byte(0xA5 ^ i)
		}
		b = append(pre, b...)
	}
	var rs io.ReadSeeker = bytes.NewReader(b)
	if viaFile != "" {
		if err := os.WriteFile(viaFile, b, 0o600); err != nil {
			panic("harness: " + err.Error())
		}
		f, err := os.Open(viaFile)
		if err != nil {
			panic("harness: " + err.Error())
		}
		defer f.Close()
		defer os.Remove(viaFile)
		rs = f
	}
	if skip > 0 {
		if _, err := rs.Seek(int64(skip), io.SeekStart); err != nil {
			panic("harness: " + err.Error())
		}
	}
	var m1, m2 runtime.MemStats
	runtime.ReadMemStats(&m1)
	f, end, err := ggml.Decode(rs, maxArr)
	runtime.ReadMemStats(&m2)
	d.Alloc = m2.TotalAlloc - m1.TotalAlloc
	if err != nil {
		return Decoded{Err: ErrClass(err), ErrText: err.Error(), Alloc: d.Alloc}
	}
	d.File = f
	d.Version = ggml.VerifVersion(f)
	d.End = strconv.FormatInt(end, 10)
	d.TOff = U(f.Tensors().Offset)
	kv := f.KV()
	keys := make([]string, 0, len(kv))
	for k := range kv {
		keys = append(keys, k)
	}
	sort.Strings(keys)
	d.KV = make([]KVItem, 0, len(keys))
	for _, k := range keys {
		d.KV = append(d.KV, KVItem{K: hex.EncodeToString([]byte(k)), V: ggml.VerifValue(kv[k])})
	}
	d.Tensors = []TensorItem{}
	for _, t := range f.Tensors().Items() {
		sh := make([]string, 0, len(t.Shape))
		for _, x := range t.Shape {
			sh = append(sh, U(x))
		}
		d.Tensors = append(d.Tensors, TensorItem{Name: hex.EncodeToString([]byte(t.Name)), Kind: t.Kind, Shape: sh, Offset: U(t.Offset), Size: U(t.Size())})
	}
	return d
}
