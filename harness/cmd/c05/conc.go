package main

// Concurrent / repeated use of ggml.WriteGGUF: state shared between calls (package-level pools, caches, scratch buffers) is
// invisible to a check that writes one file at a time.
//
//	{"op":"conc", "writers":[<rt case>, ...], "mode":"lockstep"|"free"|"seq", "procs":n, "sched":[writer index, ...]}
//	  -> {"writers":[<rt observation>, ...]}
//
// lockstep: every writer runs in its own goroutine; its WriteSeeker stops at the START of every Write - holding the slice it was
// handed, not yet copied - and continues only when the scheduler gives it the next turn ("sched" = the order of turns, repeated;
// one writer runs at a time, so every interleaving at Write granularity is reachable and reproducible).  A writer that hands
// Write a slice that another WriteGGUF call can still modify (a buffer already returned to a pool) gets another writer's bytes.
// free: the goroutines run freely (GOMAXPROCS procs), Write yields the processor before copying; this is the mode run under -race.
// seq: the same files one after the other in this process (stale state from a larger/smaller previous file).

import (
	"bytes"
	"encoding/hex"
	"runtime"
	"sync"

	"github.com/ollama/ollama/fs/ggml"
	"verifharness/cmd/c05/ggdump"
	"verifharness/hx"
)

type rtJob struct {
	kv     ggml.KV
	ts     []ggml.Tensor
	blocks []int
	out    []byte
	werr   error
}

func prepareRT(c map[string]any) *rtJob {
	job := &rtJob{kv: buildKV(c["kv"].([]any))}
	tl, _ := c["tensors"].([]any)
	for i, e := range tl {
		m := e.(map[string]any)
		shape := []uint64{}
		for _, x := range m["shape"].([]any) {
			shape = append(shape, u64(x))
		}
		data, err := hex.DecodeString(m["data"].(string))
		if err != nil {
			panic("harness: bad hex")
		}
		t := ggml.Tensor{Name: hx.Unhex(m["name"]), Kind: uint32(hx.Int(m["kind"])), Shape: shape, WriterTo: &idxReader{Reader: bytes.NewReader(data), idx: i, lie: lieOf(m)}}
		job.ts = append(job.ts, t)
		job.blocks = append(job.blocks, ggml.VerifBlock(t))
	}
	if job.blocks == nil {
		job.blocks = []int{}
	}
	return job
}

func (job *rtJob) result(c map[string]any) map[string]any {
	res := map[string]any{"blocks": job.blocks}
	if job.werr != nil {
		res["werr"] = job.werr.Error()
		return res
	}
	order := make([]int, 0, len(job.ts))
	for _, t := range job.ts {
		order = append(order, t.WriterTo.(*idxReader).idx)
	}
	res["order"] = order
	res["bytes"] = hex.EncodeToString(job.out)
	via := ""
	if f, _ := c["file"].(bool); f {
		via = "c05-dec.gguf"
	}
	res["dec"] = ggdump.Decode(job.out, hx.Int(c["max_array"]), via)
	return res
}

// gateWS is a memWS whose Write waits for its turn before copying the bytes it was given.
type gateWS struct {
	memWS
	wait func()
}

func (g *gateWS) Write(p []byte) (int, error) {
	g.wait()
	return g.memWS.Write(p)
}

func runConcurrent(c map[string]any) map[string]any {
	wl := c["writers"].([]any)
	n := len(wl)
	jobs := make([]*rtJob, n)
	cases := make([]map[string]any, n)
	for i, w := range wl {
		cases[i] = w.(map[string]any)
		jobs[i] = prepareRT(cases[i])
	}
	mode, _ := c["mode"].(string)
	procs := hx.Int(c["procs"])
	if procs <= 0 {
		procs = 1
	}
	prev := runtime.GOMAXPROCS(procs)
	defer runtime.GOMAXPROCS(prev)
	panics := make([]string, n)
	runOne := func(i int, ws *gateWS) {
		defer func() {
			if r := recover(); r != nil {
				panics[i] = hx.Guard(func() any { panic(r) }).(map[string]any)["panic"].(string)
			}
		}()
		jobs[i].werr = ggml.WriteGGUF(ws, jobs[i].kv, jobs[i].ts)
		jobs[i].out = ws.b
	}
	switch mode {
	case "seq":
		for i := range jobs {
			runOne(i, &gateWS{wait: func() {}})
		}
	case "free":
		var wg sync.WaitGroup
		start := make(chan struct{})
		for i := range jobs {
			wg.Add(1)
			go func(i int) {
				defer wg.Done()
				<-start
				runOne(i, &gateWS{wait: func() { runtime.Gosched(); runtime.Gosched() }})
			}(i)
		}
		close(start)
		wg.Wait()
	default: // lockstep
		type event struct{ done bool }
		goCh := make([]chan struct{}, n)
		evCh := make([]chan event, n)
		for i := range jobs {
			goCh[i] = make(chan struct{})
			evCh[i] = make(chan event)
			go func(i int) {
				<-goCh[i]
				runOne(i, &gateWS{wait: func() {
					evCh[i] <- event{}
					<-goCh[i]
				}})
				evCh[i] <- event{done: true}
			}(i)
		}
		sched := []int{}
		if l, ok := c["sched"].([]any); ok {
			for _, x := range l {
				sched = append(sched, hx.Int(x)%n)
			}
		}
		if len(sched) == 0 {
			for i := 0; i < n; i++ {
				sched = append(sched, i)
			}
		}
		live := make([]bool, n)
		nlive := n
		for i := range live {
			live[i] = true
		}
		for k := 0; nlive > 0; k++ {
			i := sched[k%len(sched)]
			if !live[i] {
				// next live writer after i
				for d := 1; d <= n; d++ {
					if live[(i+d)%n] {
						i = (i + d) % n
						break
					}
				}
			}
			goCh[i] <- struct{}{}
			if ev := <-evCh[i]; ev.done {
				live[i] = false
				nlive--
			}
		}
	}
	outs := make([]any, n)
	for i := range jobs {
		if panics[i] != "" {
			outs[i] = map[string]any{"panic": panics[i], "blocks": jobs[i].blocks}
			continue
		}
		outs[i] = jobs[i].result(cases[i])
	}
	return map[string]any{"writers": outs}
}

func lieOf(m map[string]any) string {
	s, _ := m["lie"].(string)
	return s
}
