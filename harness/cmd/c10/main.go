// C10 harness: runs the real ggml.Decode of /repo on arbitrary byte strings, one JSON case per line on stdin, one
// JSON observation per line on stdout, flushed after every case (the driver runs this process under an
// address-space limit: a runaway allocation kills the process, the driver sees which case did it and restarts).
//
//	{"op":"decode","bytes":hex,"max_array":n,"file":bool}
//	   -> {"dec":{err|panic|version,kv,tensors,toff,end,alloc}, "acc":{...create/show accessors...}, "acc2":{...load-path accessors...}}
package main

import (
	"bufio"
	"bytes"
	"encoding/hex"
	"encoding/json"
	"fmt"
	"io"
	"log/slog"
	"math/bits"
	"os"
	"runtime/debug"
	"strconv"
	"strings"

	"github.com/ollama/ollama/fs/ggml"
	"verifharness/cmd/c05/ggdump"
	"verifharness/hx"
)

func guard(f func() any) (res any, panicked string) {
	defer func() {
		if r := recover(); r != nil {
			panicked = fmt.Sprint(r)
		}
	}()
	return f(), ""
}

// accessors that create (ggufLayers, detectChatTemplate, createModel) and show (Capabilities, getModelData) call on
// a decoded file
func createShowAccessors(f *ggml.GGML) map[string]any {
	out := map[string]any{}
	run := func(name string, fn func() any) {
		v, p := guard(fn)
		if p != "" {
			out[name] = map[string]any{"panic": p}
		} else {
			out[name] = v
		}
	}
	kv := f.KV()
	run("architecture", func() any { return hx.Hex(kv.Architecture()) })
	run("kind", func() any { return hx.Hex(kv.Kind()) })
	run("file_type", func() any { return fmt.Sprint(uint32(kv.FileType())) })
	run("file_type_string", func() any { return kv.FileType().String() })
	run("chat_template", func() any { return hx.Hex(kv.ChatTemplate()) })
	run("parameter_count", func() any { return fmt.Sprint(kv.ParameterCount()) })
	run("vision", func() any { _, ok := kv[fmt.Sprintf("%s.vision.block_count", kv.Architecture())]; return ok })
	run("pooling", func() any { _, ok := kv[fmt.Sprintf("%s.pooling_type", kv.Architecture())]; return ok })
	run("name", func() any { return f.Name() })
	run("tensor_types", func() any {
		n := 0
		for _, t := range f.Tensors().Items() {
			n += len(t.Type())
		}
		return n
	})
	run("json", func() any { b, err := json.Marshal(kv); return err == nil && len(b) > 0 })
	return out
}

// accessors on the model-load path (scheduler / memory estimate); outside the create/show clause of the statement
func loadAccessors(f *ggml.GGML) map[string]any {
	out := map[string]any{}
	run := func(name string, fn func() any) {
		_, p := guard(fn)
		if p != "" {
			out[name] = p
		}
	}
	kv := f.KV()
	run("BlockCount", func() any { return kv.BlockCount() })
	run("HeadCount", func() any { return kv.HeadCount() })
	run("HeadCountKV", func() any { return kv.HeadCountKV() })
	run("EmbeddingHeadCount", func() any { return kv.EmbeddingHeadCount() })
	run("GQA", func() any { return kv.GQA() })
	run("ContextLength", func() any { return kv.ContextLength() })
	run("Strings(tokens)", func() any { return len(kv.Strings("tokenizer.ggml.tokens")) })
	run("Uints(token_type)", func() any { return len(kv.Uints("tokenizer.ggml.token_type")) })
	run("Floats(scores)", func() any { return len(kv.Floats("tokenizer.ggml.scores")) })
	run("GraphSize", func() any { a, b, c := f.GraphSize(2048, 512, 1, "f16"); return []any{len(a), b, c} })
	run("VisionGraphSize", func() any { a, b := f.VisionGraphSize(); return []any{a, b} })
	run("SupportsFlashAttention", func() any { return f.SupportsFlashAttention() })
	run("GroupLayers", func() any { return len(f.Tensors().GroupLayers()) })
	return out
}

// arrCode: number of elements an array accessor returned, 1000000 for an index panic, 1000001 for any other panic
func arrCode(f func() int) (code int) {
	defer func() {
		if r := recover(); r != nil {
			if strings.Contains(fmt.Sprint(r), "index out of range") {
				code = 1000000
			} else {
				code = 1000001
			}
		}
	}()
	return f()
}

// the two shapes in which server code hands raw bytes to ggml.DetectContentType
func callerShape(data []byte, shape string) []byte {
	if shape == "four" {
		// server/create.go detectModelTypeFromFiles: buf := make([]byte, 4); f.Read(buf)
		buf := make([]byte, 4)
		copy(buf, data)
		return buf
	}
	// server/model.go detectContentType: io.Copy(&b, io.NewSectionReader(blob, 0, 512)); b.Bytes()
	var b bytes.Buffer
	if _, err := io.Copy(&b, io.NewSectionReader(bytes.NewReader(data), 0, 512)); err != nil {
		panic("harness: " + err.Error())
	}
	return b.Bytes()
}

var ctCode = map[string]int{"": 0, "ggml": 1, "ggmf": 2, "ggjt": 3, "ggla": 4, "gguf": 5}

func polyHash(h uint64, x int) uint64 {
	hi, lo := bits.Mul64(h, 1000003)
	lo, c := bits.Add64(lo, uint64(x)+1, 0)
	_, rem := bits.Div64(hi+c, lo, 2305843009213693951)
	return rem
}

// entryAll calls every exported fs/ggml entry point that takes raw bytes on EVERY byte string of length 0..maxlen over
// the alphabet (enumerated by length, then lexicographically by alphabet index) and reports panics and result digests.
func entryAll(alpha []byte, maxlen int, decodeToo bool) map[string]any {
	type pan struct {
		Fn, Input, Msg string
	}
	var pans []pan
	npan := 0
	n := 0
	hd, hf, hdec := uint64(7), uint64(7), uint64(7)
	try := func(fn string, data []byte, f func() int) int {
		defer func() {
			if r := recover(); r != nil {
				npan++
				if len(pans) < 6 {
					pans = append(pans, pan{fn, hex.EncodeToString(data), fmt.Sprint(r)})
				}
			}
		}()
		return f()
	}
	var rec func(cur []byte, left int)
	rec = func(cur []byte, left int) {
		if left == 0 {
			data := append([]byte{}, cur...)
			n++
			hd = polyHash(hd, try("DetectContentType(buffer)", data, func() int { return ctCode[ggml.DetectContentType(callerShape(data, "buffer"))] }))
			hf = polyHash(hf, try("DetectContentType(4-byte buf)", data, func() int { return ctCode[ggml.DetectContentType(callerShape(data, "four"))] }))
			try("ParseFileType", data, func() int { _, _ = ggml.ParseFileType(string(data)); return 0 })
			if decodeToo {
				hdec = polyHash(hdec, try("Decode", data, func() int {
					_, _, err := ggml.Decode(bytes.NewReader(data), 0)
					switch ggdump.ErrClass(err) {
					case "":
						return 0
					case "eof":
						return 1
					case "ueof":
						return 2
					}
					return 3
				}))
			}
			return
		}
		for _, a := range alpha {
			rec(append(cur, a), left-1)
		}
	}
	for l := 0; l <= maxlen; l++ {
		rec(nil, l)
	}
	return map[string]any{"n": n, "npanics": npan, "panics": pans, "detect_hash": fmt.Sprint(hd), "detect4_hash": fmt.Sprint(hf), "decode_hash": fmt.Sprint(hdec)}
}

func main() {
	// a lowered stack limit turns runaway recursion on hostile nesting into a visible process death long before the default 1 GB
	if v, err := strconv.Atoi(os.Getenv("VERIF_MAXSTACK")); err == nil && v > 0 {
		debug.SetMaxStack(v)
	}
	slog.SetDefault(slog.New(slog.NewTextHandler(io.Discard, nil)))
	sc := bufio.NewScanner(os.Stdin)
	sc.Buffer(make([]byte, 1<<20), 1<<30)
	w := bufio.NewWriter(os.Stdout)
	enc := json.NewEncoder(w)
	for sc.Scan() {
		line := sc.Bytes()
		if len(line) == 0 {
			continue
		}
		var c map[string]any
		if err := json.Unmarshal(line, &c); err != nil {
			enc.Encode(map[string]any{"harness_error": err.Error()})
			w.Flush()
			continue
		}
		res := hx.Guard(func() any {
			switch c["op"] {
			case "decode":
				b, err := hex.DecodeString(c["bytes"].(string))
				if err != nil {
					panic("harness: bad hex")
				}
				via := ""
				if f, _ := c["file"].(bool); f {
					via = "c10-dec.gguf"
				}
				d := ggdump.DecodeAt(b, hx.Int(c["max_array"]), via, hx.Int(c["skip"]))
				out := map[string]any{"dec": d}
				if d.File != nil {
					out["acc"] = createShowAccessors(d.File)
					out["acc2"] = loadAccessors(d.File)
					kv := d.File.KV()
					out["arr"] = []int{
						arrCode(func() int { return len(kv.Strings("tokenizer.ggml.tokens")) }),
						arrCode(func() int { return len(kv.Uints("tokenizer.ggml.token_type")) }),
						arrCode(func() int { return len(kv.Floats("tokenizer.ggml.scores")) }),
					}
				}
				return out
			case "detect":
				b, err := hex.DecodeString(c["bytes"].(string))
				if err != nil {
					panic("harness: bad hex")
				}
				shape, _ := c["shape"].(string)
				return map[string]any{"ct": ctCode[ggml.DetectContentType(callerShape(b, shape))]}
			case "entry_all":
				alpha, err := hex.DecodeString(c["alpha"].(string))
				if err != nil {
					panic("harness: bad hex")
				}
				dec, _ := c["decode"].(bool)
				return entryAll(alpha, hx.Int(c["maxlen"]), dec)
			}
			return map[string]any{"harness_error": "unknown op"}
		})
		enc.Encode(res)
		w.Flush()
	}
}
