// C16 harness: builds tiny GGUF models, reads the quantities the Coq model takes as inputs through the public
// API of fs/ggml (GroupLayers/Size, GraphSize, GQA, VisionGraphSize) and runs the real
// llm.EstimateGPULayers / llm.PredictServerFit / discover.GpuInfoList.ByLibrary on generated GPU lists.
//
// All uint64 quantities travel as decimal strings (JSON numbers lose precision above 2^53).
// The harness never looks at tensor offsets.
package main

import (
	"bytes"
	"encoding/json"
	"fmt"
	"io"
	"log/slog"
	"os"
	"path/filepath"
	"strconv"
	"strings"

	"github.com/ollama/ollama/api"
	"github.com/ollama/ollama/discover"
	"github.com/ollama/ollama/envconfig"
	"github.com/ollama/ollama/fs/ggml"
	"github.com/ollama/ollama/llm"
	"verifharness/hx"
)

func u64(v any) uint64 {
	switch x := v.(type) {
	case string:
		n, err := strconv.ParseUint(x, 10, 64)
		if err != nil {
			panic("bad uint64 " + x)
		}
		return n
	case float64:
		return uint64(x)
	}
	return 0
}

func s64(n uint64) string { return strconv.FormatUint(n, 10) }

func optSize(layers map[string]ggml.Layer, name string) any {
	if l, ok := layers[name]; ok {
		return s64(l.Size())
	}
	return nil
}

var dir string
var cache = map[string]string{} // model spec (canonical JSON) -> file path

// writeModel writes the GGUF file described by spec (once per distinct spec) and returns its path.
func writeModel(spec map[string]any) string {
	keyb, _ := json.Marshal(spec)
	key := string(keyb)
	if p, ok := cache[key]; ok {
		return p
	}
	arch, _ := spec["arch"].(string)
	kv := ggml.KV{"general.architecture": arch}
	if m, ok := spec["kv_u32"].(map[string]any); ok {
		for k, v := range m {
			kv[arch+"."+k] = uint32(u64(v))
		}
	}
	if m, ok := spec["kv_i32s"].(map[string]any); ok {
		for k, v := range m {
			var l []int32
			for _, x := range v.([]any) {
				l = append(l, int32(hx.Int(x)))
			}
			kv[arch+"."+k] = l
		}
	}
	if n, ok := spec["vocab"]; ok {
		toks := make([]string, hx.Int(n))
		for i := range toks {
			toks[i] = "t"
		}
		kv["tokenizer.ggml.tokens"] = toks
	}
	var ts []ggml.Tensor
	if l, ok := spec["tensors"].([]any); ok {
		for _, x := range l {
			t := x.(map[string]any)
			var shape []uint64
			for _, d := range t["shape"].([]any) {
				shape = append(shape, u64(d))
			}
			// the declared shape alone determines Size(); the data written is irrelevant to the estimator
			ts = append(ts, ggml.Tensor{Name: t["name"].(string), Kind: uint32(hx.Int(t["kind"])), Shape: shape, WriterTo: bytes.NewReader(nil)})
		}
	}
	p := filepath.Join(dir, fmt.Sprintf("m%d.gguf", len(cache)))
	f, err := os.Create(p)
	if err != nil {
		panic(err)
	}
	defer f.Close()
	if err := ggml.WriteGGUF(f, kv, ts); err != nil {
		panic("WriteGGUF: " + err.Error())
	}
	cache[key] = p
	return p
}

var loaded = map[string]*ggml.GGML{} // path -> decoded model: the same *ggml.GGML is handed to the estimator on every call

func load(p string) *ggml.GGML {
	if g, ok := loaded[p]; ok {
		return g
	}
	g := loadFresh(p)
	loaded[p] = g
	return g
}

func loadFresh(p string) *ggml.GGML {
	f, err := os.Open(p)
	if err != nil {
		panic(err)
	}
	defer f.Close()
	g, _, err := ggml.Decode(f, 0)
	if err != nil {
		panic("Decode: " + err.Error())
	}
	return g
}

func pair(a, b uint64) []string { return []string{s64(a), s64(b)} }

func main() {
	slog.SetDefault(slog.New(slog.NewTextHandler(io.Discard, nil)))
	var err error
	dir, err = os.MkdirTemp("", "c16-")
	if err != nil {
		panic(err)
	}
	defer os.RemoveAll(dir)
	os.Unsetenv("OLLAMA_FLASH_ATTENTION")
	os.Unsetenv("OLLAMA_KV_CACHE_TYPE")

	hx.Loop(handle)
}

// kvCacheType mirrors the expression EstimateGPULayers uses to pick the KV cache type (public API only), so that the
// inputs read for the Coq model are the ones the estimator reads under the same environment
func kvCacheType(f *ggml.GGML) string {
	if envconfig.FlashAttention() && discover.GetGPUInfo().FlashAttentionSupported() && f.SupportsFlashAttention() {
		requested := strings.ToLower(envconfig.KvCacheType())
		if requested != "" && f.SupportsKVCacheType(requested) {
			return requested
		}
	}
	return ""
}

func handle(c map[string]any) any {
	{
		op, _ := c["op"].(string)
		if op == "seq" {
			// several calls in this one process, in order: state carried from one call to the next would show
			var outs []any
			for _, st := range c["steps"].([]any) {
				outs = append(outs, hx.Guard(func() any { return handle(st.(map[string]any)) }))
			}
			return map[string]any{"steps": outs}
		}
		if fa, _ := c["flash"].(bool); fa {
			os.Setenv("OLLAMA_FLASH_ATTENTION", "1")
		} else {
			os.Unsetenv("OLLAMA_FLASH_ATTENTION")
		}
		if kt, _ := c["kvtype"].(string); kt != "" {
			os.Setenv("OLLAMA_KV_CACHE_TYPE", kt)
		} else {
			os.Unsetenv("OLLAMA_KV_CACHE_TYPE")
		}
		if op == "bylib" {
			gl := gpuList(c["gpus"])
			var out [][]int
			for _, grp := range gl.ByLibrary() {
				var ids []int
				for _, g := range grp {
					n, _ := strconv.Atoi(g.ID)
					ids = append(ids, n)
				}
				out = append(out, ids)
			}
			return map[string]any{"groups": out}
		}

		f := load(writeModel(c["model"].(map[string]any)))
		var projectors []string
		var projIn [][]string
		if l, ok := c["projectors"].([]any); ok {
			for _, x := range l {
				ps := x.(map[string]any)
				p := filepath.Join(dir, "does-not-exist.gguf")
				if miss, _ := ps["missing"].(bool); !miss {
					p = writeModel(ps)
				}
				projectors = append(projectors, p)
				pw, pg := llm.VerifProjectorMemoryRequirements(p)
				projIn = append(projIn, pair(pw, pg))
			}
		}
		opts := api.DefaultOptions()
		opts.NumGPU = hx.Int(c["num_gpu"])
		opts.NumCtx = hx.Int(c["num_ctx"])
		opts.NumBatch = hx.Int(c["num_batch"])
		numParallel := hx.Int(c["num_parallel"])
		os.Setenv("OLLAMA_GPU_OVERHEAD", s64(u64(c["overhead"])))

		// ---- the quantities the Coq model takes as inputs, through the public API
		layers := f.Tensors().GroupLayers()
		bc := int(f.KV().BlockCount())
		ctxPlain := opts.NumCtx
		ctxMM := max(opts.NumCtx, 2048)
		kvct := kvCacheType(f)
		kvP, gpP, gfP := f.GraphSize(uint64(ctxPlain), uint64(min(ctxPlain, opts.NumBatch)), numParallel, kvct)
		kvM, gpM, gfM := f.GraphSize(uint64(ctxMM), uint64(min(ctxMM, opts.NumBatch)), numParallel, kvct)
		blocks := make([][]any, bc)
		for i := range bc {
			blocks[i] = []any{optSize(layers, fmt.Sprintf("blk.%d", i)), s64(kvP[i]), s64(kvM[i])}
		}
		vw, vg := f.VisionGraphSize()
		in := map[string]any{
			"bc":       bc,
			"blk0":     optSize(layers, "blk.0"),
			"blocks":   blocks,
			"graph":    pair(gpP, gfP),
			"graph_mm": pair(gpM, gfM),
			"gqa":      s64(f.KV().GQA()),
			"out_norm": optSize(layers, "output_norm"),
			"out":      optSize(layers, "output"),
			"tok":      optSize(layers, "token_embd"),
			"vision":   pair(vw, vg),
			"proj":     projIn,
		}
		if projIn == nil {
			in["proj"] = [][]string{}
		}
		res := map[string]any{"in": in, "kvct": kvct}
		gl := gpuList(c["gpus"])
		switch op {
		case "probe":
		case "estimate":
			res["est"] = hx.Guard(func() any {
				e := llm.EstimateGPULayers(gl, f, projectors, opts, numParallel)
				sizes := make([]string, 0, len(e.GPUSizes))
				for _, s := range e.GPUSizes {
					sizes = append(sizes, s64(s))
				}
				internals := map[string]string{}
				for k, v := range e.VerifInternals() {
					internals[k] = s64(v)
				}
				return map[string]any{"layers": e.Layers, "graph": s64(e.Graph), "vram": s64(e.VRAMSize), "total": s64(e.TotalSize),
					"split": e.TensorSplit, "sizes": sizes, "internals": internals}
			})
		case "fit":
			res["fit"] = hx.Guard(func() any {
				ok, vram := llm.PredictServerFit(gl, f, nil, projectors, opts, numParallel)
				// what each library group would get on its own (for the monitor: "declared fit only if all layers placed")
				var groups []map[string]any
				for _, grp := range gl.ByLibrary() {
					e := llm.EstimateGPULayers(grp, f, projectors, opts, numParallel)
					groups = append(groups, map[string]any{"n": len(grp), "layers": e.Layers, "vram": s64(e.VRAMSize)})
				}
				return map[string]any{"fit": ok, "vram": s64(vram), "groups": groups}
			})
		default:
			return map[string]any{"harness_error": "unknown op"}
		}
		return res
	}
}

func gpuList(v any) discover.GpuInfoList {
	l, _ := v.([]any)
	out := make(discover.GpuInfoList, 0, len(l))
	for i, x := range l {
		m := x.(map[string]any)
		var g discover.GpuInfo
		g.Library, _ = m["lib"].(string)
		g.Variant, _ = m["variant"].(string)
		g.FreeMemory = u64(m["free"])
		g.TotalMemory = g.FreeMemory
		g.MinimumMemory = u64(m["min"])
		g.ID = strconv.Itoa(i)
		out = append(out, g)
	}
	return out
}
