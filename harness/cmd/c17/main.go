// C17 harness: the REAL gin router (server.GenerateRoutes with the real openai middlewares, handlers, scheduler loop)
// behind a real net/http server, with a mock llm.LlamaServer whose Completion replays a chunk script, and the REAL
// api.Client.  One process serves all cases of a run.
//
// ops (one JSON object per line on stdin, one reply per line on stdout):
//
//	{"op":"run","kind":"generate"|"chat","model":"plain"|"tools"|"tools2","tools":bool,"format":""|"json","raw":bool,
//	 "stop":bool,"prompt":hex,"splits":[[chunk,...],...],"end":{"kind":"done"|"error"|"silent","reason":0|1|2,
//	 "content":hex,"pc":int,"ec":int,"err":hex},"tokfail":bool,"modes":["st","ns","cst","cns","v1st","v1stu","v1ns"]}
//	   chunk = hex string | {"rep":hex,"n":count};  optional "reqvar": present-but-empty/null fields injected into the raw JSON
//	   request bodies of the raw HTTP modes (see applyVariants)
//	   -> {"runs":[{"split":i,"mode":m,"status":int,"recs":[...],"cerr":text,"req":{...}}...]}
//	{"op":"parse","model":name,"texts":[hex,...]} -> {"res":[{"ok":bool,"calls":[{"name":hex,"args":hex}]}...]}
//	{"op":"client","status":int,"lines":[{"kind":"msg"|"done"|"error"|"garbage","len":n,"nl":bool}...],
//	 "cut":{"lines":k,"extra":m,"framing":"chunked"|"length"}}   (cut: transport fault, see doClient)
//	   -> {"got":[{"done":bool,"len":n}...],"cerr":text}      (the real api.Client against scripted response lines)
//	{"op":"llm",...}   the REAL llm client (llmServer.Completion) against a scripted fake runner, alone or under the real handlers (see doLLM)
package main

import (
	"bufio"
	"bytes"
	"context"
	"crypto/sha256"
	"encoding/hex"
	"encoding/json"
	"errors"
	"fmt"
	"io"
	"net/http"
	"net/http/httptest"
	"net/url"
	"os"
	"strings"
	"sync"

	"github.com/ollama/ollama/api"
	"github.com/ollama/ollama/fs/ggml"
	"github.com/ollama/ollama/llm"
	"github.com/ollama/ollama/server"
	"verifharness/hx"
)

// ---------------------------------------------------------------- mock runner

type script struct {
	chunks  []string
	endKind string
	reason  int
	content string
	pc, ec  int
	errMsg  string
	tokfail bool
	// off-contract continuation after the final response (only to tie the handler model on arbitrary callback traces):
	// more callbacks and/or an error return although the final response was delivered
	after    []llm.CompletionResponse
	afterErr string
}

type mock struct {
	mu      sync.Mutex
	sc      script
	started bool // Completion was entered for the current request
	lastReq llm.CompletionRequest
	calls   int
}

func (m *mock) set(sc script) {
	m.mu.Lock()
	defer m.mu.Unlock()
	m.sc = sc
	m.started = false
	m.lastReq = llm.CompletionRequest{}
	m.calls = 0
}

func (m *mock) Ping(context.Context) error             { return nil }
func (m *mock) WaitUntilRunning(context.Context) error { return nil }
func (m *mock) Close() error                           { return nil }
func (m *mock) EstimatedVRAM() uint64                  { return 0 }
func (m *mock) EstimatedTotal() uint64                 { return 0 }
func (m *mock) EstimatedVRAMByGPU(string) uint64       { return 0 }
func (m *mock) Embedding(context.Context, string) ([]float32, error) {
	return nil, errors.New("not implemented")
}

// Tokenize: one token per byte (the byte value), so the `context` of /api/generate shows exactly which text was tokenized.
func (m *mock) Tokenize(_ context.Context, s string) ([]int, error) {
	m.mu.Lock()
	fail := m.sc.tokfail && m.started
	m.mu.Unlock()
	if fail {
		return nil, errors.New("tokenize failed")
	}
	out := make([]int, len(s))
	for i := 0; i < len(s); i++ {
		out[i] = int(s[i])
	}
	return out, nil
}

func (m *mock) Detokenize(_ context.Context, toks []int) (string, error) {
	b := make([]byte, len(toks))
	for i, t := range toks {
		b[i] = byte(t)
	}
	return string(b), nil
}

func (m *mock) Completion(ctx context.Context, req llm.CompletionRequest, fn func(llm.CompletionResponse)) error {
	m.mu.Lock()
	sc := m.sc
	m.started = true
	m.lastReq = req
	m.calls++
	m.mu.Unlock()
	for _, c := range sc.chunks {
		fn(llm.CompletionResponse{Content: c})
	}
	switch sc.endKind {
	case "done":
		fn(llm.CompletionResponse{Content: sc.content, Done: true, DoneReason: llm.DoneReason(sc.reason),
			PromptEvalCount: sc.pc, PromptEvalDuration: 7, EvalCount: sc.ec, EvalDuration: 9})
		for _, a := range sc.after {
			fn(a)
		}
		if sc.afterErr != "" {
			return errors.New(sc.afterErr)
		}
		return nil
	case "error":
		return errors.New(sc.errMsg)
	default: // silent: the runner returns without a final response and without an error
		return nil
	}
}

// ---------------------------------------------------------------- set-up

var (
	mk     = &mock{}
	base   string
	client *api.Client
)

const tmplPlain = `{{- range .Messages }}{{ .Role }}: {{ .Content }}
{{ end }}`

// the template of server/routes_generate_test.go (tool calls rendered as {"name":..,"arguments":..})
const tmplTools = `{{- if .Tools }}{{ .Tools }}
{{ end }}{{- range .Messages }}{{ .Role }}: {{ .Content }}
{{- range .ToolCalls }}{"name": "{{ .Function.Name }}", "arguments": {{ .Function.Arguments }}}
{{- end }}
{{ end }}`

// llama3.1 style keys
const tmplTools2 = `{{- if .Tools }}{{ .Tools }}
{{ end }}{{- range .Messages }}{{ .Role }}: {{ .Content }}
{{- range .ToolCalls }}{"name": "{{ .Function.Name }}", "parameters": {{ .Function.Arguments }}}
{{- end }}
{{ end }}`

type ws struct {
	buf []byte
	pos int
}

func (w *ws) Write(p []byte) (int, error) {
	if need := w.pos + len(p); need > len(w.buf) {
		w.buf = append(w.buf, make([]byte, need-len(w.buf))...)
	}
	copy(w.buf[w.pos:], p)
	w.pos += len(p)
	return len(p), nil
}

func (w *ws) Seek(off int64, whence int) (int64, error) {
	switch whence {
	case io.SeekStart:
		w.pos = int(off)
	case io.SeekCurrent:
		w.pos += int(off)
	case io.SeekEnd:
		w.pos = len(w.buf) + int(off)
	}
	return int64(w.pos), nil
}

func post(path string, body any) (int, []byte) {
	var rd io.Reader
	switch b := body.(type) {
	case []byte:
		rd = bytes.NewReader(b)
	default:
		bts, _ := json.Marshal(body)
		rd = bytes.NewReader(bts)
	}
	resp, err := http.Post(base+path, "application/json", rd)
	if err != nil {
		panic(err)
	}
	defer resp.Body.Close()
	out, _ := io.ReadAll(resp.Body)
	return resp.StatusCode, out
}

func setup() {
	dir, err := os.MkdirTemp("", "c17models")
	if err != nil {
		panic(err)
	}
	os.Setenv("OLLAMA_MODELS", dir)
	os.Setenv("OLLAMA_MAX_LOADED_MODELS", "8")
	h, _, err := server.VerifC17Handler(mk)
	if err != nil {
		panic(err)
	}
	srv := httptest.NewServer(h)
	base = srv.URL
	u, _ := url.Parse(base)
	client = api.NewClient(u, http.DefaultClient)

	tens := func(n string) ggml.Tensor {
		return ggml.Tensor{Name: n, Shape: []uint64{1}, WriterTo: bytes.NewReader(make([]byte, 4))}
	}
	w := &ws{}
	if err := ggml.WriteGGUF(w, ggml.KV{
		"general.architecture":          "llama",
		"llama.block_count":             uint32(1),
		"llama.context_length":          uint32(8192),
		"llama.embedding_length":        uint32(4096),
		"llama.attention.head_count":    uint32(32),
		"llama.attention.head_count_kv": uint32(8),
		"tokenizer.ggml.tokens":         []string{""},
		"tokenizer.ggml.scores":         []float32{0},
		"tokenizer.ggml.token_type":     []int32{0},
	}, []ggml.Tensor{tens("token_embd.weight"), tens("blk.0.attn_norm.weight"), tens("blk.0.ffn_down.weight"),
		tens("blk.0.ffn_gate.weight"), tens("blk.0.ffn_up.weight"), tens("blk.0.ffn_norm.weight"), tens("blk.0.attn_k.weight"),
		tens("blk.0.attn_output.weight"), tens("blk.0.attn_q.weight"), tens("blk.0.attn_v.weight"), tens("output.weight")}); err != nil {
		panic(err)
	}
	sum := sha256.Sum256(w.buf)
	digest := "sha256:" + hex.EncodeToString(sum[:])
	if st, out := post("/api/blobs/"+digest, w.buf); st != 201 && st != 200 {
		panic(fmt.Sprintf("blob upload: %d %s", st, out))
	}
	f := false
	for name, tmpl := range map[string]string{"plain": tmplPlain, "tools": tmplTools, "tools2": tmplTools2} {
		st, out := post("/api/create", api.CreateRequest{Model: name, Files: map[string]string{"m.gguf": digest}, Template: tmpl, Stream: &f})
		if st != 200 {
			panic(fmt.Sprintf("create %s: %d %s", name, st, out))
		}
	}
}

// ---------------------------------------------------------------- observations

type call struct {
	Name  string `json:"name"`
	Args  string `json:"args"`
	Index int    `json:"index"`
}

type rec struct {
	Kind    string `json:"kind"` // msg | error | marker | usage | garbage
	Content string `json:"content"`
	BigLen  int    `json:"biglen,omitempty"` // content longer than 4096 bytes: length and sha256 instead of the bytes
	BigSha  string `json:"bigsha,omitempty"`
	Done    bool   `json:"done"`
	Reason  string `json:"reason"`
	HasFin  bool   `json:"hasfin"` // openai: finish_reason present (non-null)
	PC      int    `json:"pc"`
	EC      int    `json:"ec"`
	PD      int64  `json:"pd"`
	ED      int64  `json:"ed"`
	Ctx     string `json:"ctx"` // hex of the context tokens (one byte per token), "" when absent
	HasCtx  bool   `json:"hasctx"`
	Calls   []call `json:"calls"`
	Err     string `json:"err"`
	Model   string `json:"model"`
	Role    string `json:"role"`
	Len     int    `json:"len"` // raw line length
}

func setContent(r *rec, s string) {
	if len(s) > 4096 {
		sum := sha256.Sum256([]byte(s))
		r.BigLen, r.BigSha = len(s), hex.EncodeToString(sum[:])
		return
	}
	r.Content = hx.Hex(s)
}

func canonArgs(a any) string {
	b, err := json.Marshal(a)
	if err != nil {
		return hx.Hex("!" + err.Error())
	}
	return hx.Hex(string(b))
}

func nativeCalls(tcs []api.ToolCall) []call {
	out := []call{}
	for _, tc := range tcs {
		out = append(out, call{Name: hx.Hex(tc.Function.Name), Args: canonArgs(tc.Function.Arguments), Index: tc.Function.Index})
	}
	return out
}

func ctxHex(toks []int) string {
	b := make([]byte, len(toks))
	for i, t := range toks {
		b[i] = byte(t)
	}
	return hex.EncodeToString(b)
}

// one NDJSON line (or the single JSON body) of a native endpoint
func nativeRec(kind string, line []byte) rec {
	r := rec{Kind: "msg", Calls: []call{}, Len: len(line)}
	var probe map[string]json.RawMessage
	if err := json.Unmarshal(line, &probe); err != nil {
		r.Kind = "garbage"
		r.Err = hx.Hex(string(line))
		return r
	}
	if e, ok := probe["error"]; ok {
		var s string
		json.Unmarshal(e, &s)
		r.Kind, r.Err = "error", hx.Hex(s)
		return r
	}
	if kind == "generate" {
		var g api.GenerateResponse
		json.Unmarshal(line, &g)
		setContent(&r, g.Response)
		r.Done, r.Reason, r.PC, r.EC, r.PD, r.ED = g.Done, g.DoneReason, g.PromptEvalCount, g.EvalCount, int64(g.PromptEvalDuration), int64(g.EvalDuration)
		r.HasCtx, r.Ctx, r.Model = g.Context != nil, ctxHex(g.Context), g.Model
		return r
	}
	var c api.ChatResponse
	json.Unmarshal(line, &c)
	setContent(&r, c.Message.Content)
	r.Done, r.Reason, r.PC, r.EC, r.PD, r.ED = c.Done, c.DoneReason, c.PromptEvalCount, c.EvalCount, int64(c.PromptEvalDuration), int64(c.EvalDuration)
	r.Calls, r.Model, r.Role = nativeCalls(c.Message.ToolCalls), c.Model, c.Message.Role
	return r
}

// one event payload (or the single JSON body) of a /v1 endpoint
func openaiRec(kind string, payload []byte) rec {
	r := rec{Kind: "msg", Calls: []call{}, Len: len(payload)}
	if string(payload) == "[DONE]" {
		r.Kind = "marker"
		return r
	}
	var o struct {
		Error *struct {
			Message string `json:"message"`
		} `json:"error"`
		Model   string `json:"model"`
		Object  string `json:"object"`
		Choices []struct {
			Text    *string `json:"text"`
			Message *struct {
				Role      string `json:"role"`
				Content   any    `json:"content"`
				ToolCalls []struct {
					ID       string `json:"id"`
					Index    int    `json:"index"`
					Function struct {
						Name      string `json:"name"`
						Arguments string `json:"arguments"`
					} `json:"function"`
				} `json:"tool_calls"`
			} `json:"message"`
			Delta *struct {
				Role      string `json:"role"`
				Content   any    `json:"content"`
				ToolCalls []struct {
					ID       string `json:"id"`
					Index    int    `json:"index"`
					Function struct {
						Name      string `json:"name"`
						Arguments string `json:"arguments"`
					} `json:"function"`
				} `json:"tool_calls"`
			} `json:"delta"`
			FinishReason *string `json:"finish_reason"`
		} `json:"choices"`
		Usage *struct {
			PromptTokens     int `json:"prompt_tokens"`
			CompletionTokens int `json:"completion_tokens"`
			TotalTokens      int `json:"total_tokens"`
		} `json:"usage"`
	}
	if err := json.Unmarshal(payload, &o); err != nil {
		r.Kind, r.Err = "garbage", hx.Hex(string(payload))
		return r
	}
	if o.Error != nil {
		r.Kind, r.Err = "error", hx.Hex(o.Error.Message)
		return r
	}
	r.Model = o.Model
	if o.Usage != nil {
		r.PC, r.EC = o.Usage.PromptTokens, o.Usage.CompletionTokens
		r.PD = int64(o.Usage.TotalTokens) // total_tokens travels in pd
		r.HasCtx = true                   // "usage present" travels in hasctx
	}
	if len(o.Choices) == 0 {
		r.Kind = "usage"
		return r
	}
	ch := o.Choices[0]
	if ch.FinishReason != nil {
		r.HasFin, r.Reason = true, *ch.FinishReason
	}
	str := func(v any) string {
		s, _ := v.(string)
		return s
	}
	switch {
	case ch.Text != nil && kind == "generate":
		setContent(&r, *ch.Text)
	case ch.Message != nil:
		setContent(&r, str(ch.Message.Content))
		r.Role = ch.Message.Role
		for _, tc := range ch.Message.ToolCalls {
			var a any
			json.Unmarshal([]byte(tc.Function.Arguments), &a)
			r.Calls = append(r.Calls, call{Name: hx.Hex(tc.Function.Name), Args: canonArgs(a), Index: tc.Index})
		}
	case ch.Delta != nil:
		setContent(&r, str(ch.Delta.Content))
		r.Role = ch.Delta.Role
		for _, tc := range ch.Delta.ToolCalls {
			var a any
			json.Unmarshal([]byte(tc.Function.Arguments), &a)
			r.Calls = append(r.Calls, call{Name: hx.Hex(tc.Function.Name), Args: canonArgs(a), Index: tc.Index})
		}
	}
	return r
}

type runObs struct {
	Split  int            `json:"split"`
	Mode   string         `json:"mode"`
	Status int            `json:"status"`
	CType  string         `json:"ctype"`
	Recs   []rec          `json:"recs"`
	CErr   string         `json:"cerr"`   // api.Client: returned error text ("" = nil)
	HasErr bool           `json:"haserr"` // api.Client returned a non-nil error
	Body   string         `json:"body"`   // the raw JSON request body that was sent (raw HTTP modes)
	Trail  string         `json:"trail"`  // bytes after the last complete line / event
	Req    map[string]any `json:"req"`
}

func chunkOf(v any) string {
	switch c := v.(type) {
	case string:
		return hx.Unhex(c)
	case map[string]any:
		return strings.Repeat(hx.Unhex(c["rep"]), hx.Int(c["n"]))
	}
	panic("bad chunk")
}

var weatherTool = api.Tool{Type: "function", Function: api.ToolFunction{Name: "get_weather", Description: "weather"}}

func doRun(c map[string]any) any {
	kind, _ := c["kind"].(string)
	model, _ := c["model"].(string)
	withTools, _ := c["tools"].(bool)
	format, _ := c["format"].(string)
	raw, _ := c["raw"].(bool)
	stop, _ := c["stop"].(bool)
	prompt := hx.Unhex(c["prompt"])
	end, _ := c["end"].(map[string]any)
	tokfail, _ := c["tokfail"].(bool)
	modes := []string{"st", "ns", "cst", "cns", "v1st", "v1stu", "v1ns"}
	if ml, ok := c["modes"].([]any); ok {
		modes = nil
		for _, m := range ml {
			modes = append(modes, m.(string))
		}
	}
	var runs []runObs
	curVars, _ = c["reqvar"].([]any)
	defer func() { curVars = nil }()
	splits, _ := c["splits"].([]any)
	for si, sp := range splits {
		sc := script{endKind: end["kind"].(string), reason: hx.Int(end["reason"]), content: hx.Unhex(end["content"]),
			pc: hx.Int(end["pc"]), ec: hx.Int(end["ec"]), errMsg: hx.Unhex(end["err"]), tokfail: tokfail}
		for _, ch := range sp.([]any) {
			sc.chunks = append(sc.chunks, chunkOf(ch))
		}
		if af, ok := end["after"].([]any); ok {
			for _, a := range af {
				am := a.(map[string]any)
				if d, _ := am["done"].(bool); d {
					sc.after = append(sc.after, llm.CompletionResponse{Content: hx.Unhex(am["content"]), Done: true, DoneReason: llm.DoneReason(hx.Int(am["reason"])),
						PromptEvalCount: hx.Int(am["pc"]), PromptEvalDuration: 7, EvalCount: hx.Int(am["ec"]), EvalDuration: 9})
				} else {
					sc.after = append(sc.after, llm.CompletionResponse{Content: hx.Unhex(am["content"])})
				}
			}
		}
		if ae, ok := end["after_err"].(string); ok {
			sc.afterErr = hx.Unhex(ae)
		}
		for _, mode := range modes {
			mk.set(sc)
			o := runObs{Split: si, Mode: mode, Recs: []rec{}}
			oneRun(&o, kind, model, withTools, format, raw, stop, prompt, mode)
			mk.mu.Lock()
			o.Req = map[string]any{"prompt": hx.Hex(mk.lastReq.Prompt), "format": string(mk.lastReq.Format), "calls": mk.calls}
			if mk.lastReq.Options != nil {
				o.Req["stop"] = mk.lastReq.Options.Stop
				o.Req["temperature"] = mk.lastReq.Options.Temperature
			}
			mk.mu.Unlock()
			runs = append(runs, o)
		}
	}
	return map[string]any{"runs": runs}
}

// request variants: fields that are present but empty or null in the RAW JSON body (the Go api.Client can never send them:
// omitempty).  curVars = [{"path":"tools"|"options.stop"|"messages.0.images"|..., "raw":"[]"|"null"|"\"\""|"{}", "modes":[...]}]
var curVars []any

func setPath(node any, path []string, val any) any {
	if len(path) == 0 {
		return val
	}
	switch n := node.(type) {
	case map[string]any:
		n[path[0]] = setPath(n[path[0]], path[1:], val)
		return n
	case []any:
		i := 0
		fmt.Sscanf(path[0], "%d", &i)
		if i < len(n) {
			n[i] = setPath(n[i], path[1:], val)
		}
		return n
	case nil:
		return setPath(map[string]any{}, path, val)
	}
	return node
}

func applyVariants(bts []byte, mode string) []byte {
	if len(curVars) == 0 {
		return bts
	}
	var root any
	if err := json.Unmarshal(bts, &root); err != nil {
		panic(err)
	}
	for _, v := range curVars {
		vm := v.(map[string]any)
		ok := false
		for _, m := range vm["modes"].([]any) {
			ok = ok || m.(string) == mode
		}
		if !ok {
			continue
		}
		var val any
		if err := json.Unmarshal([]byte(vm["raw"].(string)), &val); err != nil {
			panic(err)
		}
		root = setPath(root, strings.Split(vm["path"].(string), "."), val)
	}
	out, err := json.Marshal(root)
	if err != nil {
		panic(err)
	}
	return out
}

func oneRun(o *runObs, kind, model string, withTools bool, format string, raw, stop bool, prompt, mode string) {
	stream := mode == "st" || mode == "cst" || mode == "v1st" || mode == "v1stu"
	opts := map[string]any{}
	if stop {
		opts["stop"] = []string{"<END>"}
	}
	var fmtRaw json.RawMessage
	if format != "" {
		fmtRaw = json.RawMessage(`"` + format + `"`)
	}
	tools := []api.Tool(nil)
	if withTools {
		tools = []api.Tool{weatherTool}
	}
	msgs := []api.Message{{Role: "user", Content: prompt}}

	// ---- api.Client
	if mode == "cst" || mode == "cns" {
		var err error
		if kind == "generate" {
			err = client.Generate(context.Background(), &api.GenerateRequest{Model: model, Prompt: prompt, Stream: &stream, Raw: raw, Format: fmtRaw, Options: opts},
				func(g api.GenerateResponse) error {
					r := rec{Kind: "msg", Calls: []call{}}
					setContent(&r, g.Response)
					r.Done, r.Reason, r.PC, r.EC, r.PD, r.ED = g.Done, g.DoneReason, g.PromptEvalCount, g.EvalCount, int64(g.PromptEvalDuration), int64(g.EvalDuration)
					r.HasCtx, r.Ctx, r.Model = g.Context != nil, ctxHex(g.Context), g.Model
					o.Recs = append(o.Recs, r)
					return nil
				})
		} else {
			err = client.Chat(context.Background(), &api.ChatRequest{Model: model, Messages: msgs, Stream: &stream, Format: fmtRaw, Options: opts, Tools: tools},
				func(c api.ChatResponse) error {
					r := rec{Kind: "msg"}
					setContent(&r, c.Message.Content)
					r.Done, r.Reason, r.PC, r.EC, r.PD, r.ED = c.Done, c.DoneReason, c.PromptEvalCount, c.EvalCount, int64(c.PromptEvalDuration), int64(c.EvalDuration)
					r.Calls, r.Model, r.Role = nativeCalls(c.Message.ToolCalls), c.Model, c.Message.Role
					o.Recs = append(o.Recs, r)
					return nil
				})
		}
		if err != nil {
			o.HasErr, o.CErr = true, err.Error()
		}
		return
	}

	// ---- raw HTTP
	var path string
	var body any
	openai := strings.HasPrefix(mode, "v1")
	switch {
	case !openai && kind == "generate":
		path = "/api/generate"
		body = api.GenerateRequest{Model: model, Prompt: prompt, Stream: &stream, Raw: raw, Format: fmtRaw, Options: opts}
	case !openai:
		path = "/api/chat"
		body = api.ChatRequest{Model: model, Messages: msgs, Stream: &stream, Format: fmtRaw, Options: opts, Tools: tools}
	case kind == "generate":
		path = "/v1/completions"
		b := map[string]any{"model": model, "prompt": prompt, "stream": stream}
		if stop {
			b["stop"] = []string{"<END>"}
		}
		if mode == "v1stu" {
			b["stream_options"] = map[string]any{"include_usage": true}
		}
		body = b
	default:
		path = "/v1/chat/completions"
		b := map[string]any{"model": model, "messages": []map[string]any{{"role": "user", "content": prompt}}, "stream": stream}
		if stop {
			b["stop"] = []string{"<END>"}
		}
		if format == "json" {
			b["response_format"] = map[string]any{"type": "json_object"}
		}
		if withTools {
			b["tools"] = tools
		}
		if mode == "v1stu" {
			b["stream_options"] = map[string]any{"include_usage": true}
		}
		body = b
	}
	bts, _ := json.Marshal(body)
	bts = applyVariants(bts, mode)
	o.Body = string(bts)
	resp, err := http.Post(base+path, "application/json", bytes.NewReader(bts))
	if err != nil {
		o.HasErr, o.CErr = true, err.Error()
		return
	}
	defer resp.Body.Close()
	o.Status, o.CType = resp.StatusCode, resp.Header.Get("Content-Type")
	all, _ := io.ReadAll(resp.Body)
	if openai && stream && strings.HasPrefix(o.CType, "text/event-stream") {
		parts := bytes.Split(all, []byte("\n\n"))
		for i, p := range parts {
			if i == len(parts)-1 {
				o.Trail = hx.Hex(string(p))
				break
			}
			pl, ok := bytes.CutPrefix(p, []byte("data: "))
			if !ok {
				o.Recs = append(o.Recs, rec{Kind: "garbage", Err: hx.Hex(string(p)), Calls: []call{}})
				continue
			}
			o.Recs = append(o.Recs, openaiRec(kind, pl))
		}
		return
	}
	lines := bytes.Split(all, []byte("\n"))
	for i, l := range lines {
		if i == len(lines)-1 {
			if len(l) > 0 { // c.JSON bodies have no trailing newline; json.Encoder bodies have one
				if openai {
					o.Recs = append(o.Recs, openaiRec(kind, l))
				} else {
					o.Recs = append(o.Recs, nativeRec(kind, l))
				}
			}
			break
		}
		if openai {
			o.Recs = append(o.Recs, openaiRec(kind, l))
		} else {
			o.Recs = append(o.Recs, nativeRec(kind, l))
		}
	}
}

// ---------------------------------------------------------------- parser oracle

func doParse(c map[string]any) any {
	model, _ := c["model"].(string)
	var res []map[string]any
	for _, t := range hx.UnhexList(c["texts"]) {
		tcs, ok, err := server.VerifC17ParseToolCalls(model, t)
		if err != nil {
			panic(err)
		}
		cs := nativeCalls(tcs)
		res = append(res, map[string]any{"ok": ok, "calls": cs})
	}
	return map[string]any{"res": res}
}

// ---------------------------------------------------------------- the real api.Client against scripted lines

func doClient(c map[string]any) any {
	status := hx.Int(c["status"])
	var body bytes.Buffer
	var all []string
	lines, _ := c["lines"].([]any)
	for _, l := range lines {
		lm := l.(map[string]any)
		n := hx.Int(lm["len"])
		var line string
		pad := func(prefix, suffix string) string {
			k := n - len(prefix) - len(suffix)
			if k < 0 {
				k = 0
			}
			return prefix + strings.Repeat("a", k) + suffix
		}
		switch lm["kind"].(string) {
		case "msg":
			line = pad(`{"model":"m","response":"`, `","done":false}`)
		case "done":
			line = pad(`{"model":"m","response":"`, `","done":true,"done_reason":"stop"}`)
		case "error":
			line = pad(`{"error":"`, `"}`)
		default:
			line = pad(`{"model":`, ``)
		}
		all = append(all, line)
		body.WriteString(line)
		if nl, ok := lm["nl"].(bool); !ok || nl {
			body.WriteByte('\n')
		}
	}
	// transport fault: "cut": {"lines": k, "extra": m, "framing": "chunked"|"length"}: the server sends the first k lines
	// completely, then m bytes of line k (m = -1: its whole content without the newline), and the connection is closed
	// without the end of the body (no terminating chunk / fewer bytes than Content-Length).  k = len(lines), m = 0: everything
	// was sent, only the end-of-body marker is missing.
	cut, hasCut := c["cut"].(map[string]any)
	srv := httptest.NewServer(http.HandlerFunc(func(w http.ResponseWriter, r *http.Request) {
		if !hasCut {
			w.Header().Set("Content-Type", "application/x-ndjson")
			w.WriteHeader(status)
			w.Write(body.Bytes())
			return
		}
		k, m := hx.Int(cut["lines"]), hx.Int(cut["extra"])
		var parts []string
		for i := 0; i < k && i < len(all); i++ {
			parts = append(parts, all[i]+"\n")
		}
		if k < len(all) && m != 0 {
			if m < 0 || m > len(all[k]) {
				m = len(all[k])
			}
			parts = append(parts, all[k][:m])
		}
		conn, bufrw, err := w.(http.Hijacker).Hijack()
		if err != nil {
			panic(err)
		}
		defer conn.Close()
		fmt.Fprintf(bufrw, "HTTP/1.1 %d %s\r\nContent-Type: application/x-ndjson\r\n", status, http.StatusText(status))
		if cut["framing"] == "length" {
			fmt.Fprintf(bufrw, "Content-Length: %d\r\n\r\n", body.Len()+1)
			for _, p := range parts {
				bufrw.WriteString(p)
			}
		} else {
			bufrw.WriteString("Transfer-Encoding: chunked\r\n\r\n")
			for _, p := range parts {
				fmt.Fprintf(bufrw, "%x\r\n%s\r\n", len(p), p)
			}
		}
		bufrw.Flush()
	}))
	defer srv.Close()
	u, _ := url.Parse(srv.URL)
	cl := api.NewClient(u, http.DefaultClient)
	got := []map[string]any{}
	st := true
	err := cl.Generate(context.Background(), &api.GenerateRequest{Model: "m", Prompt: "p", Stream: &st}, func(g api.GenerateResponse) error {
		n := len(g.Response) + len(`{"model":"m","response":"`) + len(`","done":false}`)
		if g.Done {
			n = len(g.Response) + len(`{"model":"m","response":"`) + len(`","done":true,"done_reason":"stop"}`)
		}
		got = append(got, map[string]any{"done": g.Done, "len": n})
		return nil
	})
	out := map[string]any{"got": got, "haserr": err != nil, "cerr": ""}
	if err != nil {
		out["cerr"] = err.Error()
	}
	return out
}

// ---------------------------------------------------------------- the real llm client against a fake runner

// realRunner delegates Completion to the REAL llmServer and records what it did (callbacks, return value); everything a
// tokenizer is needed for goes to the mock (the real one needs a loaded model).
type realRunner struct {
	llm.LlamaServer
	mu     sync.Mutex
	inner  llm.LlamaServer
	events []map[string]any
	hasErr bool
	errMsg string
	calls  int
	prompt string
}

func (r *realRunner) Completion(ctx context.Context, req llm.CompletionRequest, fn func(llm.CompletionResponse)) error {
	r.mu.Lock()
	r.prompt = req.Prompt
	r.mu.Unlock()
	err := r.inner.Completion(ctx, req, func(cr llm.CompletionResponse) {
		r.mu.Lock()
		r.events = append(r.events, map[string]any{"content": hx.Hex(cr.Content), "done": cr.Done, "reason": int(cr.DoneReason),
			"pc": cr.PromptEvalCount, "ec": cr.EvalCount, "pd": int64(cr.PromptEvalDuration), "ed": int64(cr.EvalDuration)})
		r.mu.Unlock()
		fn(cr)
	})
	r.mu.Lock()
	r.calls++
	if err != nil {
		r.hasErr, r.errMsg = true, err.Error()
	}
	r.mu.Unlock()
	return err
}
func (r *realRunner) Tokenize(ctx context.Context, s string) ([]int, error) { return mk.Tokenize(ctx, s) }
func (r *realRunner) Detokenize(ctx context.Context, t []int) (string, error) {
	return mk.Detokenize(ctx, t)
}

var (
	rr       = &realRunner{}
	realBase string
)

// {"op":"llm","status":200,"lines":[{"kind":"content","content":hex}|{"kind":"done","content":hex,"reason":r,"pc":n,"ec":n}|
//  {"kind":"garbage"}|{"kind":"blank"}],"send":k,"extra":m,"ending":"clean"|"cut","e2e":""|"generate"|"chat","stream":bool}
// The fake runner answers /health with "ready" and /completion with the first k lines, m bytes of line k, and then either
// the proper end of the chunked body ("clean") or a closed connection ("cut").  status != 200: the body is an error text.
// -> {"events":[...],"haserr":bool,"err":text, "run": {...} (e2e only)}
func doLLM(c map[string]any) any {
	status := hx.Int(c["status"])
	if status == 0 {
		status = 200
	}
	var all []string
	lines, _ := c["lines"].([]any)
	for _, l := range lines {
		lm := l.(map[string]any)
		switch lm["kind"].(string) {
		case "content":
			b, _ := json.Marshal(map[string]any{"content": hx.Unhex(lm["content"])})
			all = append(all, string(b))
		case "done":
			b, _ := json.Marshal(llm.CompletionResponse{Content: hx.Unhex(lm["content"]), Done: true, DoneReason: llm.DoneReason(hx.Int(lm["reason"])),
				PromptEvalCount: hx.Int(lm["pc"]), PromptEvalDuration: 7, EvalCount: hx.Int(lm["ec"]), EvalDuration: 9})
			all = append(all, string(b))
		case "blank":
			all = append(all, "")
		default:
			all = append(all, `{"content":`)
		}
	}
	k, m := hx.Int(c["send"]), hx.Int(c["extra"])
	ending, _ := c["ending"].(string)
	runner := httptest.NewServer(http.HandlerFunc(func(w http.ResponseWriter, r *http.Request) {
		if r.URL.Path == "/health" {
			json.NewEncoder(w).Encode(llm.ServerStatusResponse{Status: llm.ServerStatusReady, Progress: 1})
			return
		}
		io.Copy(io.Discard, r.Body)
		if status != 200 {
			w.WriteHeader(status)
			w.Write([]byte("runner failed: " + http.StatusText(status)))
			return
		}
		var parts []string
		for i := 0; i < k && i < len(all); i++ {
			parts = append(parts, all[i]+"\n")
		}
		if k < len(all) && m != 0 {
			if m < 0 || m > len(all[k]) {
				m = len(all[k])
			}
			parts = append(parts, all[k][:m])
		}
		conn, bufrw, err := w.(http.Hijacker).Hijack()
		if err != nil {
			panic(err)
		}
		defer conn.Close()
		bufrw.WriteString("HTTP/1.1 200 OK\r\nContent-Type: application/json\r\nTransfer-Encoding: chunked\r\n\r\n")
		for _, p := range parts {
			fmt.Fprintf(bufrw, "%x\r\n%s\r\n", len(p), p)
		}
		if ending != "cut" {
			bufrw.WriteString("0\r\n\r\n")
		}
		bufrw.Flush()
	}))
	defer runner.Close()
	u, _ := url.Parse(runner.URL)
	port := 0
	fmt.Sscanf(u.Port(), "%d", &port)
	real, err := llm.VerifC17NewServer(port)
	if err != nil {
		panic(err)
	}
	defer real.Close()
	rr.mu.Lock()
	rr.inner, rr.events, rr.hasErr, rr.errMsg, rr.calls = real, []map[string]any{}, false, "", 0
	rr.mu.Unlock()
	out := map[string]any{}
	e2e, _ := c["e2e"].(string)
	if e2e == "" {
		rr.Completion(context.Background(), llm.CompletionRequest{Prompt: "p"}, func(llm.CompletionResponse) {})
	} else {
		stream, _ := c["stream"].(bool)
		mk.set(script{})
		o := runObs{Mode: map[bool]string{true: "st", false: "ns"}[stream], Recs: []rec{}}
		save := base
		base = realBase
		oneRun(&o, e2e, "plain", false, "", false, false, "hi", o.Mode)
		base = save
		out["run"] = o
	}
	rr.mu.Lock()
	out["events"], out["haserr"], out["err"], out["calls"], out["prompt"] = rr.events, rr.hasErr, rr.errMsg, rr.calls, hx.Hex(rr.prompt)
	rr.mu.Unlock()
	return out
}

func main() {
	setup()
	{
		h, _, err := server.VerifC17Handler(rr)
		if err != nil {
			panic(err)
		}
		realBase = httptest.NewServer(h).URL
	}
	// like hx.Loop, but every reply is flushed at once so that the check can converse with one process
	// (shrinking re-runs cases without paying the set-up again)
	sc := bufio.NewScanner(os.Stdin)
	sc.Buffer(make([]byte, 1<<20), 1<<30)
	w := bufio.NewWriter(os.Stdout)
	enc := json.NewEncoder(w)
	for sc.Scan() {
		line := sc.Bytes()
		if len(line) == 0 {
			continue
		}
		var c map[string]any
		if err := json.Unmarshal(line, &c); err != nil {
			enc.Encode(map[string]any{"harness_error": err.Error()})
			w.Flush()
			continue
		}
		enc.Encode(hx.Guard(func() any {
			switch c["op"] {
			case "run":
				return doRun(c)
			case "parse":
				return doParse(c)
			case "client":
				return doClient(c)
			case "llm":
				return doLLM(c)
			}
			return map[string]any{"harness_error": "unknown op"}
		}))
		w.Flush()
	}
}
