// C09 harness: runs the real ollama.Registry (Pull/Push), blob.DiskCache and registry.Local (handlePull's retry loop)
// against a scripted in-process registry, through the add-only overlay drivers
// harness/overlay/server/internal/client/ollama/c09.go and harness/overlay/server/c09.go.
package main

import (
	"github.com/ollama/ollama/server"
	"verifharness/hx"
)

func main() {
	hx.Loop(func(c map[string]any) any { return server.VerifC09(c) })
}
