// C06 harness: drives the real kvcache.Causal / kvcache.WrapperCache of /repo through an operation history on a
// fake ml.Backend and reports, after EVERY operation, the cache metadata (cells, cellRanges), the physical
// K/V data per location, and - for forward passes - the mask and the K/V views returned by Get.
//
// The fake backend is a strided float32 tensor store with ggml-like semantics where it matters here:
//   - View(offset, ne0 [, nb1, ne1 [, nb2, ne2 [, nb3, ne3]]]) with byte offsets/strides (element size 2 for
//     f16, 4 otherwise), aliasing the storage of its parent, bounds-checked;
//   - Copy / the shift function build *graph nodes*: nothing happens until the node was passed to
//     ctx.Forward and that context is Computed; Close drops what was not computed;
//   - Permute(1,2,0,3) as ggml_permute.
//
// Encoding (kHeadDim=2, numKVHeads=2, vHeadDim=3; tag = layer*16 + d*4 + h):
//
//	K[d=0,h,cell] = tok*64  + tag      K[d=1,h,cell] = kpos*64 + tag      V[d,h,cell] = tok*64 + tag
//
// kpos is the position baked into K when the entry was stored (what RoPE does); the shift function adds
// shift*64 to the d=1 elements, as a re-RoPE by `shift` positions would.
package main

import (
	"errors"
	"fmt"
	"math"
	"sort"

	"github.com/ollama/ollama/kvcache"
	"github.com/ollama/ollama/ml"
	"github.com/ollama/ollama/model/input"
	"verifharness/hx"
)

const (
	kHeadDim   = 2
	numKVHeads = 2
	vHeadDim   = 3
)

// ------------------------------------------------------------------ fake backend

type store struct{ data []float32 }

type tensor struct {
	ml.Tensor // nil: every method not defined below panics if the cache starts using it

	st    *store
	off   int
	ne    []int
	nb    []int // strides in elements
	dtype ml.DType
	lazy  func() []float32 // contents computed when read (graph-time value)
	op    func()           // graph node: executed by Compute of the context it was Forwarded to
}

func esize(d ml.DType) int {
	if d == ml.DTypeF16 {
		return 2
	}
	return 4
}

func contiguous(shape []int) []int {
	nb := make([]int, len(shape))
	s := 1
	for i := range shape {
		nb[i] = s
		s *= shape[i]
	}
	return nb
}

func numel(shape []int) int {
	if len(shape) == 0 {
		return 0
	}
	n := 1
	for _, s := range shape {
		n *= s
	}
	return n
}

func newTensor(dtype ml.DType, shape ...int) *tensor {
	for _, s := range shape {
		if s < 0 {
			panic(fmt.Sprintf("fake backend: negative dimension in %v", shape))
		}
	}
	return &tensor{st: &store{data: make([]float32, numel(shape))}, ne: append([]int{}, shape...), nb: contiguous(shape), dtype: dtype}
}

func (t *tensor) Dim(n int) int {
	if n >= len(t.ne) {
		return 1
	}
	return t.ne[n]
}

func (t *tensor) Stride(n int) int {
	if n >= len(t.nb) {
		// as ggml: stride of a missing dimension = size of the whole tensor
		return numel(t.ne) * esize(t.dtype)
	}
	return t.nb[n] * esize(t.dtype)
}
func (t *tensor) Shape() []int    { return t.ne }
func (t *tensor) DType() ml.DType { return t.dtype }

// indices of the elements in logical order (dimension 0 fastest)
func (t *tensor) index() []int {
	n := numel(t.ne)
	out := make([]int, 0, n)
	idx := make([]int, len(t.ne))
	for k := 0; k < n; k++ {
		o := t.off
		for d := range idx {
			o += idx[d] * t.nb[d]
		}
		out = append(out, o)
		for d := range idx {
			idx[d]++
			if idx[d] < t.ne[d] {
				break
			}
			idx[d] = 0
		}
	}
	return out
}

func (t *tensor) read() []float32 {
	if t.lazy != nil {
		return t.lazy()
	}
	ix := t.index()
	out := make([]float32, len(ix))
	for k, o := range ix {
		out[k] = t.st.data[o]
	}
	return out
}

func (t *tensor) write(v []float32) {
	ix := t.index()
	if len(ix) != len(v) {
		panic(fmt.Sprintf("fake backend: copy of %d elements into %d", len(v), len(ix)))
	}
	for k, o := range ix {
		t.st.data[o] = v[k]
	}
}

func (t *tensor) Floats() []float32 { return t.read() }

func (t *tensor) View(ctx ml.Context, offset int, shape ...int) ml.Tensor {
	es := esize(t.dtype)
	if t.lazy != nil {
		panic("fake backend: view of a computed tensor")
	}
	if offset%es != 0 || offset < 0 {
		panic(fmt.Sprintf("fake backend: view offset %d not a multiple of the element size %d", offset, es))
	}
	v := &tensor{st: t.st, off: t.off + offset/es, dtype: t.dtype}
	switch len(shape) {
	case 1, 3, 5, 7:
		v.ne = append(v.ne, shape[0])
		v.nb = append(v.nb, 1)
		for i := 1; i+1 < len(shape); i += 2 {
			if shape[i]%es != 0 {
				panic(fmt.Sprintf("fake backend: view stride %d not a multiple of the element size", shape[i]))
			}
			v.nb = append(v.nb, shape[i]/es)
			v.ne = append(v.ne, shape[i+1])
		}
	default:
		panic("fake backend: unsupported number of view arguments")
	}
	// bounds
	hi := v.off
	for d := range v.ne {
		if v.ne[d] < 0 {
			panic("fake backend: negative view dimension")
		}
		if v.ne[d] == 0 {
			return v
		}
		hi += (v.ne[d] - 1) * v.nb[d]
	}
	if hi >= len(t.st.data) {
		panic(fmt.Sprintf("fake backend: view [%d..%d] outside a tensor of %d elements", v.off, hi, len(t.st.data)))
	}
	return v
}

// Permute as ggml_permute: axis i of the source becomes axis p[i] of the result.
func (t *tensor) Permute(ctx ml.Context, p ...int) ml.Tensor {
	if len(p) != 4 {
		panic("fake backend: Permute needs 4 axes")
	}
	ne := []int{1, 1, 1, 1}
	nb := []int{0, 0, 0, 0}
	sne := append(append([]int{}, t.ne...), 1, 1, 1, 1)[:4]
	snb := append(append([]int{}, t.nb...), 0, 0, 0, 0)[:4]
	for i := 0; i < 4; i++ {
		ne[p[i]] = sne[i]
		nb[p[i]] = snb[i]
	}
	return &tensor{st: t.st, off: t.off, ne: ne, nb: nb, dtype: t.dtype, lazy: t.lazy}
}

func (t *tensor) Copy(ctx ml.Context, t2 ml.Tensor) ml.Tensor {
	dst := t2.(*tensor)
	return &tensor{dtype: dst.dtype, ne: dst.ne, nb: dst.nb, st: dst.st, off: dst.off, op: func() {
		if t.st != nil && t.st == dst.st && t.lazy == nil && moveLog != nil {
			// a copy inside one storage tensor = moveCells; logged for the K tensor of the first layer only
			moveLog(t, dst)
		}
		dst.write(t.read())
	}}
}

// set per case: called for every executed copy whose source and destination share their storage
var moveLog func(src, dst *tensor)

type fctx struct {
	ml.Context
	b      *backend
	graph  []func()
	closed bool
}

func (c *fctx) Empty(dtype ml.DType, shape ...int) ml.Tensor { return newTensor(dtype, shape...) }
func (c *fctx) Zeros(dtype ml.DType, shape ...int) ml.Tensor {
	t := newTensor(dtype, shape...)
	c.b.zeros = append(c.b.zeros, t)
	return t
}

func (c *fctx) FromFloatSlice(s []float32, shape ...int) (ml.Tensor, error) {
	c.b.floatCalls++
	if c.b.failFloat == c.b.floatCalls {
		return nil, errFault
	}
	t := newTensor(ml.DTypeF32, shape...)
	if len(s) != len(t.st.data) {
		return nil, fmt.Errorf("fake backend: %d values for shape %v", len(s), shape)
	}
	copy(t.st.data, s)
	return t, nil
}

func (c *fctx) FromIntSlice(s []int32, shape ...int) (ml.Tensor, error) {
	if c.b.failInt {
		return nil, errFault
	}
	t := newTensor(ml.DTypeI32, shape...)
	if len(s) != len(t.st.data) {
		return nil, fmt.Errorf("fake backend: %d values for shape %v", len(s), shape)
	}
	for i, v := range s {
		t.st.data[i] = float32(v)
	}
	return t, nil
}

func (c *fctx) Forward(ts ...ml.Tensor) ml.Context {
	if c.closed {
		panic("fake backend: Forward on a closed context")
	}
	for _, x := range ts {
		if x == nil {
			continue
		}
		if t, ok := x.(*tensor); ok && t != nil && t.op != nil {
			c.graph = append(c.graph, t.op)
		}
	}
	return c
}

func (c *fctx) Compute(...ml.Tensor) {
	if c.closed {
		panic("fake backend: Compute on a closed context")
	}
	g := c.graph
	c.graph = nil
	for _, f := range g {
		f()
	}
}
func (c *fctx) Reserve() error       { return nil }
func (c *fctx) MaxGraphNodes() int   { return c.b.nodes }
func (c *fctx) Close()               { c.closed = true; c.graph = nil }
func (c *fctx) Input() ml.Context    { return c }
func (c *fctx) Layer(int) ml.Context { return c }

type backend struct {
	ml.Backend
	nodes int
	cfg   ml.CacheConfig
	zeros []*tensor // K/V storage in allocation order

	// fault injection, per operation: the failFloat-th FromFloatSlice (mask upload) of the operation fails,
	// every FromIntSlice (offsets of shift) fails, the model's shift function fails
	failFloat, floatCalls int
	failInt, failShiftFn  bool
}

var errFault = errors.New("fake backend: allocation failed")

func (b *backend) NewContext() ml.Context        { return &fctx{b: b} }
func (b *backend) NewContextSize(int) ml.Context { return &fctx{b: b} }
func (b *backend) CacheConfig() ml.CacheConfig   { return b.cfg }

// ------------------------------------------------------------------ encoding of tokens into K/V

func mkKV(layer int, toks []int, pos []int32) (*tensor, *tensor) {
	n := len(toks)
	k := newTensor(ml.DTypeF32, kHeadDim, numKVHeads, n)
	v := newTensor(ml.DTypeF32, vHeadDim, numKVHeads, n)
	for i := 0; i < n; i++ {
		for h := 0; h < numKVHeads; h++ {
			for d := 0; d < kHeadDim; d++ {
				f := toks[i]
				if d == 1 {
					f = int(pos[i])
				}
				k.st.data[d+kHeadDim*(h+numKVHeads*i)] = float32(f*64 + layer*16 + d*4 + h)
			}
			for d := 0; d < vHeadDim; d++ {
				v.st.data[d+vHeadDim*(h+numKVHeads*i)] = float32(toks[i]*64 + layer*16 + d*4 + h)
			}
		}
	}
	return k, v
}

func fdiv(v float32) (int, int) {
	q := math.Floor(float64(v) / 64)
	return int(q), int(float64(v) - q*64)
}

// decode one cache location from logical K (kHeadDim x heads) and V (vHeadDim x heads) element getters.
// nil = never written (all zero); "garbled" = elements disagree or carry the wrong tag.
func decode(layer int, kget func(d, h int) float32, vget func(d, h int) float32) any {
	allzero := true
	for h := 0; h < numKVHeads; h++ {
		for d := 0; d < kHeadDim; d++ {
			if kget(d, h) != 0 {
				allzero = false
			}
		}
		for d := 0; d < vHeadDim; d++ {
			if vget(d, h) != 0 {
				allzero = false
			}
		}
	}
	if allzero {
		return nil
	}
	tokK, kpos, tokV := 0, 0, 0
	for h := 0; h < numKVHeads; h++ {
		for d := 0; d < kHeadDim; d++ {
			f, tag := fdiv(kget(d, h))
			if tag != layer*16+d*4+h {
				return "garbled"
			}
			if d == 0 {
				if h > 0 && f != tokK {
					return "garbled"
				}
				tokK = f
			} else {
				if h > 0 && f != kpos {
					return "garbled"
				}
				kpos = f
			}
		}
		for d := 0; d < vHeadDim; d++ {
			f, tag := fdiv(vget(d, h))
			if tag != layer*16+d*4+h {
				return "garbled"
			}
			if (h > 0 || d > 0) && f != tokV {
				return "garbled"
			}
			tokV = f
		}
	}
	return []int{tokK, kpos, tokV}
}

// ------------------------------------------------------------------ one case

type sub struct {
	c      *kvcache.Causal
	layers []int // layers stored in this cache
}

type world struct {
	b      *backend
	top    kvcache.Cache
	wrap   *kvcache.WrapperCache
	subs   []*sub
	permv  bool
	anoms  []string
	ncells []int
	enc    *kvcache.EncoderCache // kind "encwrap": layer 0 is the cross-attention layer stored in the encoder cache
}

func (w *world) anomaly(s string) {
	if len(w.anoms) < 8 {
		w.anoms = append(w.anoms, s)
	}
}

// K/V storage tensors of cache `si`, layer l (nil before the first Put)
func (w *world) kv(si int, l int) (*tensor, *tensor) {
	// allocation order: for every (cache, layer) first K then V, in the order of first Put; Put order in the
	// harness is layer 0, 1, ... and each layer belongs to exactly one cache
	idx := 2 * l
	if w.enc != nil {
		idx = 2 * (l - 1)
	}
	if idx+1 >= len(w.b.zeros) {
		return nil, nil
	}
	return w.b.zeros[idx], w.b.zeros[idx+1]
}

func (w *world) physOf(si int) (out []any, layerdiff bool) {
	s := w.subs[si]
	n := w.ncells[si]
	var first []any
	for li, l := range s.layers {
		k, v := w.kv(si, l)
		cur := make([]any, n)
		if k != nil {
			if len(k.st.data) != kHeadDim*numKVHeads*n || len(v.st.data) != vHeadDim*numKVHeads*n {
				w.anomaly(fmt.Sprintf("storage of layer %d has %d/%d elements for %d cells", l, len(k.st.data), len(v.st.data), n))
				return make([]any, n), true
			}
			for j := 0; j < n; j++ {
				cur[j] = decode(l,
					func(d, h int) float32 { return k.st.data[d+kHeadDim*(h+numKVHeads*j)] },
					func(d, h int) float32 {
						if w.permv {
							return v.st.data[j+n*(d+vHeadDim*h)]
						}
						return v.st.data[d+vHeadDim*(h+numKVHeads*j)]
					})
			}
		}
		if li == 0 {
			first = cur
		} else if fmt.Sprint(first) != fmt.Sprint(cur) {
			layerdiff = true
		}
	}
	return first, layerdiff
}

func (w *world) snap() []any {
	var out []any
	for si, s := range w.subs {
		cells := s.c.C06Cells()
		cs := make([]any, len(cells))
		for i, c := range cells {
			cs[i] = []any{int(c.Pos), c.Seqs}
		}
		rs := s.c.C06Ranges()
		sort.Slice(rs, func(i, j int) bool { return rs[i].Seq < rs[j].Seq })
		rj := make([]any, len(rs))
		for i, r := range rs {
			rj[i] = []any{r.Seq, r.Min, r.Max}
		}
		ph, ld := w.physOf(si)
		m := map[string]any{"cells": cs, "ranges": rj, "phys": ph, "nlayers": s.c.C06Layers()}
		if ld {
			m["layerdiff"] = true
		}
		out = append(out, m)
	}
	return out
}

// num accepts JSON numbers (float64) and the ints of the harness's own meta-operations
func num(v any) int {
	switch x := v.(type) {
	case float64:
		return int(x)
	case int:
		return x
	case int32:
		return int(x)
	}
	return 0
}

func ints(v any) []int {
	l, _ := v.([]any)
	out := make([]int, len(l))
	for i, x := range l {
		out[i] = num(x)
	}
	return out
}

func runCase(c map[string]any) any {
	cfg := c["cfg"].(map[string]any)
	window := num(cfg["window"])
	kind, _ := cfg["kind"].(string)
	if kind == "enc" {
		return runEnc(c)
	}
	canShift, _ := cfg["shift"].(bool)
	permv, _ := cfg["permv"].(bool)
	maskf16, _ := cfg["maskf16"].(bool)
	nlayers := num(cfg["layers"])
	if nlayers <= 0 {
		nlayers = 2
	}
	b := &backend{nodes: num(cfg["nodes"])}
	b.cfg = ml.CacheConfig{CachePadding: num(cfg["cpad"]), MaskBatchPadding: num(cfg["bpad"]), PermutedV: permv}
	if maskf16 {
		b.cfg.MaskDType = ml.DTypeF16
	}
	w := &world{b: b, permv: permv}
	var moves [][]int
	moveLog = func(src, dst *tensor) {
		if len(b.zeros) > 0 && src.st == b.zeros[0].st && len(src.ne) == 1 {
			row := kHeadDim * numKVHeads
			moves = append(moves, []int{src.off / row, dst.off / row, src.ne[0] / row})
		}
	}

	var shift func(ctx ml.Context, layer int, key, shift ml.Tensor) (ml.Tensor, error)
	if canShift {
		shift = func(ctx ml.Context, layer int, key, sh ml.Tensor) (ml.Tensor, error) {
			if b.failShiftFn {
				return nil, errFault
			}
			kt, st := key.(*tensor), sh.(*tensor)
			n := kt.Dim(2)
			if kt.Dim(0) != kHeadDim || kt.Dim(1) != numKVHeads || st.Dim(0) != n || len(st.ne) != 1 {
				w.anomaly(fmt.Sprintf("shift: key shape %v, shift shape %v", kt.ne, st.ne))
			}
			out := &tensor{dtype: kt.dtype, ne: []int{kHeadDim, numKVHeads, n}, nb: contiguous([]int{kHeadDim, numKVHeads, n})}
			out.lazy = func() []float32 {
				kv, sv := kt.read(), st.read()
				res := make([]float32, len(kv))
				copy(res, kv)
				for j := 0; j < n; j++ {
					for h := 0; h < numKVHeads; h++ {
						e := 1 + kHeadDim*(h+numKVHeads*j)
						if sv[j] != 0 {
							if _, tag := fdiv(kv[e]); kv[e] != 0 && tag != layer*16+4+h {
								w.anomaly(fmt.Sprintf("shift: layer %d given data tagged %d", layer, tag))
							}
							res[e] = kv[e] + sv[j]*64
						}
					}
				}
				return res
			}
			return out, nil
		}
	}

	mk := func(win int) *kvcache.Causal {
		if win > 0 {
			return kvcache.NewSWACache(int32(win), shift)
		}
		return kvcache.NewCausalCache(shift)
	}
	switch kind {
	case "encwrap":
		nlayers = 2
		w.enc = kvcache.NewEncoderCache()
		s1 := &sub{c: mk(0), layers: []int{1}}
		w.subs = []*sub{s1}
		w.wrap = kvcache.NewWrapperCache(w.enc, s1.c)
		w.top = w.wrap
	case "wrapper":
		s0, s1 := &sub{c: mk(window)}, &sub{c: mk(num(cfg["window2"]))}
		for l := 0; l < nlayers; l++ {
			if l%2 == 0 {
				s0.layers = append(s0.layers, l)
			} else {
				s1.layers = append(s1.layers, l)
			}
		}
		w.subs = []*sub{s0, s1}
		w.wrap = kvcache.NewWrapperCache(s0.c, s1.c)
		w.top = w.wrap
	default:
		s0 := &sub{c: mk(window)}
		for l := 0; l < nlayers; l++ {
			s0.layers = append(s0.layers, l)
		}
		w.subs = []*sub{s0}
		w.top = s0.c
	}
	w.top.Init(b, ml.DTypeF16, num(cfg["maxseq"]), num(cfg["capacity"]), num(cfg["maxbatch"]))
	for _, s := range w.subs {
		w.ncells = append(w.ncells, len(s.c.C06Cells()))
	}
	layerType := func(l int) int {
		if w.wrap != nil {
			return l % 2
		}
		return 0
	}

	res := map[string]any{"ncells": w.ncells}
	var steps []any
	ops, _ := c["ops"].([]any)
	panicked := false
	// one primitive operation of the Cache interface; the step record echoes it ("prim")
	prim := func(op map[string]any) map[string]any {
		st := map[string]any{"prim": op}
		moves = nil
		b.failFloat, b.floatCalls, b.failInt, b.failShiftFn = 0, 0, false, false
		if f, ok := op["fault"].(map[string]any); ok {
			b.failFloat = num(f["mask"])
			switch f["shift"] {
			case "alloc":
				b.failInt = true
			case "fn":
				b.failShiftFn = true
			}
		}
		r := hx.Guard(func() any {
			switch op["op"] {
			case "fwd", "reserve":
				reserve := op["op"] == "reserve"
				seqs, toks := ints(op["seqs"]), ints(op["toks"])
				pos := make([]int32, len(seqs))
				for i, p := range ints(op["pos"]) {
					pos[i] = int32(p)
				}
				ctx := b.NewContext()
				batch := input.Batch{Positions: pos, Sequences: seqs}
				img, hasImg := op["img"].(map[string]any)
				if hasImg {
					batch.Multimodal = []input.MultimodalIndex{{Index: num(img["at"])}}
				}
				err := w.top.StartForward(ctx, batch, reserve)
				if err != nil {
					if errors.Is(err, kvcache.ErrKvCacheFull) {
						st["err"] = "full"
					} else if errors.Is(err, errFault) {
						st["err"] = "backend"
					} else {
						st["err"] = err.Error()
					}
					ctx.Close()
					if len(moves) > 0 {
						st["moves"] = moves
					}
					return nil
				}
				for l := 0; l < nlayers; l++ {
					w.top.SetLayer(l)
					if w.wrap != nil {
						w.wrap.SetLayerType(layerType(l))
					}
					if w.enc != nil && l == 0 {
						// cross-attention layer: K/V of the image are stored only when the batch carries the image
						if hasImg {
							k, v := mkImg(0, num(img["id"]))
							w.top.Put(ctx, k, v)
						}
						continue
					}
					k, v := mkKV(l, toks, pos)
					w.top.Put(ctx, k, v)
				}
				type got struct{ k, v, m *tensor }
				gots := make([]got, nlayers)
				for l := 0; l < nlayers; l++ {
					if w.enc != nil && l == 0 {
						continue
					}
					w.top.SetLayer(l)
					if w.wrap != nil {
						w.wrap.SetLayerType(layerType(l))
					}
					k, v, m := w.top.Get(ctx)
					gots[l] = got{k.(*tensor), v.(*tensor), m.(*tensor)}
				}
				if reserve {
					// a reservation pass: the graph is never executed (the mask is an input, built by the cache itself)
					_ = ctx.Reserve()
				} else {
					ctx.Compute()
				}
				var fw []any
				for _, s := range w.subs {
					loc, mn, mx := s.c.C06Cur()
					f := map[string]any{"loc": loc, "min": mn, "max": mx}
					var firstView, firstMask string
					for li, l := range s.layers {
						g := gots[l]
						// mask: [length, batchPadded]
						length := g.m.Dim(0)
						rows := g.m.Dim(1)
						mv := g.m.read()
						vis := make([][]int, len(seqs))
						padok := true
						for i := 0; i < rows; i++ {
							for j := 0; j < length; j++ {
								x := mv[i*length+j]
								switch {
								case x == 0:
									if i < len(seqs) {
										vis[i] = append(vis[i], mn+j)
									} else {
										padok = false
									}
								case math.IsInf(float64(x), -1):
								default:
									w.anomaly(fmt.Sprintf("mask value %v", x))
								}
							}
							if i < len(seqs) && vis[i] == nil {
								vis[i] = []int{}
							}
						}
						// views
						cs := g.k.Dim(2)
						view := make([]any, cs)
						kd := g.k.read()
						var vd []float32
						if permv {
							// (cachedSize, vHeadDim, heads)
							if g.v.Dim(0) != cs || g.v.Dim(1) != vHeadDim || g.v.Dim(2) != numKVHeads {
								w.anomaly(fmt.Sprintf("permuted value view shape %v", g.v.ne))
							}
						} else if g.v.Dim(0) != vHeadDim || g.v.Dim(1) != numKVHeads || g.v.Dim(2) != cs {
							w.anomaly(fmt.Sprintf("value view shape %v", g.v.ne))
						}
						vd = g.v.read()
						if g.k.Dim(0) != kHeadDim || g.k.Dim(1) != numKVHeads {
							w.anomaly(fmt.Sprintf("key view shape %v", g.k.ne))
						}
						for j := 0; j < cs; j++ {
							view[j] = decode(l,
								func(d, h int) float32 { return kd[d+kHeadDim*(h+numKVHeads*j)] },
								func(d, h int) float32 {
									if permv {
										return vd[j+cs*(d+vHeadDim*h)]
									}
									return vd[d+vHeadDim*(h+numKVHeads*j)]
								})
						}
						if li == 0 {
							f["vis"] = vis
							f["view"] = view
							f["length"] = length
							f["rows"] = rows
							f["padok"] = padok
							f["cached"] = cs
							firstView, firstMask = fmt.Sprint(view), fmt.Sprint(vis, length, rows, padok)
						} else if fmt.Sprint(view) != firstView || fmt.Sprint(vis, length, rows, padok) != firstMask {
							f["layerdiff"] = true
						}
					}
					fw = append(fw, f)
				}
				st["fw"] = fw
				// SetCausal calls inside the pass (gemma3 calls it before every layer): after each call the mask that Get returns
				// is decoded again for every cache and every layer
				if calls, ok := op["sc"].([]any); ok && !reserve {
					var sc []any
					for _, cl := range calls {
						ex := ints(cl)
						var per []any
						for _, s := range w.subs {
							r := map[string]any{}
							first := ""
							for li, l := range s.layers {
								w.top.SetLayer(l)
								if w.wrap != nil {
									w.wrap.SetLayerType(layerType(l))
								}
								s.c.SetCausal(ctx, kvcache.CausalOptions{Except: ex})
								_, _, m := w.top.Get(ctx)
								ctx.Compute()
								mt := m.(*tensor)
								_, mn, _ := s.c.C06Cur()
								length, rows := mt.Dim(0), mt.Dim(1)
								mv := mt.read()
								vis := make([][]int, len(seqs))
								padok := true
								for i := 0; i < rows; i++ {
									for j := 0; j < length; j++ {
										x := mv[i*length+j]
										switch {
										case x == 0:
											if i < len(seqs) {
												vis[i] = append(vis[i], mn+j)
											} else {
												padok = false
											}
										case math.IsInf(float64(x), -1):
										default:
											w.anomaly(fmt.Sprintf("mask value %v", x))
										}
									}
									if i < len(seqs) && vis[i] == nil {
										vis[i] = []int{}
									}
								}
								sig := fmt.Sprint(vis, length, rows, padok)
								if li == 0 {
									r["vis"], r["length"], r["rows"], r["padok"] = vis, length, rows, padok
									first = sig
								} else if sig != first {
									r["layerdiff"] = true
								}
							}
							per = append(per, r)
						}
						sc = append(sc, per)
					}
					st["sc"] = sc
				}
				ctx.Close()
				if len(moves) > 0 {
					st["moves"] = moves
				}
			case "copy":
				w.top.CopyPrefix(num(op["src"]), num(op["dst"]), int32(num(op["len"])))
			case "rm":
				err := w.top.Remove(num(op["seq"]), int32(num(op["b"])), int32(num(op["e"])))
				if err != nil {
					if errors.Is(err, kvcache.ErrNotSupported) {
						st["err"] = "notsupported"
					} else if errors.Is(err, errFault) {
						st["err"] = "backend"
					} else {
						st["err"] = err.Error()
					}
				}
			case "resume":
				st["r"] = w.top.CanResume(num(op["seq"]), int32(num(op["pos"])))
				if w.wrap != nil {
					var rs []bool
					for _, s := range w.subs {
						rs = append(rs, s.c.CanResume(num(op["seq"]), int32(num(op["pos"]))))
					}
					st["rs"] = rs
				}
			default:
				st["err"] = "harness: unknown op"
			}
			return nil
		})
		if m, ok := r.(map[string]any); ok && m["panic"] != nil {
			st["panic"] = m["panic"]
			panicked = true // the cache is in an undefined state after a panic
			steps = append(steps, st)
			return st
		}
		st["caches"] = w.snap()
		if w.enc != nil {
			st["enc"] = encState(w.enc)
			st["get"] = encGet(w.top, func() { w.wrap.SetLayerType(0) }, []int{0})
		}
		steps = append(steps, st)
		return st
	}
	const maxInt32 = 2147483647
	for _, o := range ops {
		if panicked {
			break
		}
		op := o.(map[string]any)
		switch op["op"] {
		case "load":
			// what ollamarunner's LoadCacheSlot does with the cache: resume at pos if CanResume says so, else from scratch;
			// a failing Remove is followed by clearing the sequence
			q, p := op["seq"], num(op["pos"])
			if p > 0 {
				st := prim(map[string]any{"op": "resume", "seq": q, "pos": p})
				if ok, _ := st["r"].(bool); !ok {
					p = 0
				}
			}
			if panicked {
				break
			}
			st := prim(map[string]any{"op": "rm", "seq": q, "b": p, "e": maxInt32})
			if st["err"] != nil && !panicked {
				prim(map[string]any{"op": "rm", "seq": q, "b": 0, "e": maxInt32})
			}
		case "fwdf":
			// a forward pass during which the backend fails, followed by the recovery the code base itself applies to a partly
			// performed StartForward (WrapperCache.StartForward): Remove(seq_k, pos_k, MaxInt32) for every batch entry
			st := prim(map[string]any{"op": "fwd", "seqs": op["seqs"], "pos": op["pos"], "toks": op["toks"], "fault": op["fault"]})
			if st["err"] == "backend" && !panicked {
				seqs, pos := ints(op["seqs"]), ints(op["pos"])
				for k := range seqs {
					if panicked {
						break
					}
					prim(map[string]any{"op": "rm", "seq": seqs[k], "b": pos[k], "e": maxInt32})
				}
			}
		case "rmc":
			// Remove, and on error clear the sequence (kvcache/cache.go: "If an error occurs, the entire context for the
			// sequence should be removed by calling Remove(seq, 0, math.MaxInt32)")
			st := prim(map[string]any{"op": "rm", "seq": op["seq"], "b": op["b"], "e": op["e"], "fault": op["fault"]})
			if st["err"] != nil && !panicked {
				prim(map[string]any{"op": "rm", "seq": op["seq"], "b": 0, "e": maxInt32})
			}
		default:
			prim(op)
		}
	}
	res["steps"] = steps
	if len(w.anoms) > 0 {
		res["anomalies"] = w.anoms
	}
	return res
}

func main() {
	hx.Loop(runCase)
}
