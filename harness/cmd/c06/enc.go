// EncoderCache part of the C06 harness: the real kvcache.EncoderCache alone (kind "enc") - driven with the
// primitive operations StartForward (with the position of the last multimodal input, optionally as a reservation
// pass), Put and Get per layer, Remove - and helpers for the WrapperCache(EncoderCache, Causal) that mllama uses
// (kind "encwrap", in main.go).
//
// Encoding of an image: K elements = img*8 + 1 + layer*2 (mod 8 tag), V elements = img*8 + 2 + layer*2.
package main

import (
	"fmt"

	"github.com/ollama/ollama/kvcache"
	"github.com/ollama/ollama/ml"
	"github.com/ollama/ollama/model/input"
)

const encElems = 6

func mkImg(layer, img int) (*tensor, *tensor) {
	k := newTensor(ml.DTypeF32, 2, 1, 3)
	v := newTensor(ml.DTypeF32, 2, 1, 3)
	for i := 0; i < encElems; i++ {
		k.st.data[i] = float32(img*8 + 1 + (layer%2)*2)
		v.st.data[i] = float32(img*8 + 2 + (layer%2)*2)
	}
	return k, v
}

// decodeImg: nil = nothing stored for the layer, "garbled" = inconsistent, otherwise the image id
func decodeImg(layer int, k, v ml.Tensor) any {
	kt, _ := k.(*tensor)
	vt, _ := v.(*tensor)
	if kt == nil || vt == nil {
		return nil
	}
	kd, vd := kt.read(), vt.read()
	if len(kd) != encElems || len(vd) != encElems {
		return "garbled"
	}
	allzero := true
	for i := range kd {
		if kd[i] != 0 || vd[i] != 0 {
			allzero = false
		}
	}
	if allzero {
		return nil
	}
	img := int(kd[0]) / 8
	for i := range kd {
		if int(kd[i]) != img*8+1+(layer%2)*2 || int(vd[i]) != img*8+2+(layer%2)*2 {
			return "garbled"
		}
	}
	return img
}

func encState(e *kvcache.EncoderCache) map[string]any {
	cached, pos, cur, res := e.C06Enc()
	return map[string]any{"cached": cached, "public": e.EncoderCached(), "pos": int(pos), "cur": int(cur), "reserve": res}
}

func encGet(e kvcache.Cache, setType func(), layers []int) []any {
	out := make([]any, len(layers))
	for i, l := range layers {
		e.SetLayer(l)
		if setType != nil {
			setType()
		}
		k, v, m := e.Get(nil)
		if m != nil {
			out[i] = "mask-not-nil"
			continue
		}
		out[i] = decodeImg(l, k, v)
	}
	return out
}

// runEnc: one EncoderCache, primitive operations
func runEnc(c map[string]any) any {
	cfg := c["cfg"].(map[string]any)
	b := &backend{nodes: 8192}
	permv, _ := cfg["permv"].(bool)
	b.cfg = ml.CacheConfig{PermutedV: permv, CachePadding: num(cfg["cpad"])}
	e := kvcache.NewEncoderCache()
	e.Init(b, ml.DTypeF16, 1, num(cfg["capacity"]), num(cfg["maxbatch"]))
	layers := []int{0, 3}
	var steps []any
	ops, _ := c["ops"].([]any)
	var ctx ml.Context
	for _, o := range ops {
		op := o.(map[string]any)
		st := map[string]any{"prim": op}
		r := guard(func() {
			switch op["op"] {
			case "estart":
				// a forward pass begins: positions of the batch, index of the last multimodal input (-1 = none)
				if ctx != nil {
					ctx.Close()
				}
				ctx = b.NewContext()
				pos := make([]int32, 0)
				for _, p := range ints(op["pos"]) {
					pos = append(pos, int32(p))
				}
				batch := input.Batch{Positions: pos}
				for _, i := range ints(op["mm"]) {
					batch.Multimodal = append(batch.Multimodal, input.MultimodalIndex{Index: i})
				}
				reserve, _ := op["reserve"].(bool)
				if err := e.StartForward(ctx, batch, reserve); err != nil {
					st["err"] = err.Error()
				}
			case "eput":
				l := num(op["layer"])
				e.SetLayer(l)
				k, v := mkImg(l, num(op["img"]))
				e.Put(ctx, k, v)
			case "ecompute":
				// the pass is executed (a reservation pass is not: its graph is only reserved)
				if run, _ := op["run"].(bool); run {
					ctx.Compute()
				} else {
					_ = ctx.Reserve()
				}
			case "rm":
				if err := e.Remove(num(op["seq"]), int32(num(op["b"])), int32(num(op["e"]))); err != nil {
					st["err"] = err.Error()
				}
			case "resume":
				st["r"] = e.CanResume(num(op["seq"]), int32(num(op["pos"])))
			default:
				st["err"] = "harness: unknown op"
			}
		})
		if r != "" {
			st["panic"] = r
			steps = append(steps, st)
			break
		}
		st["enc"] = encState(e)
		st["get"] = encGet(e, nil, layers)
		steps = append(steps, st)
	}
	return map[string]any{"steps": steps, "ncells": []int{0}}
}

func guard(f func()) (msg string) {
	defer func() {
		if r := recover(); r != nil {
			msg = fmt.Sprint(r)
			if msg == "" {
				msg = "panic"
			}
		}
	}()
	f()
	return ""
}
