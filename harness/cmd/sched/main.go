// Command sched: helper of the scheduler checks (C01, C02, C11).
//
//	sched instr <repo>/server/sched.go <out.go>   writes the steerable copy of the *current* sched.go
//	                                              (see package instr) and prints the yield sites as JSON.
//
// The real scheduler itself is executed by the in-package test binary built from
// harness/overlay/server/sched_verif_test.go (go test -c -overlay), not by this command.
package main

import (
	"encoding/json"
	"fmt"
	"os"

	"verifharness/instr"
)

func main() {
	if len(os.Args) == 4 && os.Args[1] == "instr" {
		src, err := os.ReadFile(os.Args[2])
		if err != nil {
			fmt.Fprintln(os.Stderr, err)
			os.Exit(2)
		}
		out, sites, err := instr.Instrument(os.Args[2], src)
		if err != nil {
			fmt.Fprintln(os.Stderr, "instrumenter:", err)
			os.Exit(3)
		}
		if err := os.WriteFile(os.Args[3], out, 0o644); err != nil {
			fmt.Fprintln(os.Stderr, err)
			os.Exit(2)
		}
		json.NewEncoder(os.Stdout).Encode(map[string]any{"sites": sites})
		return
	}
	fmt.Fprintln(os.Stderr, "usage: sched instr <sched.go> <out.go>")
	os.Exit(2)
}
