// C18 harness: runs the real sampler of /repo/sample on the cases given on stdin (one JSON object per line).
// Float32 values travel as IEEE bit patterns (uint32).  Ops:
//
//	sample: NewSampler(temp,topk,topp,minp) with a scripted random source; one Sample(logits) per scripted draw,
//	        plus the stage-by-stage trace (topK -> temperature -> softmax -> topP -> minP) obtained by calling the
//	        unexported stage functions in the order sample() applies them, plus an exp table for the model's oracle.
//	exp:    float32(math.Exp(float64(x))) for the given arguments (the model's oracle; its hypotheses are tested on it).
//	seed:   three samplers NewSampler(..., seed): two run the same logit stream (reproducibility), the third only
//	        yields the draws the generator produces, so that the model can be run with the same draws.
package main

import (
	"bytes"
	"math"
	"os"
	"sync"

	"github.com/ollama/ollama/fs/ggml"

	"github.com/ollama/ollama/sample"
	"verifharness/hx"
)

func u32(v any) uint32 {
	f, _ := v.(float64)
	return uint32(f)
}

func u32s(v any) []uint32 {
	l, _ := v.([]any)
	out := make([]uint32, len(l))
	for i, x := range l {
		out[i] = u32(x)
	}
	return out
}

func f32s(bits []uint32) []float32 {
	out := make([]float32, len(bits))
	for i, b := range bits {
		out[i] = math.Float32frombits(b)
	}
	return out
}

func toks(bits []uint32) []sample.VTok {
	out := make([]sample.VTok, len(bits))
	for i, b := range bits {
		out[i] = sample.VTok{ID: int32(i), Bits: b}
	}
	return out
}

func expEntry(x float32) [2]uint32 {
	return [2]uint32{math.Float32bits(x), math.Float32bits(float32(math.Exp(float64(x))))}
}

// expTable lists float32(math.Exp(float64(x))) for every difference x = v - max over the temperature-scaled values
// (the arguments softmax can pass to exp) and a few fixed points; the model uses it as its exp oracle.
func expTable(scaled []sample.VTok) [][2]uint32 {
	mx := float32(math.Inf(-1))
	for _, t := range scaled {
		if v := math.Float32frombits(t.Bits); v > mx {
			mx = v
		}
	}
	seen := map[uint32]bool{}
	var out [][2]uint32
	add := func(x float32) {
		b := math.Float32bits(x)
		if !seen[b] {
			seen[b] = true
			out = append(out, expEntry(x))
		}
	}
	add(0)
	add(float32(math.Copysign(0, -1)))
	add(float32(math.Inf(-1)))
	add(float32(math.Inf(1)))
	for _, t := range scaled {
		add(math.Float32frombits(t.Bits) - mx)
	}
	return out
}

// the vocabulary of the grammar cases: ids 0..2 are <unk>, <s>, </s> (end of generation), id 3+i is the single
// character vocabChars[i].  Written once as a tokenizer-only GGUF file that llama.cpp's vocabulary loader reads.
const vocabChars = "abcdefghijklmnopqrstuvwxyzABCDEFGHIJKLMNOPQRSTUVWXYZ0123456789"

var (
	vocabOnce sync.Once
	vocab     *sample.Vocab
	vocabErr  error
)

func theVocab() (*sample.Vocab, error) {
	vocabOnce.Do(func() {
		toks := []string{"<unk>", "<s>", "</s>"}
		types := []int32{2, 3, 3}
		scores := []float32{0, 0, 0}
		for _, c := range vocabChars {
			toks = append(toks, string(c))
			types = append(types, 1)
			scores = append(scores, -1)
		}
		kv := ggml.KV{
			"general.architecture":            "llama",
			"tokenizer.ggml.model":            "llama",
			"tokenizer.ggml.tokens":           toks,
			"tokenizer.ggml.scores":           scores,
			"tokenizer.ggml.token_type":       types,
			"tokenizer.ggml.bos_token_id":     uint32(1),
			"tokenizer.ggml.eos_token_id":     uint32(2),
			"tokenizer.ggml.unknown_token_id": uint32(0),
		}
		f, err := os.CreateTemp("", "c18-vocab-*.gguf")
		if err != nil {
			vocabErr = err
			return
		}
		defer f.Close()
		ts := []ggml.Tensor{{Name: "token_embd.weight", Kind: 0, Shape: []uint64{4}, WriterTo: bytes.NewReader(make([]byte, 16))}}
		if err := ggml.WriteGGUF(f, kv, ts); err != nil {
			vocabErr = err
			return
		}
		vocab = sample.NewVocab(f.Name())
		_, vocabErr = vocab.Load()
		os.Remove(f.Name())
	})
	return vocab, vocabErr
}

func words(draws []uint32) []uint64 {
	w := make([]uint64, len(draws))
	for i, d := range draws {
		w[i] = uint64(d&0xFFFFFF) << 32
	}
	return w
}

func main() {
	hx.Loop(func(c map[string]any) any {
		temp, topp, minp, topk := u32(c["temp"]), u32(c["topp"]), u32(c["minp"]), hx.Int(c["topk"])
		switch c["op"] {
		case "exp":
			// the oracle of the model, float32(math.Exp(float64(x))), on arbitrary arguments (hypothesis test)
			var out [][2]uint32
			for _, b := range u32s(c["xs"]) {
				out = append(out, expEntry(math.Float32frombits(b)))
			}
			return map[string]any{"exp": out}
		case "sample":
			logits := u32s(c["logits"])
			draws := u32s(c["draws"])
			res := map[string]any{}
			s, used := sample.VerifScriptSampler(temp, topp, minp, topk, words(draws))
			s2, _ := sample.VerifScriptSampler(temp, topp, minp, topk, words(draws))
			ct, cp, cm, ck, _ := sample.VerifParams(s)
			res["params"] = map[string]any{"temp": ct, "topp": cp, "minp": cm, "topk": ck}
			ids := []int32{}
			errs := []string{}
			rs := []uint32{}
			for range draws {
				r, _ := sample.VerifDraw(s2)
				rs = append(rs, r)
				o := hx.Guard(func() any {
					id, err := s.Sample(f32s(logits))
					if err != nil {
						return []any{id, err.Error()}
					}
					return []any{id, ""}
				})
				if m, ok := o.(map[string]any); ok {
					return map[string]any{"panic": m["panic"], "at_draw": len(ids), "params": res["params"]}
				}
				l := o.([]any)
				ids = append(ids, l[0].(int32))
				errs = append(errs, l[1].(string))
			}
			res["ids"], res["errs"], res["rs"], res["used"] = ids, errs, rs, used()
			// stage trace with the sampler's own (clamped) parameters
			if len(logits) > 0 {
				st := hx.Guard(func() any {
					tr := map[string]any{}
					g := sample.VerifGreedy(toks(logits))
					tr["greedy"] = g
					if math.Float32frombits(ct) != 0 {
						s1 := sample.VerifTopK(toks(logits), ck)
						t2 := sample.VerifTemperature(s1, ct)
						s3 := sample.VerifSoftmax(t2)
						s4 := sample.VerifTopP(s3, cp)
						s5 := sample.VerifMinP(s4, cm)
						tr["topk"], tr["scaled"], tr["soft"], tr["topp"], tr["minp"] = s1, t2, s3, s4, s5
						tr["exp"] = expTable(t2)
					}
					return tr
				})
				res["stages"] = st
			}
			return res
		case "grammar":
			// grammar-constrained Sample: a fresh grammar  root ::= [accept]+  per call (so that the accepted set is the same
			// for every call), scripted source delivering the draw pair (first pick, re-sample under the mask)
			v, err := theVocab()
			if err != nil {
				return map[string]any{"harness_error": "vocab: " + err.Error()}
			}
			logits := u32s(c["logits"])
			accept, _ := c["accept"].(string)
			gs := "root ::= [" + accept + "]+"
			pairs, _ := c["draws"].([]any)
			res := map[string]any{}
			var ids []int32
			var errs []string
			var useds []int
			var rs [][]uint32
			g0, err := sample.NewGrammar(v, gs)
			if err != nil {
				return map[string]any{"harness_error": "grammar: " + err.Error()}
			}
			rej := sample.VerifGrammarMask(g0, len(logits))
			res["rejected"] = rej
			var ct, cp, cm uint32
			var ck int
			for _, pr := range pairs {
				ds := u32s(pr)
				g, err := sample.NewGrammar(v, gs)
				if err != nil {
					return map[string]any{"harness_error": "grammar: " + err.Error()}
				}
				s, used := sample.VerifScriptSamplerG(temp, topp, minp, topk, words(ds), g)
				s2, _ := sample.VerifScriptSampler(temp, topp, minp, topk, words(ds))
				ct, cp, cm, ck, _ = sample.VerifParams(s)
				var r []uint32
				for range ds {
					x, _ := sample.VerifDraw(s2)
					r = append(r, x)
				}
				id, e := s.Sample(f32s(logits))
				ids, errs, useds, rs = append(ids, id), append(errs, errS(e)), append(useds, used()), append(rs, r)
			}
			res["params"] = map[string]any{"temp": ct, "topp": cp, "minp": cm, "topk": ck}
			res["ids"], res["errs"], res["used"], res["rs"] = ids, errs, useds, rs
			if math.Float32frombits(ct) != 0 && len(logits) > 0 {
				masked := make([]uint32, len(logits))
				for i, b := range logits {
					masked[i] = b
					if rej[i] {
						masked[i] = math.Float32bits(float32(math.Inf(-1)))
					}
				}
				t1 := expTable(sample.VerifTemperature(sample.VerifTopK(toks(logits), ck), ct))
				t2 := expTable(sample.VerifTemperature(sample.VerifTopK(toks(masked), ck), ct))
				res["exp"] = append(t1, t2[4:]...)
			}
			return res
		case "seed":
			seed := hx.Int(c["seed"])
			stream, _ := c["stream"].([]any)
			a := sample.VerifNewSampler(temp, topp, minp, topk, seed)
			b := sample.VerifNewSampler(temp, topp, minp, topk, seed)
			d := sample.VerifNewSampler(temp, topp, minp, topk, seed)
			ct, cp, cm, ck, seeded := sample.VerifParams(a)
			res := map[string]any{"params": map[string]any{"temp": ct, "topp": cp, "minp": cm, "topk": ck}, "seeded": seeded}
			var ia, ib []int32
			var ea, eb []string
			var rs []uint32
			var exps [][][2]uint32
			for _, l := range stream {
				logits := u32s(l)
				x, err := a.Sample(f32s(logits))
				ia = append(ia, x)
				ea = append(ea, errS(err))
				y, err := b.Sample(f32s(logits))
				ib = append(ib, y)
				eb = append(eb, errS(err))
				if math.Float32frombits(ct) != 0 && len(logits) > 0 {
					r, _ := sample.VerifDraw(d)
					rs = append(rs, r)
					exps = append(exps, expTable(sample.VerifTemperature(sample.VerifTopK(toks(logits), ck), ct)))
				} else {
					rs = append(rs, 0)
					exps = append(exps, nil)
				}
			}
			res["a"], res["b"], res["ea"], res["eb"], res["rs"], res["exp"] = ia, ib, ea, eb, rs, exps
			return res
		}
		return map[string]any{"harness_error": "unknown op"}
	})
}

func errS(err error) string {
	if err != nil {
		return err.Error()
	}
	return ""
}
