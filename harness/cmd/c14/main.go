// C14 harness: runs the real stop/UTF-8 helpers of the runners on the cases given on stdin.
package main

import (
	"unicode/utf8"

	"github.com/ollama/ollama/runner/common"
	"github.com/ollama/ollama/runner/ollamarunner"
	"verifharness/hx"
)

func main() {
	hx.Loop(func(c map[string]any) any {
		switch c["op"] {
		case "find_stop":
			ok, stop := common.FindStop(hx.Unhex(c["seq"]), hx.UnhexList(c["stops"]))
			return map[string]any{"found": ok, "stop": hx.Hex(stop)}
		case "suffix":
			return map[string]any{"r": common.ContainsStopSuffix(hx.Unhex(c["seq"]), hx.UnhexList(c["stops"]))}
		case "truncate":
			res, tr := common.TruncateStop(hx.UnhexList(c["pieces"]), hx.Unhex(c["stop"]))
			return map[string]any{"res": hx.HexList(res), "trunc": tr}
		case "incomplete":
			return map[string]any{"r": common.IncompleteUnicode(hx.Unhex(c["s"]))}
		case "valid":
			return map[string]any{"r": utf8.ValidString(hx.Unhex(c["s"]))}
		case "flush":
			return map[string]any{"res": hx.HexList(ollamarunner.VerifFlush(hx.UnhexList(c["pieces"])))}
		}
		return map[string]any{"harness_error": "unknown op"}
	})
}
