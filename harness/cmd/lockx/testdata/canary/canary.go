// Package canary is the translator's self-test input: every construct the must-hold analysis claims to understand,
// with the expected table spelled out in props/c15.py (CANARY_EXPECT).  It is never executed.
package canary

import (
	"sort"
	"sync"
	"sync/atomic"
	"time"
)

type Scheduler struct {
	mu    sync.Mutex
	items map[string]*box
	fn    func(*box)
}

type box struct {
	mu   sync.Mutex
	a    int // always under mu
	b    int // written in a branch that unlocked early
	c    int // loop with continue/break
	d    int // helper called with the lock held
	e    int // goroutine hand-off
	f    int // deferred unlock
	g    int // wrong object's lock
	h    int // init only
	i    int // timer callback, unlocked
	j    int // select/switch
	k    int // reassigned variable
	l    int // sort callback under lock
	name string
}

var counter int
var table = map[string]int{}

func (s *Scheduler) locked(x *box) {
	x.mu.Lock()
	x.a++
	x.mu.Unlock()
}

func (s *Scheduler) earlyUnlock(x *box, c bool) {
	x.mu.Lock()
	if c {
		x.mu.Unlock()
		x.b = 1 // not held
		return
	}
	x.b = 2 // held
	x.mu.Unlock()
}

func (s *Scheduler) loops(xs []*box) {
	for _, x := range xs {
		x.mu.Lock()
		if x.c == 0 { // held
			x.mu.Unlock()
			continue
		}
		if x.c == 1 { // held
			break // leaves with the lock held
		}
		x.c = 5 // held
		x.mu.Unlock()
	}
	for i := 0; i < 3; i++ {
		s.mu.Lock()
		s.items["k"] = nil // held
		s.mu.Unlock()
		_ = s.items // not held
	}
}

func (x *box) helper() { x.d = 1 } // every caller holds x.mu

func (s *Scheduler) callsHelper(x *box) {
	x.mu.Lock()
	x.helper()
	x.mu.Unlock()
	s.mu.Lock()
	x.mu.Lock()
	x.helper()
	x.mu.Unlock()
	s.mu.Unlock()
}

func (s *Scheduler) handoff() {
	x := &box{name: "n", h: 1}
	x.h = 2 // init
	x.mu.Lock()
	s.mu.Lock()
	s.items["k"] = x // published
	s.mu.Unlock()
	go func() {
		defer x.mu.Unlock()
		x.e = 1 // held through the hand-off
	}()
	x.e = 2 // NOT held any more: the goroutine owns the lock
}

func (s *Scheduler) deferred(x *box) int {
	x.mu.Lock()
	defer x.mu.Unlock()
	if x.f > 0 { // held
		return x.f // held
	}
	x.f = 1 // held
	return 0
}

func (s *Scheduler) wrongObject(x, y *box) {
	x.mu.Lock()
	y.g = 1 // x's lock does not protect y
	x.mu.Unlock()
}

func (s *Scheduler) timer(x *box) {
	time.AfterFunc(time.Second, func() {
		x.i = 1 // other goroutine, not held
	})
}

func (s *Scheduler) sel(x *box, ch chan int, n int) {
	x.mu.Lock()
	select {
	case <-ch:
		x.j = 1 // held
	case v := <-ch:
		x.mu.Unlock()
		x.j = v // not held
		x.mu.Lock()
	}
	switch n {
	case 1:
		x.j = 2 // held
	default:
		x.mu.Unlock()
		return
	}
	x.j = 3 // held
	x.mu.Unlock()
}

func (s *Scheduler) reassigned(x, y *box) {
	x.mu.Lock()
	x = y
	x.k = 1 // the lock taken belongs to the old x
}

type byL []*box

func (a byL) Len() int           { return len(a) }
func (a byL) Swap(i, j int)      { a[i], a[j] = a[j], a[i] }
func (a byL) Less(i, j int) bool { return a[i].l < a[j].l } // unlocked reads

func (s *Scheduler) sorts(xs []*box) {
	s.mu.Lock()
	sort.Sort(byL(xs))
	sort.Slice(xs, func(i, j int) bool { return xs[i].name < xs[j].name })
	s.mu.Unlock()
}

func (s *Scheduler) globals() {
	counter++ // unlocked package variable written in a function
	s.mu.Lock()
	table["x"]++ // under the global mutex
	s.mu.Unlock()
}

func (s *Scheduler) Run() {
	go func() { s.loopA() }()
	go func() { s.loopB() }()
}

func (s *Scheduler) loopA() { s.mu.Lock(); delete(s.items, "k"); s.mu.Unlock() }
func (s *Scheduler) loopB() { s.fn = nil }

func Start() {
	s := &Scheduler{items: map[string]*box{}}
	s.Run()
}

type node struct {
	mu   sync.Mutex
	next *node
	v    int
}

func relink(x, y *node) {
	x.next.mu.Lock()
	x.next = y
	x.next.v = 1 // the locked node is no longer x.next
}

// a transfer shared through a sync.Map: the goroutine that stored it owns it until it hands it to run();
// waiters read err only after the owner closed done
type xfer struct {
	done   chan struct{}
	err    error
	total  int
	refs   atomic.Int32
	cancel func()
}

var xfers sync.Map

func startXfer(k string) error {
	v, loaded := xfers.LoadOrStore(k, &xfer{done: make(chan struct{})})
	x := v.(*xfer)
	if !loaded {
		x.total = 1 // owner, before done
		go x.run()
		x.total = 2 // ownership went with the goroutine
	}
	return x.wait()
}

func (x *xfer) run() {
	defer close(x.done)
	x.err = nil    // owner, before done
	x.cancel = nil // owner, before done
}

func (x *xfer) wait() error {
	x.refs.Add(1) // atomic: synchronised by construction
	_ = x.total   // nothing orders this
	if x.cancel != nil {
		x.cancel() // nothing orders this
	}
	<-x.done
	return x.err // after done
}

// a value handed out by a shared container is one backing store for every goroutine that gets it
var capCache sync.Map

func cachedCaps(k string) []int {
	if v, ok := capCache.Load(k); ok {
		return v.([]int)
	}
	c := make([]int, 0, 4)
	c = append(c, 1) // still private
	capCache.Store(k, c)
	return c
}

func useCaps(k string) []int {
	c := cachedCaps(k)
	c = append(c, 2) // writes into the cached backing array
	d := append([]int{}, cachedCaps(k)...)
	d = append(d, 3) // a copy: fine
	d[0] = 4         // fine
	c[0] = 5         // element assignment through the alias
	return d
}
