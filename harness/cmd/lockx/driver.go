package main

import (
	"fmt"
	"go/ast"
	"go/token"
	"go/types"
	"sort"
	"strings"
)

type outLock struct {
	Self bool   `json:"self"`
	Name string `json:"name"`
}

type outEntry struct {
	Loc     string    `json:"loc"`
	Kind    string    `json:"kind"`
	Fn      string    `json:"fn"`
	Classes []string  `json:"classes"`
	Locks   []outLock `json:"locks"`
	Init    bool      `json:"init"`
	Pos     string    `json:"pos"`
	Acq     map[string]string `json:"acq"` // lock -> position of the Lock() call of its critical section | "entry"
	Before  []string  `json:"before"` // signals (closes of channel fields of the object) only this goroutine gives, later
	After   []string  `json:"after"`  // signals already observed (received from the closed channel)
}

type outCall struct {
	Caller string            `json:"caller"`
	Callee string            `json:"callee"`
	Pos    string            `json:"pos"`
	Acq    map[string]string `json:"acq"`
	Async  bool              `json:"async"`
}

type outClass struct {
	Name   string `json:"name"`
	Single bool   `json:"single"`
}

type outTable struct {
	Entries    []outEntry          `json:"entries"`
	Classes    []outClass          `json:"classes"`
	Calls      []outCall           `json:"calls"`
	Locs       []string            `json:"locs"`
	Mutexes    []string            `json:"mutexes"`
	Funcs      []string            `json:"funcs"`
	Tracked    []string            `json:"tracked_types"`
	PkgVars    []string            `json:"tracked_vars"`
	EntryLocks map[string][]string `json:"entry_locks"` // function -> locks every caller holds
	Coarse     []string            `json:"coarse_functions"`
	SingleCall map[string]int      `json:"single_callsites"`
	SyncUses   map[string]int      `json:"synchronised_by_construction"`
	Signals    []string            `json:"signals"`
	BadSignals map[string]string   `json:"signals_not_usable"`
	AliasWrites []aliasWrite       `json:"alias_writes"` // writes through an alias of a value kept in a shared container
	Notes      []string            `json:"notes"`
	TypeErrors []string            `json:"type_errors"`
}

var (
	litOrdinal = map[*ast.FuncLit]int{}
	goOrdinal  = map[*ast.GoStmt]int{}
)

func hasGinCtx(sig *types.Signature) bool {
	for i := 0; i < sig.Params().Len(); i++ {
		if isPkgType(sig.Params().At(i).Type(), "github.com/gin-gonic/gin", "Context") {
			return true
		}
	}
	return false
}

// package-level variables worth tracking: maps, and anything assigned inside a function body
func findPkgVars(files []*ast.File) map[types.Object]bool {
	out := map[types.Object]bool{}
	sc := pkg.Scope()
	for _, n := range sc.Names() {
		if v, ok := sc.Lookup(n).(*types.Var); ok && isMap(v.Type()) && !isSyncObj(v.Type()) {
			out[v] = true
		}
	}
	mark := func(e ast.Expr) {
		for {
			switch x := e.(type) {
			case *ast.ParenExpr:
				e = x.X
				continue
			case *ast.IndexExpr:
				e = x.X
				continue
			case *ast.SelectorExpr:
				if info.Selections[x] != nil && !isPointer(info.TypeOf(x.X)) {
					e = x.X
					continue
				}
			case *ast.Ident:
				if v, ok := info.ObjectOf(x).(*types.Var); ok && v.Parent() == sc && !isSyncObj(v.Type()) {
					out[v] = true
				}
			}
			return
		}
	}
	for _, f := range files {
		for _, d := range f.Decls {
			fd, ok := d.(*ast.FuncDecl)
			if !ok || fd.Body == nil || (fd.Recv == nil && fd.Name.Name == "init") {
				continue
			}
			ast.Inspect(fd.Body, func(n ast.Node) bool {
				switch s := n.(type) {
				case *ast.AssignStmt:
					for _, l := range s.Lhs {
						mark(l)
					}
				case *ast.IncDecStmt:
					mark(s.X)
				case *ast.CallExpr:
					if id, ok := s.Fun.(*ast.Ident); ok && (id.Name == "delete" || id.Name == "clear") && len(s.Args) > 0 {
						mark(s.Args[0])
					}
				}
				return true
			})
		}
	}
	return out
}

func analyse(files []*ast.File) *outTable {
	an := &analysis{units: map[*types.Func]*unit{}, lits: map[*ast.FuncLit]*unit{}, fieldTgts: map[string][]*types.Func{},
		classes: map[string]bool{}, runCalls: map[string]int{}, syncUses: map[string]int{},
		foreignClose: map[string]string{}, closed: map[string]int{}, sentTo: map[string]bool{}, aliasWrites: map[string]aliasWrite{}}
	an.pkgVars = findPkgVars(files)
	var decls []*unit
	for _, f := range files {
		for _, d := range f.Decls {
			fd, ok := d.(*ast.FuncDecl)
			if !ok || fd.Body == nil {
				continue
			}
			fn, _ := info.Defs[fd.Name].(*types.Func)
			if fn == nil {
				continue
			}
			sig := fn.Type().(*types.Signature)
			u := &unit{name: unitName(fn), body: fd.Body, fn: fn, exported: isExternallyCallable(fn), roots: map[string]bool{}, classes: map[string]bool{}, entryTop: true}
			if sig.Recv() != nil {
				u.recv = sig.Recv()
				if fd.Recv != nil && len(fd.Recv.List) == 1 && len(fd.Recv.List[0].Names) == 1 {
					u.recv = info.ObjectOf(fd.Recv.List[0].Names[0])
				}
			}
			for _, fl := range fd.Type.Params.List {
				if len(fl.Names) == 0 {
					u.params = append(u.params, nil)
				}
				for _, n := range fl.Names {
					u.params = append(u.params, info.ObjectOf(n))
				}
			}
			u.hasCtx = hasGinCtx(sig)
			if fd.Recv == nil && fd.Name.Name == "init" {
				u.isInit = true
			}
			an.units[fn] = u
			decls = append(decls, u)
			nl, ng := 0, 0
			ast.Inspect(fd.Body, func(n ast.Node) bool {
				switch x := n.(type) {
				case *ast.FuncLit:
					nl++
					litOrdinal[x] = nl
				case *ast.GoStmt:
					ng++
					goOrdinal[x] = ng
				}
				return true
			})
		}
	}
	sort.Slice(decls, func(i, j int) bool { return decls[i].name < decls[j].name })
	// func-typed fields of tracked types: which in-package functions may be stored there
	addTgt := func(field string, e ast.Expr) {
		var fn *types.Func
		switch x := e.(type) {
		case *ast.Ident:
			fn, _ = info.ObjectOf(x).(*types.Func)
		case *ast.SelectorExpr:
			if sel := info.Selections[x]; sel != nil && sel.Kind() == types.MethodVal {
				fn, _ = sel.Obj().(*types.Func)
			}
		}
		if fn != nil && fn.Pkg() == pkg {
			an.fieldTgts[field] = append(an.fieldTgts[field], fn)
		}
	}
	for _, f := range files {
		ast.Inspect(f, func(n ast.Node) bool {
			switch s := n.(type) {
			case *ast.AssignStmt:
				if len(s.Lhs) == len(s.Rhs) {
					for i, l := range s.Lhs {
						if se, ok := l.(*ast.SelectorExpr); ok {
							if sel := info.Selections[se]; sel != nil && sel.Kind() == types.FieldVal {
								if tn, ok := trackedName(sel.Recv()); ok {
									addTgt(tn+"."+se.Sel.Name, s.Rhs[i])
								}
							}
						}
					}
				}
			case *ast.CompositeLit:
				if tn, ok := trackedName(info.TypeOf(s)); ok {
					for _, el := range s.Elts {
						if kv, ok := el.(*ast.KeyValueExpr); ok {
							if id, ok := kv.Key.(*ast.Ident); ok {
								addTgt(tn+"."+id.Name, kv.Value)
							}
						}
					}
				}
			}
			return true
		})
	}
	an.order = append(an.order, decls...)

	// greatest fixpoint over the call graph for the entry locksets
	for iter := 0; iter < 12; iter++ {
		an.runCalls = map[string]int{}
		an.syncUses = map[string]int{}
		an.foreignClose, an.closed, an.sentTo = map[string]string{}, map[string]int{}, map[string]bool{}
		an.aliasWrites = map[string]aliasWrite{}
		an.sharedChanged = false
		for i := 0; i < len(an.order); i++ { // an.order grows while closures are discovered
			u := an.order[i]
			u.accesses, u.calls = nil, nil
			st := newState()
			if !u.coarse {
				for k := range u.entry {
					st.held[k] = true
				}
			}
			w := &walker{u: u, an: an, record: true, escaped: map[types.Object]bool{}}
			w.block(st, u.body.List)
			if u.coarse && len(u.entry) > 0 {
				// unsupported control flow seen during this pass: redo with nothing held
				u.accesses, u.calls = nil, nil
				w = &walker{u: u, an: an, record: true, escaped: map[types.Object]bool{}}
				w.coarseWalk(u.body)
			}
		}
		changed := an.sharedChanged
		in := map[*unit][][]lockItem{}
		for _, u := range an.order {
			for _, c := range u.calls {
				in[c.callee] = append(in[c.callee], c.held) // for `go f()`: only what is handed over (ownership tokens)
			}
		}
		for _, u := range an.order {
			if u.fixed {
				continue
			}
			var ne map[lockItem]bool
			if u.exported || len(in[u]) == 0 || isFuncValueUsed(u, an) {
				ne = map[lockItem]bool{}
			} else {
				for i, h := range in[u] {
					m := map[lockItem]bool{}
					for _, it := range h {
						if i == 0 || ne[it] {
							m[it] = true
						}
					}
					ne = m
				}
			}
			if u.entryTop || len(ne) != len(u.entry) {
				changed = true
			} else {
				for k := range ne {
					if !u.entry[k] {
						changed = true
					}
				}
			}
			u.entry, u.entryTop = ne, false
		}
		if !changed {
			break
		}
	}
	return finish(an)
}

// methods whose names belong to interfaces the standard library calls through (io, sort, json, fmt, http ...)
var ifaceMethod = map[string]bool{"Write": true, "Read": true, "Close": true, "String": true, "Error": true, "MarshalJSON": true,
	"UnmarshalJSON": true, "Len": true, "Less": true, "Swap": true, "ServeHTTP": true, "Seek": true, "ReadFrom": true, "WriteTo": true,
	"Format": true, "GoString": true, "MarshalText": true, "UnmarshalText": true, "Unwrap": true, "Is": true, "As": true}

// can code outside the package call fn directly (with none of our locks held)?
func isExternallyCallable(fn *types.Func) bool {
	if !fn.Exported() {
		return false
	}
	sig, _ := fn.Type().(*types.Signature)
	if sig != nil && sig.Recv() != nil {
		if tn := namedOf(sig.Recv().Type()); tn != nil && !tn.Exported() && !ifaceMethod[fn.Name()] {
			return false // exported method name on an unexported type: reachable only through our own call sites
		}
	}
	return true
}

// coarseWalk: a function with goto/fallthrough/unresolvable branches is walked with nothing held anywhere
func (w *walker) coarseWalk(body *ast.BlockStmt) {
	st := newState()
	ast.Inspect(body, func(n ast.Node) bool {
		switch x := n.(type) {
		case *ast.FuncLit:
			w.closure(st, x, "cb", nil)
			return false
		case *ast.AssignStmt:
			for _, l := range x.Lhs {
				w.expr(st, l, true)
			}
			w.exprs(st, x.Rhs, false)
			return false
		case *ast.IncDecStmt:
			w.expr(st, x.X, true)
			return false
		case ast.Expr:
			w.expr(st, x, false)
			return false
		}
		return true
	})
}

// a function used as a value (method value, function argument) can be called from anywhere with nothing held
func isFuncValueUsed(u *unit, an *analysis) bool {
	if u.fn == nil {
		return false
	}
	for _, tg := range an.fieldTgts {
		for _, f := range tg {
			if f == u.fn {
				return true
			}
		}
	}
	return false
}

func finish(an *analysis) *outTable {
	// goroutine classes: own roots, then propagation along plain calls
	called := map[*unit]bool{}
	for _, u := range an.order {
		for _, c := range u.calls {
			called[c.callee] = true
		}
	}
	for _, u := range an.order {
		if u.fn == nil {
			continue
		}
		if u.hasCtx {
			u.roots["handler"] = true
			an.classes["handler"] = false
		}
		if u.isInit {
			u.roots["init"] = true
			an.classes["init"] = true
		}
		if (!called[u] || u.exported) && !u.hasCtx && !u.isInit { // exported: other packages call it too, from their goroutines
			c := "ext:" + u.name
			u.roots[c] = true
			an.classes[c] = false
		}
	}
	for _, u := range an.order {
		for c := range u.roots {
			u.classes[c] = true
		}
	}
	// singleton classes are only trusted when the starting function has exactly one, loop-free call site
	for cls, single := range an.classes {
		if !single || !strings.HasPrefix(cls, "go:") {
			continue
		}
		fnName := strings.TrimPrefix(cls, "go:")
		if i := strings.Index(fnName, "$"); i >= 0 {
			fnName = fnName[:i]
		}
		if an.runCalls[fnName] != 1 {
			an.classes[cls] = false
			note("class %s not treated as a singleton: %s has %d call sites", cls, fnName, an.runCalls[fnName])
		}
	}
	for changed := true; changed; {
		changed = false
		for _, u := range an.order {
			for _, c := range u.calls {
				if c.async != "" {
					if !c.callee.classes[c.async] {
						c.callee.classes[c.async] = true
						changed = true
					}
					continue
				}
				for k := range u.classes {
					if !c.callee.classes[k] {
						c.callee.classes[k] = true
						changed = true
					}
				}
			}
		}
	}
	t := &outTable{EntryLocks: map[string][]string{}, SingleCall: an.runCalls, SyncUses: an.syncUses, Entries: []outEntry{}, Coarse: []string{}, Calls: []outCall{}}
	locs, mus, fns, sigs := map[string]bool{}, map[string]bool{}, map[string]bool{}, map[string]bool{}
	t.BadSignals = map[string]string{}
	t.AliasWrites = []aliasWrite{}
	for _, a := range an.aliasWrites {
		a.Fn = qualIf(a.Fn)
		t.AliasWrites = append(t.AliasWrites, a)
	}
	sort.Slice(t.AliasWrites, func(i, j int) bool { return t.AliasWrites[i].Pos < t.AliasWrites[j].Pos })
	for k, p := range an.foreignClose {
		t.BadSignals[k] = "closed at " + p + " by a goroutine that is not known to be the object's only owner"
	}
	for k := range an.sentTo {
		t.BadSignals[k] = "values are sent on it: a receive does not imply that it was closed"
	}
	usedCls := map[string]bool{}
	for _, u := range an.order {
		if len(u.entry) > 0 {
			for _, it := range sortedLocks(u.entry) {
				if (strings.HasPrefix(it.Mu, "<-") && !usable(an, it.Mu[2:])) || (strings.HasPrefix(it.Mu, "!") && !usable(an, it.Mu[1:])) {
					continue
				}
				t.EntryLocks[u.name] = append(t.EntryLocks[u.name], it.Mu)
			}
		}
		if u.coarse {
			t.Coarse = append(t.Coarse, u.name)
		}
		for _, c := range u.calls {
			t.Calls = append(t.Calls, outCall{Caller: u.name, Callee: c.callee.name, Pos: posStr(c.pos), Acq: c.acq, Async: c.async != ""})
		}
		var cls []string
		for c := range u.classes {
			cls = append(cls, c)
		}
		sort.Strings(cls)
		for _, a := range u.accesses {
			e := outEntry{Loc: a.Loc, Kind: "R", Fn: u.name, Classes: cls, Init: a.Init, Pos: posStr(a.Pos), Locks: []outLock{}, Acq: a.Acq}
			if e.Acq == nil {
				e.Acq = map[string]string{}
			}
			e.Before, e.After = []string{}, []string{}
			for _, k := range a.Before {
				if usable(an, k) {
					e.Before = append(e.Before, k)
					sigs[k] = true
				}
			}
			for _, k := range a.After {
				if usable(an, k) {
					e.After = append(e.After, k)
					sigs[k] = true
				}
			}
			if a.Write {
				e.Kind = "W"
			}
			seen := map[outLock]bool{}
			for _, l := range a.Locks {
				ol := outLock{Self: !l.Glob, Name: l.Mu}
				if !seen[ol] {
					seen[ol] = true
					e.Locks = append(e.Locks, ol)
					mus[l.Mu] = true
				}
			}
			locs[a.Loc], fns[u.name] = true, true
			for _, c := range cls {
				usedCls[c] = true
			}
			t.Entries = append(t.Entries, e)
		}
	}
	sort.SliceStable(t.Entries, func(i, j int) bool {
		a, b := t.Entries[i], t.Entries[j]
		return a.Fn < b.Fn
	})
	for c := range usedCls {
		t.Classes = append(t.Classes, outClass{Name: c, Single: an.classes[c]})
	}
	sort.Slice(t.Classes, func(i, j int) bool { return t.Classes[i].Name < t.Classes[j].Name })
	if namePrefix != "" {
		// second package: names are qualified so that they cannot collide with package server's
		ren := func(m map[string]bool) map[string]bool {
			o := map[string]bool{}
			for k := range m {
				o[qual(k)] = true
			}
			return o
		}
		for i := range t.Entries {
			e := &t.Entries[i]
			e.Loc, e.Fn = qual(e.Loc), qual(e.Fn)
			for j := range e.Locks {
				e.Locks[j].Name = qual(e.Locks[j].Name)
			}
			for j := range e.Before {
				e.Before[j] = qual(e.Before[j])
			}
			for j := range e.After {
				e.After[j] = qual(e.After[j])
			}
		}
		locs, mus, fns, sigs = ren(locs), ren(mus), ren(fns), ren(sigs)
	}
	t.Locs, t.Mutexes, t.Funcs, t.Signals = keys(locs), keys(mus), keys(fns), keys(sigs)
	if t.Signals == nil {
		t.Signals = []string{}
	}
	for tn := range tracked {
		t.Tracked = append(t.Tracked, tn.Name())
	}
	sort.Strings(t.Tracked)
	for v := range an.pkgVars {
		t.PkgVars = append(t.PkgVars, v.Name())
	}
	sort.Strings(t.PkgVars)
	sort.Strings(t.Coarse)
	_ = token.NoPos
	return t
}

func qualIf(n string) string {
	if namePrefix != "" {
		return qual(n)
	}
	return n
}

func qual(n string) string {
	if strings.HasPrefix(n, "var ") {
		return "var " + namePrefix + n[4:]
	}
	return namePrefix + n
}

func usable(an *analysis, sig string) bool {
	_, bad := an.foreignClose[sig]
	return !bad && !an.sentTo[sig] && an.closed[sig] > 0
}

func keys(m map[string]bool) []string {
	var l []string
	for k := range m {
		l = append(l, k)
	}
	sort.Strings(l)
	return l
}

func indexOf(l []string, s string) int {
	for i, x := range l {
		if x == s {
			return i
		}
	}
	return -1
}

// renderCoq writes the table in the vocabulary of coq/Race/Lockset.v (numbers index the name lists)
func renderCoq(t *outTable, waive string) string {
	var b strings.Builder
	b.WriteString("(** GENERATED by harness/cmd/lockx from the current server/*.go - do not edit. *)\n")
	b.WriteString("From Coq Require Import List NArith.\nFrom V Require Import Race.Lockset.\nImport ListNotations.\nLocal Open Scope N_scope.\n\n")
	list := func(title string, l []string) {
		fmt.Fprintf(&b, "(* %s:\n", title)
		for i, x := range l {
			fmt.Fprintf(&b, "   %d = %s\n", i, x)
		}
		b.WriteString("*)\n")
	}
	list("locations", t.Locs)
	list("mutexes", t.Mutexes)
	list("functions", t.Funcs)
	var cn []string
	for _, c := range t.Classes {
		s := c.Name
		if c.Single {
			s += "  (singleton)"
		}
		cn = append(cn, s)
	}
	list("goroutine classes", cn)
	list("signals (closes of channel fields)", t.Signals)
	b.WriteString("\nDefinition gen_entries : list entry := [\n")
	for i, e := range t.Entries {
		k := "Rd"
		if e.Kind == "W" {
			k = "Wr"
		}
		var cls, lk []string
		for _, c := range e.Classes {
			for j, oc := range t.Classes {
				if oc.Name == c {
					cls = append(cls, fmt.Sprint(j))
				}
			}
		}
		for _, l := range e.Locks {
			c := "Glob"
			if l.Self {
				c = "Self"
			}
			lk = append(lk, fmt.Sprintf("%s %d", c, indexOf(t.Mutexes, l.Name)))
		}
		sep := ";"
		if i == len(t.Entries)-1 {
			sep = ""
		}
		in := "false"
		if e.Init {
			in = "true"
		}
		var bf, af []string
		for _, x := range e.Before {
			bf = append(bf, fmt.Sprint(indexOf(t.Signals, x)))
		}
		for _, x := range e.After {
			af = append(af, fmt.Sprint(indexOf(t.Signals, x)))
		}
		fmt.Fprintf(&b, "  mkE %d %s [%s] [%s] %s %d [%s] [%s]%s  (* %d %s %s %s *)\n", indexOf(t.Locs, e.Loc), k, strings.Join(cls, ";"), strings.Join(lk, ";"), in,
			indexOf(t.Funcs, e.Fn), strings.Join(bf, ";"), strings.Join(af, ";"), sep, i, e.Fn, e.Loc, e.Pos)
	}
	b.WriteString("].\n\nDefinition gen_singles : list N := [")
	first := true
	for j, c := range t.Classes {
		if c.Single {
			if !first {
				b.WriteString(";")
			}
			first = false
			fmt.Fprint(&b, j)
		}
	}
	b.WriteString("].\n\nDefinition accesses : table := mkT gen_entries gen_singles.\n\n")
	b.WriteString("(* recorded findings (function, location) present in this table *)\nDefinition waived : list (N * N) := [")
	first = true
	for _, w := range strings.Split(waive, ";") {
		parts := strings.SplitN(strings.TrimSpace(w), "|", 2)
		if len(parts) != 2 {
			continue
		}
		fi, li := indexOf(t.Funcs, parts[0]), indexOf(t.Locs, parts[1])
		if fi < 0 || li < 0 {
			continue
		}
		if !first {
			b.WriteString("; ")
		}
		first = false
		fmt.Fprintf(&b, "(%d, %d) (* %s %s *)", fi, li, parts[0], parts[1])
	}
	b.WriteString("].\n")
	return b.String()
}
