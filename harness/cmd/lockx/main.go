package main

import (
	"fmt"
	"go/ast"

	"golang.org/x/tools/go/cfg"
)

func main() {
	var b *ast.BlockStmt
	_ = cfg.New
	fmt.Println(b == nil)
}
