// lockx - the C15 translator: extracts from the CURRENT source of package ./server (of the repo given as
// first argument) every read/write of a shared location (fields of struct types that carry a sync.Mutex,
// package-level variables that are maps or are written inside function bodies) together with the enclosing
// function, the goroutine classes that can execute it and the set of mutexes that are provably held
// (must-hold analysis: structured walk of the AST with intersection at joins, greatest fixpoint over loops and
// over the call graph for "caller holds the lock" helpers, lock hand-off from a function to the goroutine it
// starts).  Output: a JSON table (-json) and the Coq table coq/Race/Generated_Accesses.v (-coq).
//
// Standard library only (go/ast, go/types; export data of the dependencies through `go list -export`).
package main

import (
	"encoding/json"
	"flag"
	"fmt"
	"go/ast"
	"go/importer"
	"go/parser"
	"go/token"
	"go/types"
	"io"
	"os"
	"os/exec"
	"path/filepath"
	"sort"
	"strings"
)

type listPkg struct {
	ImportPath string
	Export     string
	Dir        string
	GoFiles    []string
	Error      *struct{ Err string }
}

var (
	fset       = token.NewFileSet()
	info       *types.Info
	pkg        *types.Package
	tracked    = map[*types.TypeName]bool{} // struct types with a mutex field
	globalType = map[string]bool{}          // tracked types assumed to have one instance per process
	singleFns  = map[string]bool{}          // functions whose go statements start singleton goroutines
	notes      []string
	typeErrs   []string
)

func note(f string, a ...any) { notes = append(notes, fmt.Sprintf(f, a...)) }

func fatal(f string, a ...any) {
	fmt.Fprintf(os.Stderr, "lockx: "+f+"\n", a...)
	os.Exit(2)
}

func load(repo, pkgPath string) []*ast.File {
	cmd := exec.Command("go", "list", "-export", "-deps", "-json=ImportPath,Export,Dir,GoFiles,Error", pkgPath)
	cmd.Dir = repo
	cmd.Stderr = os.Stderr
	out, err := cmd.Output()
	exports := map[string]string{}
	var target *listPkg
	if err == nil {
		dec := json.NewDecoder(strings.NewReader(string(out)))
		for {
			var p listPkg
			if e := dec.Decode(&p); e == io.EOF {
				break
			} else if e != nil {
				fatal("go list output: %v", e)
			}
			if p.Export != "" {
				exports[p.ImportPath] = p.Export
			}
			q := p
			target = &q // the named package is listed last
		}
	} else {
		note("go list -export failed (%v): falling back to directory listing, imports unresolved", err)
	}
	dir := filepath.Join(repo, strings.TrimPrefix(pkgPath, "./"))
	var names []string
	if target != nil && len(target.GoFiles) > 0 {
		dir, names = target.Dir, target.GoFiles
	} else {
		ents, e := os.ReadDir(dir)
		if e != nil {
			fatal("%v", e)
		}
		for _, en := range ents {
			n := en.Name()
			if strings.HasSuffix(n, ".go") && !strings.HasSuffix(n, "_test.go") && !strings.HasSuffix(n, "_windows.go") {
				names = append(names, n)
			}
		}
	}
	var files []*ast.File
	for _, n := range names {
		f, e := parser.ParseFile(fset, filepath.Join(dir, n), nil, parser.SkipObjectResolution)
		if e != nil {
			fatal("parse %s: %v", n, e)
		}
		files = append(files, f)
	}
	lookup := func(path string) (io.ReadCloser, error) {
		if p, ok := exports[path]; ok {
			return os.Open(p)
		}
		return nil, fmt.Errorf("no export data for %s", path)
	}
	conf := types.Config{
		Importer: importer.ForCompiler(fset, "gc", lookup),
		Error:    func(e error) { typeErrs = append(typeErrs, e.Error()) },
	}
	info = &types.Info{
		Types:      map[ast.Expr]types.TypeAndValue{},
		Defs:       map[*ast.Ident]types.Object{},
		Uses:       map[*ast.Ident]types.Object{},
		Selections: map[*ast.SelectorExpr]*types.Selection{},
		Implicits:  map[ast.Node]types.Object{},
	}
	pkg, _ = conf.Check("github.com/ollama/ollama/server", fset, files, info)
	if pkg == nil {
		fatal("type check produced no package")
	}
	return files
}

// ---- type helpers

func deref(t types.Type) types.Type {
	if t == nil {
		return nil
	}
	if p, ok := t.Underlying().(*types.Pointer); ok {
		return p.Elem()
	}
	return t
}

func namedOf(t types.Type) *types.TypeName {
	t = deref(t)
	if n, ok := t.(*types.Named); ok {
		return n.Obj()
	}
	if a, ok := t.(*types.Alias); ok {
		return namedOf(types.Unalias(a))
	}
	return nil
}

func isPkgType(t types.Type, path string, names ...string) bool {
	tn := namedOf(t)
	if tn == nil || tn.Pkg() == nil || tn.Pkg().Path() != path {
		return false
	}
	if len(names) == 0 {
		return true
	}
	for _, n := range names {
		if tn.Name() == n {
			return true
		}
	}
	return false
}

func isMutex(t types.Type) bool { return isPkgType(t, "sync", "Mutex", "RWMutex") }

// internally synchronised: never reported as plain accesses
func isSyncObj(t types.Type) bool {
	return isPkgType(t, "sync") || isPkgType(t, "sync/atomic") || isPkgType(t, "golang.org/x/sync/semaphore") || isPkgType(t, "golang.org/x/sync/errgroup")
}

func isPointer(t types.Type) bool {
	if t == nil {
		return false
	}
	_, ok := t.Underlying().(*types.Pointer)
	return ok
}

func isMap(t types.Type) bool {
	if t == nil {
		return false
	}
	_, ok := t.Underlying().(*types.Map)
	return ok
}

func isArray(t types.Type) bool {
	if t == nil {
		return false
	}
	_, ok := t.Underlying().(*types.Array)
	return ok
}

func structOf(tn *types.TypeName) *types.Struct {
	if tn == nil {
		return nil
	}
	s, _ := tn.Type().Underlying().(*types.Struct)
	return s
}

func findTracked() {
	sc := pkg.Scope()
	for _, n := range sc.Names() {
		tn, ok := sc.Lookup(n).(*types.TypeName)
		if !ok {
			continue
		}
		st := structOf(tn)
		if st == nil {
			continue
		}
		for i := 0; i < st.NumFields(); i++ {
			ft := st.Field(i).Type()
			_, isChan := ft.Underlying().(*types.Chan)
			if isSyncObj(ft) || isChan {
				tracked[tn] = true // built to be shared between goroutines
			}
		}
	}
}

func trackedName(t types.Type) (string, bool) {
	tn := namedOf(t)
	if tn != nil && tracked[tn] {
		return tn.Name(), true
	}
	return "", false
}

var namePrefix string

func posStr(p token.Pos) string {
	q := fset.Position(p)
	dir := ""
	if namePrefix != "" {
		dir = strings.TrimSuffix(namePrefix, ".") + "/"
	}
	return fmt.Sprintf("%s%s:%d:%d", dir, filepath.Base(q.Filename), q.Line, q.Column)
}

func main() {
	jsonOut := flag.String("json", "", "write the table as JSON to this file (default stdout)")
	coqOut := flag.String("coq", "", "write Generated_Accesses.v to this file")
	globals := flag.String("global", "Scheduler", "comma separated tracked types with one instance per process")
	singles := flag.String("single", "Scheduler.Run", "comma separated functions whose go statements start singleton goroutines (if called from exactly one place)")
	pkgPath := flag.String("pkg", "./server", "package to analyse")
	prefix := flag.String("prefix", "", "prefix for function and location names and for positions (second package, e.g. `llm.`)")
	waive := flag.String("waive", "", "semicolon separated `function|location` pairs rendered as the Coq list `waived` (recorded findings)")
	flag.Parse()
	if flag.NArg() < 1 {
		fatal("usage: lockx [flags] <repo dir>")
	}
	for _, g := range strings.Split(*globals, ",") {
		globalType[strings.TrimSpace(g)] = true
	}
	for _, g := range strings.Split(*singles, ",") {
		singleFns[strings.TrimSpace(g)] = true
	}
	files := load(flag.Arg(0), *pkgPath)
	findTracked()
	namePrefix = *prefix
	tab := analyse(files)
	tab.TypeErrors = typeErrs
	if len(tab.TypeErrors) > 20 {
		tab.TypeErrors = tab.TypeErrors[:20]
	}
	sort.Strings(notes)
	tab.Notes = append([]string{}, notes...)
	tab.TypeErrors = append([]string{}, tab.TypeErrors...)
	b, _ := json.MarshalIndent(tab, "", " ")
	if *jsonOut == "" {
		os.Stdout.Write(append(b, '\n'))
	} else if err := os.WriteFile(*jsonOut, append(b, '\n'), 0o644); err != nil {
		fatal("%v", err)
	}
	if *coqOut != "" {
		if err := os.WriteFile(*coqOut, []byte(renderCoq(tab, *waive)), 0o644); err != nil {
			fatal("%v", err)
		}
	}
}
