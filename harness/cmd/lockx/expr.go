package main

import (
	"go/ast"
	"go/token"
	"go/types"
	"strings"
)

// packages whose functions call a function argument synchronously, in the caller's goroutine
var syncCallbackPkgs = map[string]bool{"sort": true, "slices": true, "strings": true, "maps": true, "bytes": true, "cmp": true, "fmt": true}

func (w *walker) exprs(st *state, l []ast.Expr, write bool) {
	for _, e := range l {
		w.expr(st, e, write)
	}
}

// expr records the accesses made by evaluating e (write: e is assigned to)
func (w *walker) expr(st *state, e ast.Expr, write bool) {
	switch e := e.(type) {
	case nil:
	case *ast.Ident:
		o := info.ObjectOf(e)
		if o == nil {
			return
		}
		if w.an.pkgVars[o] {
			w.access(st, "var "+o.Name(), write, nil, e.Pos(), true)
		} else if v, ok := o.(*types.Var); ok && v.Parent() == pkg.Scope() && isSyncObj(v.Type()) {
			w.syncUse("var "+o.Name(), "sync object")
		}
		if st.fresh[o] && w.noEsc == 0 {
			w.escaped[o] = true // used as a value: may be published from here on
		}
	case *ast.ParenExpr:
		w.expr(st, e.X, write)
	case *ast.SelectorExpr:
		w.selector(st, e, write)
	case *ast.IndexExpr:
		t := info.TypeOf(e.X)
		w.expr(st, e.X, write && (isMap(t) || isArray(t)))
		w.expr(st, e.Index, false)
	case *ast.IndexListExpr:
		w.expr(st, e.X, false)
	case *ast.SliceExpr:
		w.expr(st, e.X, false)
		w.expr(st, e.Low, false)
		w.expr(st, e.High, false)
		w.expr(st, e.Max, false)
	case *ast.StarExpr:
		w.expr(st, e.X, false)
	case *ast.UnaryExpr:
		// &X.f: the address escapes, anything may be done through it
		w.expr(st, e.X, e.Op == token.AND && !isCompositeLit(e.X))
		if e.Op == token.ARROW {
			// <-x.ch on a channel field that is only ever closed: everything from here on is after the close
			if key, name, ok := chanField(e.X); ok && !st.dead {
				st.held[lockItem{Key: key, Mu: "<-" + name}] = true
			}
		}
	case *ast.BinaryExpr:
		w.expr(st, e.X, false)
		w.expr(st, e.Y, false)
	case *ast.KeyValueExpr:
		w.expr(st, e.Key, false)
		w.expr(st, e.Value, false)
	case *ast.TypeAssertExpr:
		w.expr(st, e.X, false)
	case *ast.CompositeLit:
		w.composite(st, e)
	case *ast.FuncLit:
		// a closure stored or passed somewhere we do not understand: analysed as a possible goroutine body
		w.closure(st, e, "cb", nil)
	case *ast.CallExpr:
		w.call(st, e)
	}
}

// chanField: e is X.ch with ch a channel-typed field of a tracked struct -> (key of X, "T.ch")
func chanField(e ast.Expr) (string, string, bool) {
	se, ok := unparen(e).(*ast.SelectorExpr)
	if !ok {
		return "", "", false
	}
	sel := info.Selections[se]
	if sel == nil || sel.Kind() != types.FieldVal || len(sel.Index()) != 1 {
		return "", "", false
	}
	if _, isChan := sel.Type().Underlying().(*types.Chan); !isChan {
		return "", "", false
	}
	tn, ok := trackedName(sel.Recv())
	if !ok {
		return "", "", false
	}
	k, _ := exprKey(se.X)
	return k, tn + "." + se.Sel.Name, true
}

func isCompositeLit(e ast.Expr) bool { _, ok := e.(*ast.CompositeLit); return ok }

func (w *walker) selector(st *state, e *ast.SelectorExpr, write bool) {
	sel := info.Selections[e]
	if sel == nil { // qualified identifier pkg.Name
		if o := info.ObjectOf(e.Sel); o != nil && w.an.pkgVars[o] {
			w.access(st, "var "+o.Name(), write, nil, e.Pos(), true)
		}
		return
	}
	if sel.Kind() == types.FieldVal {
		w.fieldPath(st, e, sel, sel.Index(), write)
		// base: a fresh local used as X in X.f does not escape
		if id, ok := unparen(e.X).(*ast.Ident); ok {
			if o := info.ObjectOf(id); o != nil {
				if w.an.pkgVars[o] {
					w.access(st, "var "+o.Name(), write && !isPointer(info.TypeOf(e.X)), nil, id.Pos(), true)
				}
				return
			}
		}
		w.expr(st, e.X, write && !isPointer(info.TypeOf(e.X)))
		return
	}
	// method value / method call receiver; a promoted method reads the embedded fields on the way
	if idx := sel.Index(); len(idx) > 1 {
		w.fieldPath(st, e, sel, idx[:len(idx)-1], false)
	}
	// method value / method call receiver
	w.expr(st, e.X, false)
}

// fieldPath records the accesses of X.f where f is reached through the (possibly implicit, embedded) field path idx
func (w *walker) fieldPath(st *state, e *ast.SelectorExpr, sel *types.Selection, idx []int, write bool) {
	cur := sel.Recv()
	baseKey, _ := exprKey(e.X)
	var fields []*types.Var
	var owners []types.Type
	for _, i := range idx {
		stt, _ := deref(cur).Underlying().(*types.Struct)
		if stt == nil || i >= stt.NumFields() {
			break
		}
		owners = append(owners, cur)
		fields = append(fields, stt.Field(i))
		cur = stt.Field(i).Type()
	}
	for h, f := range fields {
		tn, ok := trackedName(owners[h])
		if !ok {
			baseKey += "." + f.Name()
			continue
		}
		wr := write
		for g := h; g < len(fields)-1 && wr; g++ {
			if isPointer(fields[g].Type()) {
				wr = false // the write lands in another object
			}
		}
		if isSyncObj(f.Type()) {
			w.syncUse(tn+"."+f.Name(), "atomic/sync field")
		} else if h == 0 {
			w.access(st, tn+"."+f.Name(), wr, e.X, e.Sel.Pos(), globalType[tn])
		} else {
			w.accessKey(st, tn+"."+f.Name(), wr, baseKey, false, e.Sel.Pos(), globalType[tn])
		}
		baseKey += "." + f.Name()
	}
}

func (w *walker) composite(st *state, e *ast.CompositeLit) {
	t := info.TypeOf(e)
	tn, isTracked := trackedName(t)
	_, isStruct := deref(t).Underlying().(*types.Struct)
	for _, el := range e.Elts {
		if kv, ok := el.(*ast.KeyValueExpr); ok {
			if isStruct {
				if id, ok := kv.Key.(*ast.Ident); ok && isTracked && w.record && !st.dead {
					w.u.accesses = append(w.u.accesses, access{Loc: tn + "." + id.Name, Write: true, Init: true, Pos: id.Pos(), Unit: w.u})
				}
			} else {
				w.expr(st, kv.Key, false)
			}
			w.expr(st, kv.Value, false)
		} else {
			w.expr(st, el, false)
		}
	}
}

func calleeFunc(c *ast.CallExpr) *types.Func {
	switch f := c.Fun.(type) {
	case *ast.Ident:
		fn, _ := info.ObjectOf(f).(*types.Func)
		return fn
	case *ast.SelectorExpr:
		if sel := info.Selections[f]; sel != nil {
			if sel.Kind() == types.MethodVal {
				fn, _ := sel.Obj().(*types.Func)
				return fn
			}
			return nil
		}
		fn, _ := info.ObjectOf(f.Sel).(*types.Func)
		return fn
	case *ast.ParenExpr:
		return calleeFunc(&ast.CallExpr{Fun: f.X, Args: c.Args})
	}
	return nil
}

// translate the held set into the names of the callee (receiver and parameters)
func (w *walker) translate(st *state, callee *unit, recvExpr ast.Expr, args []ast.Expr) []lockItem {
	var out []lockItem
	for it := range st.held {
		if it.Glob {
			out = append(out, it)
			continue
		}
		if recvExpr != nil && callee.recv != nil {
			if k, _ := exprKey(recvExpr); k == it.Key {
				out = append(out, lockItem{Key: keyOfObj(callee.recv), Mu: it.Mu})
				continue
			}
		}
		for i, a := range args {
			if i < len(callee.params) && callee.params[i] != nil {
				if k, _ := exprKey(a); k == it.Key {
					out = append(out, lockItem{Key: keyOfObj(callee.params[i]), Mu: it.Mu})
					break
				}
			}
		}
	}
	return out
}

func (w *walker) recordCall(st *state, fn *types.Func, recvExpr ast.Expr, args []ast.Expr, async string, pos token.Pos) {
	if fn == nil || st.dead {
		return
	}
	callee := w.an.units[fn]
	if callee == nil {
		return
	}
	if w.record {
		var all []lockItem
		for it := range st.held {
			all = append(all, it)
		}
		w.u.calls = append(w.u.calls, callsite{callee: callee, held: w.translate(st, callee, recvExpr, args), async: async, pos: pos, acq: acqOf(st, all)})
	}
}

func (w *walker) call(st *state, c *ast.CallExpr) {
	// builtins that write their first argument
	if id, ok := c.Fun.(*ast.Ident); ok {
		if _, isB := info.ObjectOf(id).(*types.Builtin); isB {
			switch id.Name {
			case "close":
				w.exprs(st, c.Args, false)
				if len(c.Args) == 1 {
					if key, name, ok := chanField(c.Args[0]); ok && !st.dead {
						it := lockItem{Key: key, Mu: "!" + name}
						if w.record {
							if !st.held[it] && !w.inDefer {
								w.an.foreignClose[name] = posStr(c.Pos())
							}
							w.an.closed[name]++
						}
						if !w.inDefer {
							delete(st.held, it) // given: nothing after this point is "before the signal"
						}
					}
				}
				return
			case "append":
				if len(c.Args) > 1 {
					w.aliasWrite(st, c.Args[0], "append", c.Pos())
				}
			case "copy":
				if len(c.Args) > 0 {
					w.aliasWrite(st, c.Args[0], "copy into", c.Pos())
				}
			}
			switch id.Name {
			case "delete", "clear":
				if len(c.Args) > 0 {
					w.aliasWrite(st, c.Args[0], id.Name, c.Pos())
					w.expr(st, c.Args[0], true)
					w.exprs(st, c.Args[1:], false)
				}
				return
			case "new", "make":
				w.exprs(st, c.Args[1:], false)
				return
			}
			w.exprs(st, c.Args, false)
			return
		}
	}
	if tv, ok := info.Types[c.Fun]; ok && tv.IsType() { // conversion
		w.exprs(st, c.Args, false)
		return
	}
	// immediately invoked closure: same goroutine, same locks
	if fl, ok := unparen(c.Fun).(*ast.FuncLit); ok {
		w.exprs(st, c.Args, false)
		w.inlineClosure(st, fl, true)
		return
	}
	fn := calleeFunc(c)
	if fn != nil && fn.Pkg() != nil && len(c.Args) > 0 {
		if p := fn.Pkg().Path(); (p == "sort" || p == "slices") && (strings.HasPrefix(fn.Name(), "Sort") || fn.Name() == "Slice" || fn.Name() == "SliceStable" ||
			fn.Name() == "Stable" || fn.Name() == "Reverse" || fn.Name() == "Strings" || fn.Name() == "Ints") {
			w.aliasWrite(st, c.Args[0], "in-place "+p+"."+fn.Name(), c.Pos())
		}
	}
	// m.Store(k, v): from here on the local v and the container share one value
	if _, ok := isSyncMapMethod(c, "Store", "LoadOrStore", "Swap"); ok && len(c.Args) == 2 && !st.dead {
		if id, ok := unparen(c.Args[1]).(*ast.Ident); ok && isSliceOrMap(info.TypeOf(id)) {
			if o := info.ObjectOf(id); o != nil {
				defer func() { st.shared[o] = "a sync.Map (stored there)" }()
			}
		}
	}
	var recvExpr ast.Expr
	if se, ok := c.Fun.(*ast.SelectorExpr); ok {
		if sel := info.Selections[se]; sel != nil {
			if sel.Kind() == types.MethodVal {
				recvExpr = se.X
			} else if sel.Kind() == types.FieldVal {
				// call through a func-typed field of a tracked type (s.loadFn(...))
				if tn, ok := trackedName(sel.Recv()); ok {
					for _, tgt := range w.an.fieldTgts[tn+"."+se.Sel.Name] {
						w.recordCall(st, tgt, nil, c.Args, "", c.Pos())
					}
				}
			}
		}
	}
	w.expr(st, c.Fun, false)
	// function-literal arguments
	syncCb, asyncKind := false, "cb"
	if fn != nil && fn.Pkg() != nil {
		if syncCallbackPkgs[fn.Pkg().Path()] {
			syncCb = true
		}
		if fn.Pkg().Path() == "time" && fn.Name() == "AfterFunc" {
			asyncKind = "timer"
		}
		if fn.Pkg() == pkg {
			asyncKind = "cb" // handed to our own code: unknown, treated as a possible goroutine body
		}
	}
	std := fn != nil && fn.Pkg() != nil && isStdPath(fn.Pkg().Path()) && fn.Pkg().Path() != "sync" && fn.Pkg().Path() != "sync/atomic" // sync.Map.Store & co. publish
	if std {
		w.noEsc++ // a standard-library callee does not publish its arguments to other goroutines (assumption)
		defer func() { w.noEsc-- }()
	}
	if syncCb && w.record && !st.dead {
		// sort.Sort(ByX(list)) and friends: the methods of our own named argument types run here, synchronously
		for _, a := range c.Args {
			if tn := namedOf(info.TypeOf(a)); tn != nil && tn.Pkg() == pkg {
				if nt, ok := tn.Type().(*types.Named); ok {
					for i := 0; i < nt.NumMethods(); i++ {
						w.recordCall(st, nt.Method(i), nil, nil, "", c.Pos())
					}
				}
			}
		}
	}
	for _, a := range c.Args {
		if fl, ok := a.(*ast.FuncLit); ok {
			if syncCb {
				w.inlineClosure(st, fl, true)
			} else {
				w.closure(st, fl, asyncKind, nil)
			}
			continue
		}
		w.expr(st, a, false)
	}
	if fn != nil && fn.Pkg() == pkg {
		w.recordCall(st, fn, recvExpr, c.Args, "", c.Pos())
		if singleFns[unitName(fn)] && w.record {
			w.an.runCalls[unitName(fn)]++
			if len(w.frames) > 0 {
				w.an.runCalls[unitName(fn)] += 100 // inside a loop/switch: not provably once
			}
		}
	}
}

// a closure that runs in the caller's goroutine (immediately invoked, or a sort/slices callback):
// analysed in place; keepLocks says whether the locks held here are held when it runs
func (w *walker) inlineClosure(st *state, fl *ast.FuncLit, keepLocks bool) {
	in := st.clone()
	if !keepLocks {
		in.held = map[lockItem]bool{}
	}
	in.fresh = map[types.Object]bool{}
	w.markCaptured(st, fl)
	saved := w.frames
	w.frames = nil
	w.block(in, fl.Body.List)
	w.frames = saved
}

// every fresh local mentioned inside a closure escapes
func (w *walker) markCaptured(st *state, fl *ast.FuncLit) {
	ast.Inspect(fl.Body, func(n ast.Node) bool {
		if id, ok := n.(*ast.Ident); ok {
			if o := info.ObjectOf(id); o != nil && st.fresh[o] {
				w.escaped[o] = true
			}
		}
		return true
	})
}

// closure that may run in another goroutine (go statement, time.AfterFunc, unknown callee).
// entry: locks handed over to it (go statement hand-off), else nothing.
func (w *walker) closure(st *state, fl *ast.FuncLit, kind string, entry map[lockItem]bool) {
	w.markCaptured(st, fl)
	if st.dead {
		return
	}
	u := w.an.lits[fl]
	if u == nil {
		u = &unit{name: rootName(w.u.name) + "$" + kind + itoa(litOrdinal[fl]), body: fl.Body, roots: map[string]bool{}, classes: map[string]bool{}, fixed: true}
		cls := kind + ":" + u.name
		u.roots[cls] = true
		single := false
		if kind == "go" && singleFns[rootName(w.u.name)] {
			single = true
		}
		w.an.classes[cls] = single
		for _, f := range fl.Type.Params.List {
			for _, n := range f.Names {
				u.params = append(u.params, info.ObjectOf(n))
			}
		}
		w.an.lits[fl] = u
		w.an.order = append(w.an.order, u)
	}
	if w.record {
		u.entry = map[lockItem]bool{}
		for k := range entry {
			u.entry[k] = true
		}
	}
}

func isStdPath(p string) bool {
	for i := 0; i < len(p) && p[i] != '/'; i++ {
		if p[i] == '.' {
			return false
		}
	}
	return true
}

func rootName(n string) string {
	for i := 0; i < len(n); i++ {
		if n[i] == '$' {
			return n[:i]
		}
	}
	return n
}

func itoa(i int) string {
	s := ""
	if i == 0 {
		return "0"
	}
	for i > 0 {
		s = string(rune('0'+i%10)) + s
		i /= 10
	}
	return s
}

func unitName(fn *types.Func) string {
	sig, _ := fn.Type().(*types.Signature)
	if sig != nil && sig.Recv() != nil {
		if tn := namedOf(sig.Recv().Type()); tn != nil {
			return tn.Name() + "." + fn.Name()
		}
	}
	return fn.Name()
}
