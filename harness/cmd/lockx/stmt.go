package main

import (
	"go/ast"
	"go/token"
	"go/types"
	"strings"
)

func dead() *state { d := newState(); d.dead = true; return d }

func (w *walker) block(st *state, l []ast.Stmt) *state {
	for _, s := range l {
		st = w.stmt(st, s, "")
	}
	return st
}

func (w *walker) endStmt(st *state) {
	for o := range w.escaped {
		delete(st.fresh, o)
		delete(w.escaped, o)
	}
}

func (w *walker) findFrame(label string, needLoop bool) *frame {
	for i := len(w.frames) - 1; i >= 0; i-- {
		f := w.frames[i]
		if label != "" {
			if f.label == label {
				return f
			}
			continue
		}
		if !needLoop || f.isLoop {
			return f
		}
	}
	return nil
}

func isTerminatingCall(c *ast.CallExpr) bool {
	if id, ok := c.Fun.(*ast.Ident); ok && id.Name == "panic" {
		_, isB := info.ObjectOf(id).(*types.Builtin)
		return isB
	}
	if fn := calleeFunc(c); fn != nil && fn.Pkg() != nil {
		p, n := fn.Pkg().Path(), fn.Name()
		return (p == "os" && n == "Exit") || (p == "log" && (n == "Fatal" || n == "Fatalf" || n == "Fatalln"))
	}
	return false
}

func (w *walker) stmt(st *state, s ast.Stmt, label string) *state {
	if st.dead {
		// still walk (dry) so that closures are discovered, but record nothing
		return st
	}
	switch s := s.(type) {
	case nil:
	case *ast.BlockStmt:
		return w.block(st, s.List)
	case *ast.LabeledStmt:
		return w.stmt(st, s.Stmt, s.Label.Name)
	case *ast.ExprStmt:
		if c, ok := s.X.(*ast.CallExpr); ok {
			if it, m, ok := mutexCall(c); ok {
				if _, isId := unparen(lastMutexBase).(*ast.Ident); !isId {
					w.expr(st, lastMutexBase, false) // x.next.mu.Lock() reads x.next
				}
				if m == "Lock" {
					st.held[it] = true
					st.acq[it] = c.Pos()
				} else {
					delete(st.held, it)
					delete(st.acq, it)
				}
				return st
			}
			w.expr(st, s.X, false)
			w.endStmt(st)
			if isTerminatingCall(c) {
				return dead()
			}
			return st
		}
		w.expr(st, s.X, false)
		w.endStmt(st)
	case *ast.SendStmt:
		if _, name, ok := chanField(s.Chan); ok && w.record {
			w.an.sentTo[name] = true
		}
		w.expr(st, s.Chan, false)
		w.expr(st, s.Value, false)
		w.endStmt(st)
	case *ast.IncDecStmt:
		if ix, ok := s.X.(*ast.IndexExpr); ok {
			w.aliasWrite(st, ix.X, "element assignment", ix.Pos())
		}
		w.expr(st, s.X, true)
		w.endStmt(st)
	case *ast.AssignStmt:
		w.assign(st, s)
	case *ast.DeclStmt:
		if gd, ok := s.Decl.(*ast.GenDecl); ok {
			for _, sp := range gd.Specs {
				if vs, ok := sp.(*ast.ValueSpec); ok {
					w.exprs(st, vs.Values, false)
					for i, n := range vs.Names {
						o := info.ObjectOf(n)
						w.invalidate(st, o)
						if i < len(vs.Values) && len(vs.Values) == len(vs.Names) && isFreshAlloc(vs.Values[i]) && o != nil {
							w.endStmt(st)
							st.fresh[o] = true
						}
						if len(vs.Values) == 0 && o != nil && !isPointer(o.Type()) {
							if _, ok := trackedName(o.Type()); ok {
								st.fresh[o] = true // var x T: a new zero object
							}
						}
					}
				}
			}
			w.endStmt(st)
		}
	case *ast.GoStmt:
		w.goStmt(st, s)
		w.endStmt(st)
	case *ast.DeferStmt:
		if _, _, ok := mutexCall(s.Call); ok {
			return st // released at function exit: held for the rest of the body
		}
		w.inDefer = true
		if fl, ok := unparen(s.Call.Fun).(*ast.FuncLit); ok {
			w.exprs(st, s.Call.Args, false)
			w.inlineClosure(st, fl, false) // runs at exit: nothing assumed held
		} else {
			w.expr(st, s.Call, false)
		}
		w.inDefer = false
		w.endStmt(st)
	case *ast.ReturnStmt:
		for _, r := range s.Results {
			if src := w.sharedSource(st, r); src != "" && isSliceOrMap(info.TypeOf(r)) && w.record && w.u.returnsShared == "" {
				w.u.returnsShared = src
				w.an.sharedChanged = true
			}
		}
		w.exprs(st, s.Results, false)
		w.endStmt(st)
		return dead()
	case *ast.BranchStmt:
		lbl := ""
		if s.Label != nil {
			lbl = s.Label.Name
		}
		switch s.Tok {
		case token.BREAK:
			if f := w.findFrame(lbl, false); f != nil {
				f.breaks = append(f.breaks, st.clone())
			} else {
				w.u.coarse = true
			}
		case token.CONTINUE:
			if f := w.findFrame(lbl, true); f != nil {
				f.conts = append(f.conts, st.clone())
			} else {
				w.u.coarse = true
			}
		default: // goto, fallthrough
			w.u.coarse = true
		}
		return dead()
	case *ast.IfStmt:
		st = w.stmt(st, s.Init, "")
		w.expr(st, s.Cond, false)
		w.endStmt(st)
		thenSt := st.clone()
		for _, it := range w.ownershipIf(s.Cond) {
			thenSt.held[it] = true // this goroutine stored the object: it is its only owner until it hands it on
		}
		a := w.block(thenSt, s.Body.List)
		b := st
		if s.Else != nil {
			elseSt := st.clone()
			for _, it := range w.ownershipElse(s.Cond) {
				elseSt.held[it] = true
			}
			b = w.stmt(elseSt, s.Else, "")
		}
		if a.dead && b.dead {
			return dead()
		}
		return meet(a, b)
	case *ast.ForStmt:
		st = w.stmt(st, s.Init, "")
		return w.loop(st, label, func(in *state) (*state, *state) {
			w.expr(in, s.Cond, false)
			w.endStmt(in)
			var exit *state
			if s.Cond != nil {
				exit = in.clone()
			}
			return in, exit
		}, s.Body, s.Post)
	case *ast.RangeStmt:
		w.expr(st, s.X, false)
		w.endStmt(st)
		return w.loop(st, label, func(in *state) (*state, *state) {
			for _, kv := range []ast.Expr{s.Key, s.Value} {
				if id, ok := kv.(*ast.Ident); ok {
					w.invalidate(in, info.ObjectOf(id))
				} else if kv != nil {
					w.expr(in, kv, true)
				}
			}
			return in, in.clone()
		}, s.Body, nil)
	case *ast.SwitchStmt:
		st = w.stmt(st, s.Init, "")
		w.expr(st, s.Tag, false)
		w.endStmt(st)
		return w.clauses(st, label, s.Body.List, false)
	case *ast.TypeSwitchStmt:
		st = w.stmt(st, s.Init, "")
		st = w.stmt(st, s.Assign, "")
		return w.clauses(st, label, s.Body.List, false)
	case *ast.SelectStmt:
		return w.clauses(st, label, s.Body.List, true)
	}
	return st
}

func (w *walker) assign(st *state, s *ast.AssignStmt) {
	w.noteLoadOrStore(s)
	// aliases of container values: sources on the right, element writes on the left
	var srcs []string
	for i := range s.Lhs {
		src := ""
		if len(s.Lhs) == len(s.Rhs) {
			src = w.sharedSource(st, s.Rhs[i])
		} else if i == 0 && len(s.Rhs) == 1 {
			src = w.sharedSource(st, s.Rhs[0]) // v, ok := m.Load(k) / v, ok := x.(T)
		}
		srcs = append(srcs, src)
		if ix, ok := s.Lhs[i].(*ast.IndexExpr); ok {
			w.aliasWrite(st, ix.X, "element assignment", ix.Pos())
		}
	}
	if len(s.Lhs) == len(s.Rhs) {
		for i, l := range s.Lhs {
			// pkgMap[k] = v: from here on the local v and the map share one value
			if ix, ok := l.(*ast.IndexExpr); ok {
				if id, ok := unparen(ix.X).(*ast.Ident); ok {
					if v, ok := info.ObjectOf(id).(*types.Var); ok && v.Parent() == pkg.Scope() && isMap(v.Type()) {
						if rid, ok := unparen(s.Rhs[i]).(*ast.Ident); ok && isSliceOrMap(info.TypeOf(rid)) && info.ObjectOf(rid) != nil {
							defer func(o types.Object, n string) { st.shared[o] = "package-level map " + n }(info.ObjectOf(rid), v.Name())
						}
					}
				}
			}
		}
	}
	defer func() {
		for i, l := range s.Lhs {
			if id, ok := l.(*ast.Ident); ok {
				if o := info.ObjectOf(id); o != nil && o.Parent() != pkg.Scope() {
					if srcs[i] != "" {
						st.shared[o] = srcs[i]
					} else {
						delete(st.shared, o)
					}
				}
			}
		}
	}()
	w.exprs(st, s.Rhs, false)
	for i, l := range s.Lhs {
		if id, ok := l.(*ast.Ident); ok {
			o := info.ObjectOf(id)
			if o != nil && w.an.pkgVars[o] {
				w.access(st, "var "+o.Name(), true, nil, id.Pos(), true)
			}
			w.invalidate(st, o)
			_ = i
			continue
		}
		w.expr(st, l, true)
		if k, _ := exprKey(l); !strings.HasPrefix(k, "?") {
			for it := range st.held { // x.next = y: a lock taken through x.next no longer names the same object
				if !it.Glob && (it.Key == k || strings.HasPrefix(it.Key, k+".")) {
					delete(st.held, it)
				}
			}
		}
		if s.Tok != token.ASSIGN && s.Tok != token.DEFINE {
			w.expr(st, l, false) // x.f += 1 also reads
		}
	}
	w.endStmt(st)
	if len(s.Lhs) == len(s.Rhs) {
		for i, l := range s.Lhs {
			if id, ok := l.(*ast.Ident); ok && isFreshAlloc(s.Rhs[i]) {
				if o := info.ObjectOf(id); o != nil && o.Parent() != pkg.Scope() {
					st.fresh[o] = true
				}
			}
		}
	}
}

// loop computes the greatest fixpoint of the must-information at the loop head with dry passes, then records
func (w *walker) loop(st *state, label string, head func(*state) (*state, *state), body *ast.BlockStmt, post ast.Stmt) *state {
	entry := st.clone()
	pass := func(in *state, rec bool) (back *state, exit *state) {
		savedRec := w.record
		w.record = savedRec && rec
		f := &frame{label: label, isLoop: true}
		w.frames = append(w.frames, f)
		cur, ex := head(in.clone())
		out := w.block(cur, body.List)
		for _, c := range f.conts {
			out = meet(out, c)
		}
		if post != nil && !out.dead {
			out = w.stmt(out, post, "")
		}
		w.frames = w.frames[:len(w.frames)-1]
		exit = ex
		for _, b := range f.breaks {
			if exit == nil {
				exit = b.clone()
			} else {
				exit = meet(exit, b)
			}
		}
		w.record = savedRec
		return out, exit
	}
	for i := 0; i < 8; i++ {
		back, _ := pass(entry, false)
		n := meet(entry, back)
		if back.dead {
			n = entry.clone()
		}
		n = meet(n, st)
		if sameState(n, entry) {
			break
		}
		entry = n
	}
	_, exit := pass(entry, true)
	if exit == nil {
		return dead()
	}
	return exit
}

func (w *walker) clauses(st *state, label string, list []ast.Stmt, isSelect bool) *state {
	f := &frame{label: label}
	w.frames = append(w.frames, f)
	var out *state
	hasDefault := false
	for _, cs := range list {
		in := st.clone()
		var body []ast.Stmt
		switch c := cs.(type) {
		case *ast.CaseClause:
			if c.List == nil {
				hasDefault = true
			}
			w.exprs(in, c.List, false)
			w.endStmt(in)
			body = c.Body
		case *ast.CommClause:
			if c.Comm == nil {
				hasDefault = true
			} else {
				in = w.stmt(in, c.Comm, "")
			}
			body = c.Body
		}
		o := w.block(in, body)
		if out == nil {
			out = o
		} else if !(o.dead) || out.dead {
			out = meet(out, o)
		}
	}
	w.frames = w.frames[:len(w.frames)-1]
	if !hasDefault && !isSelect {
		if out == nil {
			out = st.clone()
		} else {
			out = meet(out, st)
		}
	}
	for _, b := range f.breaks {
		if out == nil {
			out = b.clone()
		} else {
			out = meet(out, b)
		}
	}
	if out == nil {
		if isSelect && len(list) == 0 {
			return dead() // select {} blocks forever
		}
		return st
	}
	return out
}

// go statement: closure bodies become their own unit; locks that the closure releases and that the parent
// never releases itself are handed over to the new goroutine
func (w *walker) goStmt(st *state, s *ast.GoStmt) {
	c := s.Call
	if fl, ok := unparen(c.Fun).(*ast.FuncLit); ok {
		w.exprs(st, c.Args, false)
		entry := map[lockItem]bool{}
		for it := range st.held {
			if it.Glob {
				continue
			}
			if releases(fl.Body, it) && !releasesOutside(w.u.body, fl, it) {
				entry[it] = true
			}
		}
		w.closure(st, fl, "go", entry)
		for it := range entry {
			delete(st.held, it) // the parent no longer owns it
		}
		return
	}
	// go f(args) / go x.m(args)
	w.exprs(st, c.Args, false)
	if se, ok := c.Fun.(*ast.SelectorExpr); ok {
		w.expr(st, se.X, false)
	}
	if fn := calleeFunc(c); fn != nil && fn.Pkg() == pkg {
		cls := "go:" + rootName(w.u.name) + "$call" + itoa(goOrdinal[s])
		if _, ok := w.an.classes[cls]; !ok {
			w.an.classes[cls] = singleFns[rootName(w.u.name)]
		}
		// ownership tokens of the receiver / arguments go with the new goroutine
		give := newState()
		var recvExpr ast.Expr
		if se, ok := c.Fun.(*ast.SelectorExpr); ok {
			if sel := info.Selections[se]; sel != nil && sel.Kind() == types.MethodVal {
				recvExpr = se.X
			}
		}
		for it := range st.held {
			if !it.Glob && (strings.HasSuffix(it.Mu, ".own") || strings.HasPrefix(it.Mu, "!")) {
				for _, e := range append([]ast.Expr{recvExpr}, c.Args...) {
					if e != nil {
						if k, _ := exprKey(e); k == it.Key {
							give.held[it] = true
						}
					}
				}
			}
		}
		w.recordCall(give, fn, recvExpr, c.Args, cls, c.Pos())
		for it := range give.held {
			delete(st.held, it)
		}
	}
}

// ownershipIf: `if !loaded {` where loaded comes from v, loaded := m.LoadOrStore(k, x) on a sync.Map: in the branch this
// goroutine is the one that stored the object - nobody else owns it. Modelled as a virtual mutex "T.own" of the object.
func (w *walker) ownershipIf(cond ast.Expr) []lockItem {
	u, ok := unparen(cond).(*ast.UnaryExpr)
	if !ok || u.Op != token.NOT {
		return nil
	}
	id, ok := unparen(u.X).(*ast.Ident)
	if !ok {
		return nil
	}
	return w.ownerItems(info.ObjectOf(id))
}

func (w *walker) ownerItems(loadedFlag types.Object) []lockItem {
	var out []lockItem
	for _, v := range w.winner[loadedFlag] {
		if tn, ok := trackedName(v.Type()); ok && isPointer(v.Type()) {
			out = append(out, lockItem{Key: keyOfObj(v), Mu: tn + ".own"})
			if st, _ := deref(v.Type()).Underlying().(*types.Struct); st != nil {
				for i := 0; i < st.NumFields(); i++ {
					if _, isChan := st.Field(i).Type().Underlying().(*types.Chan); isChan {
						// the owner is the only goroutine that will close the object's channels
						out = append(out, lockItem{Key: keyOfObj(v), Mu: "!" + tn + "." + st.Field(i).Name()})
					}
				}
			}
		}
	}
	return out
}

// `if loaded { ... } else { <owner> }`
func (w *walker) ownershipElse(cond ast.Expr) []lockItem {
	id, ok := unparen(cond).(*ast.Ident)
	if !ok {
		return nil
	}
	return w.ownerItems(info.ObjectOf(id))
}

// noteLoadOrStore records v, loaded := m.LoadOrStore(..) and later aliases x := v.(*T)
func (w *walker) noteLoadOrStore(s *ast.AssignStmt) {
	if w.winner == nil {
		w.winner = map[types.Object][]types.Object{}
	}
	if len(s.Lhs) == 2 && len(s.Rhs) == 1 {
		if c, ok := s.Rhs[0].(*ast.CallExpr); ok {
			if fn := calleeFunc(c); fn != nil && fn.Pkg() != nil && fn.Pkg().Path() == "sync" && fn.Name() == "LoadOrStore" {
				v, _ := s.Lhs[0].(*ast.Ident)
				l, _ := s.Lhs[1].(*ast.Ident)
				if v != nil && l != nil && info.ObjectOf(l) != nil && info.ObjectOf(v) != nil {
					w.winner[info.ObjectOf(l)] = []types.Object{info.ObjectOf(v)}
				}
				return
			}
		}
	}
	if len(s.Lhs) == 1 && len(s.Rhs) == 1 {
		if ta, ok := s.Rhs[0].(*ast.TypeAssertExpr); ok {
			if src, ok := unparen(ta.X).(*ast.Ident); ok {
				dst, _ := s.Lhs[0].(*ast.Ident)
				if dst == nil || info.ObjectOf(dst) == nil {
					return
				}
				for l, vs := range w.winner {
					for _, v := range vs {
						if v == info.ObjectOf(src) {
							w.winner[l] = append(w.winner[l], info.ObjectOf(dst))
							break
						}
					}
				}
			}
		}
	}
}

func releases(body ast.Node, it lockItem) bool {
	found := false
	ast.Inspect(body, func(n ast.Node) bool {
		if c, ok := n.(*ast.CallExpr); ok {
			if x, m, ok := mutexCall(c); ok && m == "Unlock" && x == it {
				found = true
			}
		}
		return !found
	})
	return found
}

func releasesOutside(body *ast.BlockStmt, except *ast.FuncLit, it lockItem) bool {
	found := false
	ast.Inspect(body, func(n ast.Node) bool {
		if n == ast.Node(except) {
			return false
		}
		if c, ok := n.(*ast.CallExpr); ok {
			if x, m, ok := mutexCall(c); ok && m == "Unlock" && x == it {
				found = true
			}
		}
		return !found
	})
	return found
}
