package main

import (
	"fmt"
	"go/ast"
	"go/token"
	"go/types"
	"sort"
	"strings"
)

// ---- locks and flow state

type lockItem struct {
	Key  string // base expression key; "" for a global (per process) mutex
	Mu   string // "Type.field"
	Glob bool
}

type state struct {
	held  map[lockItem]bool
	acq   map[lockItem]token.Pos // where each held lock was acquired in this function (absent: by a caller / unknown)
	fresh map[types.Object]bool // locals holding a freshly allocated, not yet published tracked object
	shared map[types.Object]string // MAY information: locals that may alias a value other goroutines reach through a container
	dead  bool                  // unreachable
}

func newState() *state {
	return &state{held: map[lockItem]bool{}, fresh: map[types.Object]bool{}, acq: map[lockItem]token.Pos{}, shared: map[types.Object]string{}}
}

func (s *state) clone() *state {
	n := newState()
	n.dead = s.dead
	for k := range s.held {
		n.held[k] = true
	}
	for k, v := range s.acq {
		n.acq[k] = v
	}
	for k := range s.fresh {
		n.fresh[k] = true
	}
	for k, v := range s.shared {
		n.shared[k] = v
	}
	return n
}

// meet of two flow states (must information: intersection); dead states are neutral
func meet(a, b *state) *state {
	if a == nil || a.dead {
		if b == nil {
			d := newState()
			d.dead = true
			return d
		}
		return b.clone()
	}
	if b == nil || b.dead {
		return a.clone()
	}
	n := newState()
	for k := range a.held {
		if b.held[k] {
			n.held[k] = true
			if pa, ok := a.acq[k]; ok && pa == b.acq[k] {
				n.acq[k] = pa
			}
		}
	}
	for k := range a.fresh {
		if b.fresh[k] {
			n.fresh[k] = true
		}
	}
	for k, v := range a.shared { // may-information: union
		n.shared[k] = v
	}
	for k, v := range b.shared {
		n.shared[k] = v
	}
	return n
}

func sameState(a, b *state) bool {
	if a.dead != b.dead || len(a.held) != len(b.held) || len(a.fresh) != len(b.fresh) || len(a.shared) != len(b.shared) {
		return false
	}
	for k := range a.shared {
		if _, ok := b.shared[k]; !ok {
			return false
		}
	}
	for k := range a.held {
		if !b.held[k] || a.acq[k] != b.acq[k] {
			return false
		}
	}
	for k := range a.fresh {
		if !b.fresh[k] {
			return false
		}
	}
	return true
}

// ---- analysis units (functions and goroutine bodies)

type access struct {
	Before []string // signals (channel fields of the object) only this goroutine gives, later
	After  []string // signals already observed
	Acq   map[string]string // lock name -> position of the Lock() call of the critical section ("entry": held by the caller)
	Loc   string            // "Type.field" or "var name"
	Write bool
	Init  bool
	Locks []lockItem
	Key   string // base key of the accessed object ("" for package variables / global types)
	Pos   token.Pos
	Unit  *unit
}

type callsite struct {
	pos    token.Pos
	acq    map[string]string
	callee *unit
	held   []lockItem // already translated into the callee's names
	async  string     // "" for a plain call; class name when started with `go`
}

type unit struct {
	name     string
	body     *ast.BlockStmt
	fn       *types.Func // nil for closures
	recv     types.Object
	params   []types.Object
	exported bool
	roots    map[string]bool // own goroutine classes (handler, go:..., ext:...)
	classes  map[string]bool // after propagation
	entry    map[lockItem]bool
	entryTop bool // entry not yet constrained (greatest fixpoint start)
	fixed    bool // entry set by the parent (goroutine bodies)
	coarse   bool // unsupported control flow: nothing is assumed held
	isInit   bool // init() / package initialisers
	accesses []access
	calls    []callsite
	hasCtx   bool
	returnsShared string // non-empty: a result may alias a value kept in a shared container (source description)
}

type frame struct {
	label  string
	isLoop bool
	breaks []*state
	conts  []*state
}

type walker struct {
	u       *unit
	an      *analysis
	record  bool
	frames  []*frame
	escaped map[types.Object]bool // fresh locals that escaped in the current statement
	winner  map[types.Object][]types.Object // `loaded` flag of v, loaded := m.LoadOrStore(k, x) -> variables naming the stored object
	noEsc   int                   // >0 while walking arguments of standard-library calls
	inDefer bool                  // walking a deferred call: it runs at function exit
}

type analysis struct {
	units     map[*types.Func]*unit
	lits      map[*ast.FuncLit]*unit
	order     []*unit
	fieldTgts map[string][]*types.Func // "Type.field" of func type -> possible in-package targets
	classes   map[string]bool          // class name -> singleton?
	runCalls  map[string]int           // call sites of the -single functions
	pkgVars   map[types.Object]bool    // tracked package-level variables
	syncUses  map[string]int           // locations synchronised by construction -> number of uses
	foreignClose map[string]string     // channel field closed at a point where the closer is not known to be the only one
	closed    map[string]int           // channel field -> number of close sites
	sentTo    map[string]bool          // channel fields that are sent to (a receive does not imply "closed")
	aliasWrites map[string]aliasWrite  // position -> write through an alias of a value kept in a shared container
	sharedChanged bool                 // some function's returnsShared changed in this pass
}

func keyOfObj(o types.Object) string {
	if o == nil {
		return "?"
	}
	return fmt.Sprintf("%s@%d", o.Name(), o.Pos())
}

// key of a base expression: stable only for identifiers and field chains
func exprKey(e ast.Expr) (string, types.Object) {
	switch e := e.(type) {
	case *ast.Ident:
		o := info.ObjectOf(e)
		if o == nil {
			return fmt.Sprintf("?%d", e.Pos()), nil
		}
		return keyOfObj(o), o
	case *ast.ParenExpr:
		return exprKey(e.X)
	case *ast.StarExpr:
		return exprKey(e.X)
	case *ast.SelectorExpr:
		k, r := exprKey(e.X)
		return k + "." + e.Sel.Name, r
	}
	return fmt.Sprintf("?%d", e.Pos()), nil
}

func rootOfKey(k string) string {
	if i := strings.IndexAny(k, "."); i >= 0 {
		return k[:i]
	}
	return k
}

func unparen(e ast.Expr) ast.Expr {
	for {
		switch x := e.(type) {
		case *ast.ParenExpr:
			e = x.X
		case *ast.StarExpr:
			e = x.X
		default:
			return e
		}
	}
}

// mutexCall recognises X.mu.Lock() / X.mu.Unlock() (also through an embedded mutex) and returns the lock
var lastMutexBase ast.Expr // base expression of the mutex of the last successful mutexCall

func mutexCall(c *ast.CallExpr) (item lockItem, method string, ok bool) {
	se, isSel := c.Fun.(*ast.SelectorExpr)
	if !isSel {
		return
	}
	sel := info.Selections[se]
	if sel == nil || sel.Kind() != types.MethodVal {
		return
	}
	f, _ := sel.Obj().(*types.Func)
	if f == nil || f.Pkg() == nil || f.Pkg().Path() != "sync" {
		return
	}
	recvT := sel.Recv()
	var owner types.Type
	var muName string
	var base ast.Expr
	if isMutex(recvT) {
		// X.mu.Lock(): se.X is the selector X.mu
		inner, isSel2 := unparen(se.X).(*ast.SelectorExpr)
		if !isSel2 {
			return
		}
		isel := info.Selections[inner]
		if isel == nil || isel.Kind() != types.FieldVal {
			return
		}
		owner, muName, base = isel.Recv(), inner.Sel.Name, inner.X
		if len(isel.Index()) > 1 {
			return // mutex reached through an embedded struct: not modelled
		}
	} else if len(sel.Index()) == 2 {
		// X.Lock() with an embedded sync.Mutex
		st, _ := deref(recvT).Underlying().(*types.Struct)
		if st == nil || !isMutex(st.Field(sel.Index()[0]).Type()) {
			return
		}
		owner, muName, base = recvT, st.Field(sel.Index()[0]).Name(), se.X
	} else {
		return
	}
	tn, isTracked := trackedName(owner)
	if !isTracked {
		return
	}
	method = f.Name()
	if method != "Lock" && method != "Unlock" {
		return lockItem{}, method, false // RLock/TryLock...: not a must-hold fact (ignored, conservative)
	}
	item = lockItem{Mu: tn + "." + muName}
	if globalType[tn] {
		item.Glob = true
	} else {
		item.Key, _ = exprKey(base)
	}
	lastMutexBase = base
	return item, method, true
}

func sortedLocks(m map[lockItem]bool) []lockItem {
	var l []lockItem
	for k := range m {
		l = append(l, k)
	}
	sort.Slice(l, func(i, j int) bool {
		if l[i].Mu != l[j].Mu {
			return l[i].Mu < l[j].Mu
		}
		return l[i].Key < l[j].Key
	})
	return l
}

// ---- recording

func (w *walker) access(st *state, loc string, write bool, base ast.Expr, pos token.Pos, isGlobal bool) {
	key, init := "", false
	if base != nil {
		if id, ok := unparen(base).(*ast.Ident); ok && id != nil {
			if root := info.ObjectOf(id); root != nil && st.fresh[root] {
				init = true
			}
		}
		key, _ = exprKey(base)
	}
	w.accessKey(st, loc, write, key, init, pos, isGlobal || base == nil)
}

func (w *walker) accessKey(st *state, loc string, write bool, key string, init bool, pos token.Pos, isGlobal bool) {
	if !w.record || st.dead {
		return
	}
	a := access{Loc: loc, Write: write, Pos: pos, Unit: w.u, Init: init || w.u.isInit}
	if !isGlobal {
		a.Key = key
	}
	for it := range st.held {
		if strings.HasPrefix(it.Mu, "<-") || strings.HasPrefix(it.Mu, "!") {
			if !isGlobal && it.Key == key {
				if it.Mu[0] == '!' {
					a.Before = append(a.Before, it.Mu[1:])
				} else {
					a.After = append(a.After, it.Mu[2:])
				}
			}
			continue
		}
		if it.Glob || (!isGlobal && it.Key == key) {
			a.Locks = append(a.Locks, it)
		}
	}
	sort.Strings(a.Before)
	sort.Strings(a.After)
	sort.Slice(a.Locks, func(i, j int) bool { return a.Locks[i].Mu < a.Locks[j].Mu })
	a.Acq = acqOf(st, a.Locks)
	w.u.accesses = append(w.u.accesses, a)
}

// syncUse counts uses of locations that are synchronised by construction (atomics, sync.Map, mutex-typed fields)
func (w *walker) syncUse(loc, kind string) {
	if w.record {
		w.an.syncUses[loc+" ["+kind+"]"]++
	}
}

func (w *walker) invalidate(st *state, o types.Object) {
	if o == nil {
		return
	}
	r := keyOfObj(o)
	for it := range st.held {
		if !it.Glob && rootOfKey(it.Key) == r {
			delete(st.held, it)
		}
	}
	delete(st.fresh, o)
}

// isFreshAlloc: &T{...}, T{...} or new(T) of a tracked type
func isFreshAlloc(e ast.Expr) bool {
	switch x := e.(type) {
	case *ast.UnaryExpr:
		if x.Op == token.AND {
			if cl, ok := x.X.(*ast.CompositeLit); ok {
				_, t := trackedName(info.TypeOf(cl))
				return t
			}
		}
	case *ast.CompositeLit:
		_, t := trackedName(info.TypeOf(x))
		return t
	case *ast.CallExpr:
		if id, ok := x.Fun.(*ast.Ident); ok && id.Name == "new" && len(x.Args) == 1 {
			if _, isB := info.ObjectOf(id).(*types.Builtin); isB {
				_, t := trackedName(info.TypeOf(x.Args[0]))
				return t
			}
		}
	}
	return false
}

func acqOf(st *state, locks []lockItem) map[string]string {
	m := map[string]string{}
	for _, l := range locks {
		if p, ok := st.acq[l]; ok && p != token.NoPos {
			m[l.Mu] = posStr(p)
		} else {
			m[l.Mu] = "entry"
		}
	}
	return m
}

// ---- values handed out by shared containers (sync.Map, package-level maps): a slice or map obtained from one is the SAME
// backing store for every goroutine that obtains it; appending to it or assigning its elements is a write to shared memory
// that no lock of the container covers.

type aliasWrite struct {
	Fn     string `json:"fn"`
	Pos    string `json:"pos"`
	Op     string `json:"op"`
	Source string `json:"source"`
}

func isSliceOrMap(t types.Type) bool {
	if t == nil {
		return false
	}
	switch t.Underlying().(type) {
	case *types.Slice, *types.Map:
		return true
	}
	return false
}

func isSyncMapMethod(c *ast.CallExpr, names ...string) (recv ast.Expr, ok bool) {
	se, isSel := c.Fun.(*ast.SelectorExpr)
	if !isSel {
		return nil, false
	}
	sel := info.Selections[se]
	if sel == nil || sel.Kind() != types.MethodVal || !isPkgType(sel.Recv(), "sync", "Map") {
		return nil, false
	}
	for _, n := range names {
		if se.Sel.Name == n {
			return se.X, true
		}
	}
	return nil, false
}

// sharedSource: does e denote (an alias of) a value that lives in a shared container? -> description or ""
func (w *walker) sharedSource(st *state, e ast.Expr) string {
	switch x := e.(type) {
	case *ast.Ident:
		if o := info.ObjectOf(x); o != nil {
			return st.shared[o]
		}
	case *ast.ParenExpr:
		return w.sharedSource(st, x.X)
	case *ast.TypeAssertExpr:
		return w.sharedSource(st, x.X)
	case *ast.SliceExpr:
		return w.sharedSource(st, x.X)
	case *ast.IndexExpr:
		if id, ok := unparen(x.X).(*ast.Ident); ok {
			if v, ok := info.ObjectOf(id).(*types.Var); ok && v.Parent() == pkg.Scope() && isMap(v.Type()) && isSliceOrMap(info.TypeOf(x)) {
				return "package-level map " + v.Name()
			}
		}
	case *ast.CallExpr:
		if recv, ok := isSyncMapMethod(x, "Load", "LoadOrStore", "Swap"); ok {
			k, _ := exprKey(recv)
			return "sync.Map " + rootOfKey(strings.SplitN(k, "@", 2)[0])
		}
		if id, ok := x.Fun.(*ast.Ident); ok && id.Name == "append" && len(x.Args) > 0 {
			if _, isB := info.ObjectOf(id).(*types.Builtin); isB {
				return w.sharedSource(st, x.Args[0]) // append may return the very same backing array
			}
		}
		if fn := calleeFunc(x); fn != nil && fn.Pkg() == pkg {
			if u := w.an.units[fn]; u != nil {
				return u.returnsShared
			}
		}
	}
	return ""
}

func (w *walker) aliasWrite(st *state, target ast.Expr, op string, pos token.Pos) {
	if !w.record || st.dead {
		return
	}
	src := w.sharedSource(st, target)
	if src == "" || !isSliceOrMap(info.TypeOf(target)) {
		return
	}
	p := posStr(pos)
	w.an.aliasWrites[p] = aliasWrite{Fn: w.u.name, Pos: p, Op: op, Source: src}
}
