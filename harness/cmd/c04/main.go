// Harness of C04 / C12: drives the REAL store code of /repo/server through its HTTP handlers
// (server.Server.GenerateRoutes) and its real start-up sequence (server.Serve) on a scratch OLLAMA_MODELS.
//
//	c04                 JSONL loop: one history per line -> one observation (state projection after every op)
//	c04 op   DIR FILE   run the single operation in FILE (JSON) on DIR, print its result (child to be traced / killed)
//	c04 serve DIR       run the real server.Serve start-up (fixBlobs, corrupt-manifest test, PruneLayers,
//	                    PruneDirectory) on DIR with an already-closed listener, then exit
//	c04 proj DIR        print the projection of DIR
//	c04 gguf            JSONL loop: {"kv":{...}} -> {"data": hex of a GGUF written by the real ggml.WriteGGUF}
//
// Only exported API of /repo is used (no overlay).
package main

import (
	"bufio"
	"bytes"
	"context"
	"crypto/sha256"
	"encoding/hex"
	"encoding/json"
	"fmt"
	"io"
	"net"
	"net/http"
	"net/http/httptest"
	"os"
	"os/exec"
	"path/filepath"
	"regexp"
	"sort"
	"strconv"
	"strings"
	"sync"
	"syscall"
	"time"

	"github.com/gin-gonic/gin"

	"github.com/ollama/ollama/fs/ggml"
	"github.com/ollama/ollama/server"

	"verifharness/hx"
)

// ---------------------------------------------------------------- fake registry (honest; serves what the case says)

type registry struct {
	mu        sync.Mutex
	manifests map[string][]byte // "ns/model:tag" (lower-cased) -> manifest JSON
	blobs     map[string][]byte // digest as spelled in the request path -> bytes
	zeros     map[string]int64  // digest -> length of an all-zero body
	chunks    map[string][][2]int64 // digest -> ranges the chunksums endpoint announces (client2 pulls)
	faults    map[string]string     // "<digest>@<first byte of the range>" -> "404" | "corrupt"
	ln        net.Listener
	log       []string
}

var reg *registry

func startRegistry() {
	if reg != nil {
		return
	}
	ln, err := net.Listen("tcp", "127.0.0.1:0")
	if err != nil {
		panic(err)
	}
	reg = &registry{manifests: map[string][]byte{}, blobs: map[string][]byte{}, zeros: map[string]int64{}, ln: ln}
	mux := http.NewServeMux()
	mux.HandleFunc("/v2/", func(w http.ResponseWriter, r *http.Request) {
		reg.mu.Lock()
		defer reg.mu.Unlock()
		p := strings.TrimPrefix(r.URL.Path, "/v2/")
		reg.log = append(reg.log, r.Method+" "+p)
		if i := strings.Index(p, "/manifests/"); i >= 0 {
			key := strings.ToLower(p[:i] + ":" + p[i+len("/manifests/"):])
			m, ok := reg.manifests[key]
			if !ok {
				http.NotFound(w, r)
				return
			}
			w.Header().Set("Content-Type", "application/vnd.docker.distribution.manifest.v2+json")
			w.Write(m)
			return
		}
		if i := strings.Index(p, "/chunksums/"); i >= 0 {
			// the chunksums endpoint of the new pull path: where to fetch the chunks, then one line per chunk
			d := p[i+len("/chunksums/"):]
			b, ok := reg.blobs[d]
			cs, cok := reg.chunks[d]
			if !ok || !cok {
				http.NotFound(w, r)
				return
			}
			w.Header().Set("Content-Location", "http://cdn.test/cdn/"+d)
			for _, c := range cs {
				sum := sha256.Sum256(b[c[0] : c[1]+1])
				fmt.Fprintf(w, "sha256:%x %d-%d\n", sum, c[0], c[1])
			}
			return
		}
		if i := strings.Index(p, "/blobs/"); i >= 0 {
			d := p[i+len("/blobs/"):]
			if _, ok := reg.blobs[d]; !ok {
				if _, zok := reg.zeros[d]; !zok {
					http.NotFound(w, r)
					return
				}
			}
			// like the real registry: redirect to a "CDN" on another host name
			http.Redirect(w, r, "http://cdn.test/cdn/"+d, http.StatusTemporaryRedirect)
			return
		}
		http.NotFound(w, r)
	})
	mux.HandleFunc("/cdn/", func(w http.ResponseWriter, r *http.Request) {
		reg.mu.Lock()
		d := strings.TrimPrefix(r.URL.Path, "/cdn/")
		reg.log = append(reg.log, r.Method+" cdn "+r.Header.Get("Range"))
		b, ok := reg.blobs[d]
		zn, zok := reg.zeros[d]
		fault := ""
		if rg := r.Header.Get("Range"); strings.HasPrefix(rg, "bytes=") {
			fault = reg.faults[d+"@"+strings.SplitN(strings.TrimPrefix(rg, "bytes="), "-", 2)[0]]
		}
		reg.mu.Unlock()
		switch fault {
		case "404":
			http.NotFound(w, r)
			return
		case "corrupt":
			// bytes of the right length that are not the bytes of the blob
			b2 := make([]byte, len(b))
			for i := range b {
				b2[i] = b[i] ^ 0x5a
			}
			b = b2
		}
		if zok {
			// a procedural body: zn zero bytes (layers of more than one download part need > 100 MB)
			http.ServeContent(w, r, "", time.Time{}, &zeroSeeker{size: zn})
			return
		}
		if !ok {
			http.NotFound(w, r)
			return
		}
		http.ServeContent(w, r, "", time.Time{}, bytes.NewReader(b))
	})
	go http.Serve(ln, mux)
	// every outgoing connection of this process goes to the fake registry, whatever the host in the model name
	tr := http.DefaultTransport.(*http.Transport)
	tr.DialContext = func(ctx context.Context, network, addr string) (net.Conn, error) {
		var d net.Dialer
		return d.DialContext(ctx, "tcp", ln.Addr().String())
	}
	tr.Proxy = nil
}

// zeroSeeker is an all-zero body of a given length
type zeroSeeker struct{ size, pos int64 }

func (z *zeroSeeker) Read(p []byte) (int, error) {
	if z.pos >= z.size {
		return 0, io.EOF
	}
	n := int64(len(p))
	if n > z.size-z.pos {
		n = z.size - z.pos
	}
	for i := int64(0); i < n; i++ {
		p[i] = 0
	}
	z.pos += n
	return int(n), nil
}

func (z *zeroSeeker) Seek(off int64, whence int) (int64, error) {
	switch whence {
	case io.SeekStart:
		z.pos = off
	case io.SeekCurrent:
		z.pos += off
	case io.SeekEnd:
		z.pos = z.size + off
	}
	return z.pos, nil
}

// ---------------------------------------------------------------- requests against the real router

type rec struct {
	*httptest.ResponseRecorder
	ch chan bool
}

func (r *rec) CloseNotify() <-chan bool { return r.ch }

var (
	router     http.Handler
	routerOnce sync.Once
)

func getRouter() http.Handler {
	routerOnce.Do(func() {
		gin.SetMode(gin.ReleaseMode)
		gin.DefaultWriter = io.Discard
		gin.DefaultErrorWriter = io.Discard
		s := &server.Server{}
		h, err := s.GenerateRoutes(nil)
		if err != nil {
			panic(err)
		}
		router = h
	})
	return router
}

func do(method, path string, body []byte) (int, string) {
	req := httptest.NewRequest(method, path, bytes.NewReader(body))
	req.Host = "127.0.0.1"
	if body != nil {
		req.Header.Set("Content-Type", "application/json")
	}
	w := &rec{httptest.NewRecorder(), make(chan bool, 1)}
	getRouter().ServeHTTP(w, req)
	return w.Code, w.Body.String()
}

// cutBody delivers the first k bytes of data and then fails the way the body of a request does whose client went away
type cutBody struct {
	data []byte
	k    int
	off  int
}

func (c *cutBody) Read(p []byte) (int, error) {
	if c.off >= c.k {
		return 0, io.ErrUnexpectedEOF
	}
	n := copy(p, c.data[c.off:c.k])
	c.off += n
	return n, nil
}

func (c *cutBody) Close() error { return nil }

// doCut: the request announces all of body, the server receives k bytes of it
func doCut(method, path string, body []byte, k int, json bool) (int, string) {
	if k > len(body) {
		k = len(body)
	}
	req := httptest.NewRequest(method, path, nil)
	req.Body = &cutBody{data: body, k: k}
	req.ContentLength = int64(len(body))
	req.Host = "127.0.0.1"
	if json {
		req.Header.Set("Content-Type", "application/json")
	}
	w := &rec{httptest.NewRecorder(), make(chan bool, 1)}
	getRouter().ServeHTTP(w, req)
	return w.Code, w.Body.String()
}

func num(c map[string]any, k string) (int, bool) {
	f, ok := c[k].(float64)
	return int(f), ok
}

func doJSON(method, path string, v any) (int, string) {
	b, _ := json.Marshal(v)
	return do(method, path, b)
}

// ---------------------------------------------------------------- operations

func str(c map[string]any, k string) string {
	s, _ := c[k].(string)
	return s
}

func runOp(dir string, op map[string]any) map[string]any {
	os.Setenv("OLLAMA_MODELS", dir)
	f := false
	res := map[string]any{}
	var code int
	var body string
	switch str(op, "op") {
	case "blob":
		data, err := hex.DecodeString(str(op, "data"))
		if err != nil {
			panic(err)
		}
		if z, ok := num(op, "zeros"); ok {
			data = append(data, make([]byte, z)...)
		}
		if k, ok := num(op, "abort"); ok {
			code, body = doCut("POST", "/api/blobs/"+str(op, "digest"), data, k, false)
		} else {
			code, body = do("POST", "/api/blobs/"+str(op, "digest"), data)
		}
	case "create":
		r := map[string]any{"model": str(op, "name")}
		if ns, _ := op["nostream"].(bool); ns {
			r["stream"] = &f
		}
		for _, k := range []string{"from", "files", "adapters", "template", "system", "license", "parameters", "messages"} {
			if v, ok := op[k]; ok && v != nil {
				r[k] = v
			}
		}
		if k, ok := num(op, "abort"); ok {
			// the JSON of the request is cut off after k bytes ("pad": a long license text makes the request long)
			if z, ok := num(op, "pad"); ok {
				r["license"] = strings.Repeat("L", z)
			}
			b, _ := json.Marshal(r)
			if k >= len(b) {
				k = len(b) - 1
			}
			code, body = doCut("POST", "/api/create", b, k, true)
		} else {
			code, body = doJSON("POST", "/api/create", r)
		}
	case "copy":
		code, body = doJSON("POST", "/api/copy", map[string]any{"source": str(op, "src"), "destination": str(op, "dst")})
	case "delete":
		code, body = doJSON("DELETE", "/api/delete", map[string]any{"model": str(op, "name")})
	case "pull":
		startRegistry()
		if rg, ok := op["registry"].(map[string]any); ok {
			reg.mu.Lock()
			reg.manifests = map[string][]byte{}
			reg.blobs = map[string][]byte{}
			reg.zeros = map[string]int64{}
			reg.chunks = map[string][][2]int64{}
			reg.faults = map[string]string{}
			if ms, ok := rg["manifests_raw"].(map[string]any); ok {
				// the bytes of the manifest as the case spells them (their hash names the manifest blob)
				for k, v := range ms {
					reg.manifests[strings.ToLower(k)] = []byte(v.(string))
				}
			}
			if cs, ok := rg["chunks"].(map[string]any); ok {
				for k, v := range cs {
					for _, c := range v.([]any) {
						cc := c.([]any)
						reg.chunks[k] = append(reg.chunks[k], [2]int64{int64(cc[0].(float64)), int64(cc[1].(float64))})
					}
				}
			}
			if fs, ok := rg["faults"].(map[string]any); ok {
				for k, v := range fs {
					reg.faults[k] = v.(string)
				}
			}
			if ms, ok := rg["manifests"].(map[string]any); ok {
				for k, v := range ms {
					b, _ := json.Marshal(v)
					reg.manifests[strings.ToLower(k)] = b
				}
			}
			if bs, ok := rg["blobs"].(map[string]any); ok {
				for k, v := range bs {
					if z, ok := strings.CutPrefix(v.(string), "zeros:"); ok {
						n, _ := strconv.ParseInt(z, 10, 64)
						reg.zeros[k] = n
						continue
					}
					b, _ := hex.DecodeString(v.(string))
					reg.blobs[k] = b
				}
			}
			reg.log = nil
			reg.mu.Unlock()
		}
		if c2, _ := op["client2"].(bool); c2 {
			// the new pull path (OLLAMA_EXPERIMENT=client2): the routes as Serve builds them with a registry client
			th, ok := num(op, "threshold")
			if !ok {
				th = 64
			}
			h, err := server.VerifClient2Routes(&server.Server{}, dir, int64(th), 1)
			if err != nil {
				panic(err)
			}
			b, _ := json.Marshal(map[string]any{"model": str(op, "name")})
			req := httptest.NewRequest("POST", "/api/pull", bytes.NewReader(b))
			req.Host = "127.0.0.1"
			req.Header.Set("Content-Type", "application/json")
			w := &rec{httptest.NewRecorder(), make(chan bool, 1)}
			h.ServeHTTP(w, req)
			code, body = w.Code, w.Body.String()
		} else {
			code, body = doJSON("POST", "/api/pull", map[string]any{"model": str(op, "name"), "insecure": true})
		}
		reg.mu.Lock()
		res["registry_log"] = append([]string{}, reg.log...)
		reg.mu.Unlock()
	case "startup":
		self, _ := os.Executable()
		cmd := exec.Command(self, "serve", dir)
		cmd.Env = append(os.Environ(), "OLLAMA_MODELS="+dir)
		for _, e := range strList(op["env"]) {
			cmd.Env = append(cmd.Env, e)
		}
		out, err := cmd.CombinedOutput()
		code = 200
		if err != nil {
			code = 500
		}
		body = tail(string(out), 600)
	case "show":
		code, body = doJSON("POST", "/api/show", map[string]any{"model": str(op, "name")})
		body = tail(body, 300)
	case "corrupt":
		// test-only helper: truncate a manifest file (models a crash between create-truncate and write)
		p := filepath.Join(dir, "manifests", filepath.FromSlash(str(op, "path")))
		if err := os.WriteFile(p, nil, 0o644); err != nil {
			code, body = 500, err.Error()
		} else {
			code = 200
		}
	case "linkdir":
		// scaffolding: a layout the code supports explicitly (PruneDirectory keeps linked directories): a host /
		// namespace / model directory below manifests/ — or blobs/ — is a symbolic link to a directory elsewhere;
		// "dangling": the link's target does not exist.  Relative targets, so that copies of the store stay self-contained.
		code = 200
		kind := str(op, "kind")
		link := filepath.Join(dir, "manifests", filepath.FromSlash(str(op, "path")))
		target := filepath.Join(dir, "linked", strings.ReplaceAll(str(op, "path"), "/", "_"))
		if kind == "blobs" {
			link = filepath.Join(dir, "blobs")
			target = filepath.Join(dir, "linkedblobs")
		}
		if _, err := os.Lstat(link); err == nil {
			code, body = 409, "exists"
			break
		}
		os.MkdirAll(filepath.Dir(link), 0o755)
		if kind != "dangling" {
			os.MkdirAll(target, 0o755)
		} else {
			os.MkdirAll(filepath.Dir(target), 0o755)
		}
		// relative to where the link physically lives (its parent may itself be reached through a link)
		parent := filepath.Dir(link)
		if rp, err := filepath.EvalSymlinks(parent); err == nil {
			parent = rp
		}
		base := dir
		if rb, err := filepath.EvalSymlinks(dir); err == nil {
			base = rb
		}
		target = filepath.Join(base, strings.TrimPrefix(target, dir))
		rel, err := filepath.Rel(parent, target)
		if err == nil {
			err = os.Symlink(rel, link)
		}
		if err != nil {
			code, body = 500, err.Error()
		}
	case "head":
		code, body = do("HEAD", "/api/blobs/"+str(op, "digest"), nil)
	case "legacy":
		// test scaffolding: make the store look like one an older version left — the named blob files get the old
		// "sha256:<hex>" spelling (if they exist), and old partial downloads "sha256:<hex>-partial" appear
		code = 200
		for _, h := range strList(op["blobs"]) {
			from := filepath.Join(dir, "blobs", "sha256-"+h)
			if _, err := os.Stat(from); err == nil {
				if err := os.Rename(from, filepath.Join(dir, "blobs", "sha256:"+h)); err != nil {
					code, body = 500, err.Error()
				}
			}
		}
		for _, h := range strList(op["partials"]) {
			os.MkdirAll(filepath.Join(dir, "blobs"), 0o755)
			if err := os.WriteFile(filepath.Join(dir, "blobs", "sha256:"+h+"-partial"), []byte("old partial download"), 0o644); err != nil {
				code, body = 500, err.Error()
			}
		}
	case "nop":
		code = 200
	default:
		panic("unknown op " + str(op, "op"))
	}
	res["code"] = code
	res["body"] = tail(body, 400)
	// streamed (NDJSON) answers: an "error" line anywhere means the operation reported failure
	if str(op, "op") == "create" || str(op, "op") == "pull" {
		var errs, sts []string
		for _, line := range strings.Split(body, "\n") {
			var m map[string]any
			if json.Unmarshal([]byte(line), &m) == nil {
				if e, ok := m["error"].(string); ok {
					errs = append(errs, tail(e, 200))
				}
				if st, ok := m["status"].(string); ok {
					sts = append(sts, st)
				}
			}
		}
		res["errors"] = errs
		res["statuses"] = sts
	}
	return res
}

func strList(v any) []string {
	l, _ := v.([]any)
	var out []string
	for _, x := range l {
		if s, ok := x.(string); ok {
			out = append(out, s)
		}
	}
	return out
}

func tail(s string, n int) string {
	if len(s) > n {
		return s[len(s)-n:]
	}
	return s
}

// ---------------------------------------------------------------- projection of the directory (independent of /repo code)

type pLayer struct {
	MediaType string `json:"mediaType"`
	Digest    string `json:"digest"`
	Size      int64  `json:"size"`
}

type pManifest struct {
	Config pLayer   `json:"config"`
	Layers []pLayer `json:"layers"`
}

func project(dir string) map[string]any {
	mans := []map[string]any{}
	inodes := map[uint64][]map[string]any{} // files of the store that share an inode (hard links)
	emptyDirs := 0
	mroot := filepath.Join(dir, "manifests")
	// the manifests tree as the server sees it: directories that are symbolic links are followed (create, copy,
	// pull, show and the `*/*/*/*` glob of Manifests work through them, PruneDirectory deliberately keeps them); the
	// links themselves are part of the state
	links := []map[string]any{}
	var walk func(abs, rel string, depth int, linked bool)
	walk = func(abs, rel string, depth int, linked bool) {
		es, err := os.ReadDir(abs)
		if err != nil || depth > 6 {
			return
		}
		if len(es) == 0 && rel != "" && !linked {
			emptyDirs++
		}
		for _, de := range es {
			p := filepath.Join(abs, de.Name())
			r := de.Name()
			if rel != "" {
				r = rel + "/" + de.Name()
			}
			info, err := os.Lstat(p)
			if err != nil {
				continue
			}
			if info.Mode()&os.ModeSymlink != 0 {
				ti, terr := os.Stat(p)
				if terr != nil {
					links = append(links, map[string]any{"path": r, "dangling": true})
					continue
				}
				if ti.IsDir() {
					links = append(links, map[string]any{"path": r, "dir": true})
					walk(p, r, depth+1, true)
					continue
				}
			}
			if info.IsDir() {
				walk(p, r, depth+1, linked)
				continue
			}
			e := map[string]any{"path": r}
			noteIdentity(e, "manifests/"+r, p, info, inodes)
			b, rerr := os.ReadFile(p)
			var m pManifest
			if rerr == nil {
				rerr = json.NewDecoder(bytes.NewReader(b)).Decode(&m)
			}
			if rerr != nil {
				e["readable"] = false
				e["len"] = len(b)
			} else {
				e["readable"] = true
				e["config"] = m.Config
				if m.Layers == nil {
					m.Layers = []pLayer{}
				}
				e["layers"] = m.Layers
			}
			mans = append(mans, e)
		}
	}
	walk(mroot, "", 0, false)
	sort.Slice(mans, func(i, j int) bool { return mans[i]["path"].(string) < mans[j]["path"].(string) })
	blobs := []map[string]any{}
	other := []string{}
	broot := filepath.Join(dir, "blobs")
	if li, err := os.Lstat(broot); err == nil && li.Mode()&os.ModeSymlink != 0 {
		links = append(links, map[string]any{"path": "blobs", "dir": true, "top": true})
	}
	if es, err := os.ReadDir(broot); err == nil {
		for _, e := range es {
			p := filepath.Join(broot, e.Name())
			if e.IsDir() {
				other = append(other, "blobs/"+e.Name()+"/")
				continue
			}
			f, err := os.Open(p)
			if err != nil {
				continue
			}
			h := sha256.New()
			n, _ := io.Copy(h, f)
			f.Close()
			be := map[string]any{"name": e.Name(), "sha": hex.EncodeToString(h.Sum(nil)), "size": n}
			if partRecordName.MatchString(e.Name()) {
				// a part record of a download: {"N":..,"Offset":..,"Size":..,"Completed":..}, rewritten in place
				var pr struct{ N, Offset, Size, Completed int64 }
				if b, err := os.ReadFile(p); err != nil || json.Unmarshal(b, &pr) != nil {
					be["part"] = "torn"
				} else {
					be["part"] = "todo"
					if pr.Completed >= pr.Size {
						be["part"] = "done"
					}
					be["part_size"] = pr.Size
				}
			}
			if li, err := os.Lstat(p); err == nil {
				noteIdentity(be, "blobs/"+e.Name(), p, li, inodes)
			}
			blobs = append(blobs, be)
		}
	}
	// aliasing is part of the store state: a file that shares its inode with other files of the store lists them
	for _, grp := range inodes {
		if len(grp) < 2 {
			continue
		}
		for _, e := range grp {
			var others []string
			for _, o := range grp {
				if o["_id"] != e["_id"] {
					others = append(others, o["_id"].(string))
				}
			}
			sort.Strings(others)
			e["linked"] = others
		}
	}
	for _, grp := range inodes {
		for _, e := range grp {
			delete(e, "_id")
		}
	}
	if es, err := os.ReadDir(dir); err == nil {
		for _, e := range es {
			if e.Name() != "blobs" && e.Name() != "manifests" && !strings.HasPrefix(e.Name(), "linked") {
				other = append(other, e.Name())
			}
		}
	}
	sort.Strings(other)
	return map[string]any{"manifests": mans, "blobs": blobs, "other": other, "empty_dirs": emptyDirs, "links": links}
}

var partRecordName = regexp.MustCompile(`-partial-[0-9]+$`)

// noteIdentity records what a directory listing cannot show by name: symbolic links and shared inodes
func noteIdentity(e map[string]any, id, p string, info os.FileInfo, inodes map[uint64][]map[string]any) {
	if info.Mode()&os.ModeSymlink != 0 {
		t, _ := os.Readlink(p)
		e["symlink"] = t
		return
	}
	if st, ok := info.Sys().(*syscall.Stat_t); ok {
		if st.Nlink > 1 {
			e["nlink"] = st.Nlink
		}
		e["_id"] = id
		inodes[st.Ino] = append(inodes[st.Ino], e)
	}
}

// the API's own view: what is listed, and whether every listed model can be shown
func apiView(dir string) map[string]any {
	os.Setenv("OLLAMA_MODELS", dir)
	code, body := do("GET", "/api/tags", nil)
	out := map[string]any{"code": code}
	var lr struct {
		Models []struct {
			Name string `json:"name"`
			Size int64  `json:"size"`
		} `json:"models"`
	}
	if err := json.Unmarshal([]byte(body), &lr); err != nil {
		out["error"] = err.Error()
		return out
	}
	l := []map[string]any{}
	for _, m := range lr.Models {
		sc, sb := doJSON("POST", "/api/show", map[string]any{"model": m.Name})
		e := map[string]any{"name": m.Name, "size": m.Size, "show": sc}
		if sc != 200 {
			e["show_body"] = tail(sb, 200)
		}
		l = append(l, e)
	}
	sort.Slice(l, func(i, j int) bool { return l[i]["name"].(string) < l[j]["name"].(string) })
	out["listed"] = l
	return out
}

// ---------------------------------------------------------------- modes

func history(c map[string]any) any {
	dir := str(c, "dir")
	if dir == "" {
		d, err := os.MkdirTemp("", "c04-")
		if err != nil {
			panic(err)
		}
		dir = d
		if keep, _ := c["keep"].(bool); !keep {
			defer os.RemoveAll(dir)
		}
	}
	ops, _ := c["ops"].([]any)
	obs := []any{}
	noapi, _ := c["noapi"].(bool)
	for _, o := range ops {
		op := o.(map[string]any)
		r := hx.Guard(func() any { return runOp(dir, op) }).(map[string]any)
		r["state"] = project(dir)
		if !noapi {
			r["api"] = hx.Guard(func() any { return apiView(dir) })
		}
		obs = append(obs, r)
	}
	return map[string]any{"obs": obs, "dir": dir}
}

// the server code prints to os.Stdout (setMessages); keep the protocol stream clean
var realStdout = os.Stdout

func loop(f func(c map[string]any) any) {
	sc := bufio.NewScanner(os.Stdin)
	sc.Buffer(make([]byte, 1<<20), 1<<30)
	w := bufio.NewWriter(realStdout)
	defer w.Flush()
	enc := json.NewEncoder(w)
	for sc.Scan() {
		line := sc.Bytes()
		if len(line) == 0 {
			continue
		}
		var c map[string]any
		if err := json.Unmarshal(line, &c); err != nil {
			enc.Encode(map[string]any{"harness_error": err.Error()})
			continue
		}
		enc.Encode(hx.Guard(func() any { return f(c) }))
		w.Flush()
	}
}

func main() {
	os.Stdout = os.Stderr
	if len(os.Args) >= 3 && os.Args[1] == "serve" {
		os.Setenv("OLLAMA_MODELS", os.Args[2])
		ln, err := net.Listen("tcp", "127.0.0.1:0")
		if err != nil {
			fmt.Println("listen:", err)
			os.Exit(3)
		}
		ln.Close() // Serve runs its whole start-up sequence, then fails in Accept
		err = server.Serve(ln)
		fmt.Println("serve returned:", err)
		if err != nil && strings.Contains(err.Error(), "use of closed network connection") {
			os.Exit(0)
		}
		os.Exit(1)
	}
	if len(os.Args) >= 4 && os.Args[1] == "op" {
		b, err := os.ReadFile(os.Args[3])
		if err != nil {
			panic(err)
		}
		var grp struct {
			Ops []map[string]any `json:"ops"`
		}
		if err := json.Unmarshal(b, &grp); err != nil {
			panic(err)
		}
		getRouter()
		for _, op := range grp.Ops {
			if str(op, "op") == "pull" {
				startRegistry()
			}
		}
		// marker system calls for the tracer: mkdir of a path that never exists
		os.Mkdir("/nonexistent-c04-marker/begin", 0o755)
		res := []any{}
		for _, op := range grp.Ops {
			res = append(res, hx.Guard(func() any { return runOp(os.Args[2], op) }))
		}
		os.Mkdir("/nonexistent-c04-marker/end", 0o755)
		json.NewEncoder(realStdout).Encode(res)
		return
	}
	if len(os.Args) >= 3 && os.Args[1] == "proj" {
		// read-only: the API view is left out on purpose (GET /api/tags creates the manifests directory)
		json.NewEncoder(realStdout).Encode(map[string]any{"state": project(os.Args[2])})
		return
	}
	if len(os.Args) >= 3 && os.Args[1] == "projapi" {
		json.NewEncoder(realStdout).Encode(map[string]any{"state": project(os.Args[2]), "api": hx.Guard(func() any { return apiView(os.Args[2]) })})
		return
	}
	if len(os.Args) >= 2 && os.Args[1] == "gguf" {
		loop(func(c map[string]any) any {
			kv := ggml.KV{}
			if m, ok := c["kv"].(map[string]any); ok {
				for k, v := range m {
					switch x := v.(type) {
					case float64:
						kv[k] = uint32(x)
					default:
						kv[k] = v
					}
				}
			}
			f, err := os.CreateTemp("", "c04gguf")
			if err != nil {
				panic(err)
			}
			defer os.Remove(f.Name())
			defer f.Close()
			if err := ggml.WriteGGUF(f, kv, nil); err != nil {
				panic(err)
			}
			b, _ := os.ReadFile(f.Name())
			return map[string]any{"data": hex.EncodeToString(b)}
		})
		return
	}
	loop(history)
}
