// C13 harness: runs the real name / digest / path functions of /repo on the cases given on stdin.
//
// Every observation carries, next to the raw outputs that the Coq model is compared with, the auxiliary
// evaluations the monitor needs (filepath.Rel of a derived path against the cleaned root, second parses for the
// round trips, the other parser's reading of a printed name).  Those are computed here with the real functions;
// the judgement itself is made in props/c13.py.
package main

import (
	"bytes"
	"crypto/sha256"
	"encoding/hex"
	"encoding/json"
	"errors"
	"fmt"
	"io"
	"io/fs"
	"net"
	"net/http"
	"net/http/httptest"
	"os"
	"path/filepath"
	"sort"
	"strings"
	"sync"

	"github.com/gin-gonic/gin"
	"github.com/ollama/ollama/fs/ggml"
	"github.com/ollama/ollama/server"
	"github.com/ollama/ollama/types/model"
	"verifharness/hx"
)

func parts(n model.Name) []string { return hx.HexList([]string{n.Host, n.Namespace, n.Model, n.Tag}) }
func nparts(n server.VerifC13Name) []string {
	return hx.HexList([]string{n.H, n.N, n.M, n.T})
}

// rel reports filepath.Rel(Clean(root), p) and whether p is already clean.
func rel(root, p string) map[string]any {
	base := filepath.Clean(root)
	r, err := filepath.Rel(base, p)
	o := map[string]any{"base": hx.Hex(base), "clean": filepath.Clean(p) == p}
	if err != nil {
		o["err"] = err.Error()
	} else {
		o["rel"] = hx.Hex(r)
	}
	return o
}

func filepathOf(n model.Name) (code int, fp string) {
	defer func() {
		if r := recover(); r != nil {
			code, fp = 9, ""
		}
	}()
	return 0, n.Filepath()
}

// ---------------------------------------------------------------- the real router (legacy handlers)

type rec struct {
	*httptest.ResponseRecorder
	ch chan bool
}

func (r *rec) CloseNotify() <-chan bool { return r.ch }

var (
	router     http.Handler
	routerOnce sync.Once
	ggufOnce   sync.Once
	ggufData   []byte
)

func getRouter() http.Handler {
	routerOnce.Do(func() {
		gin.SetMode(gin.ReleaseMode)
		gin.DefaultWriter = io.Discard
		gin.DefaultErrorWriter = io.Discard
		s := &server.Server{}
		h, err := s.GenerateRoutes(nil)
		if err != nil {
			panic(err)
		}
		router = h
	})
	return router
}

func doJSON(method, path string, v any) (int, string) {
	b, _ := json.Marshal(v)
	req := httptest.NewRequest(method, path, bytes.NewReader(b))
	req.Host = "127.0.0.1"
	req.Header.Set("Content-Type", "application/json")
	w := &rec{httptest.NewRecorder(), make(chan bool, 1)}
	getRouter().ServeHTTP(w, req)
	return w.Code, w.Body.String()
}

// tinyGGUF: a model file written by the real ggml.WriteGGUF (no tensors)
func tinyGGUF() []byte {
	ggufOnce.Do(func() {
		f, err := os.CreateTemp("", "c13gguf")
		if err != nil {
			panic(err)
		}
		defer os.Remove(f.Name())
		defer f.Close()
		if err := ggml.WriteGGUF(f, ggml.KV{"general.architecture": "llama"}, nil); err != nil {
			panic(err)
		}
		ggufData, _ = os.ReadFile(f.Name())
	})
	return ggufData
}

func putBlob(root string, data []byte) map[string]any {
	sum := sha256.Sum256(data)
	h := hex.EncodeToString(sum[:])
	os.MkdirAll(filepath.Join(root, "blobs"), 0o755)
	os.WriteFile(filepath.Join(root, "blobs", "sha256-"+h), data, 0o644)
	return map[string]any{"digest": "sha256:" + h, "size": len(data)}
}

// seedModel writes a complete model (GGUF layer, system layer "S<id>", config) under the name as typed
func seedModel(root string, q []string, id int) error {
	layer := func(mt string, data []byte) map[string]any {
		l := putBlob(root, data)
		l["mediaType"] = mt
		return l
	}
	m := map[string]any{
		"schemaVersion": 2,
		"mediaType":     "application/vnd.docker.distribution.manifest.v2+json",
		"config":        layer("application/vnd.docker.container.image.v1+json", []byte(`{"model_format":"gguf","model_family":"llama","model_families":["llama"]}`)),
		"layers": []any{
			layer("application/vnd.ollama.image.model", tinyGGUF()),
			layer("application/vnd.ollama.image.system", []byte(fmt.Sprintf("S%d", id))),
		},
	}
	p := filepath.Join(root, "manifests", q[0], q[1], q[2], q[3])
	if err := os.MkdirAll(filepath.Dir(p), 0o755); err != nil {
		return err
	}
	b, _ := json.Marshal(m)
	return os.WriteFile(p, b, 0o644)
}

// storeListing: every manifest file at depth 4 with the identity (system prompt) of its model
func storeListing(root string) []any {
	out := []any{}
	// the root may contain glob metacharacters: list through a DirFS, never through a pattern built from the root
	matches, _ := fs.Glob(os.DirFS(root), "manifests/*/*/*/*")
	sort.Strings(matches)
	for _, m := range matches {
		p := root + "/" + m
		fi, err := os.Stat(p)
		if err != nil || fi.IsDir() {
			continue
		}
		rel := strings.TrimPrefix(m, "manifests/")
		id := -1
		var m struct {
			Layers []struct {
				MediaType string `json:"mediaType"`
				Digest    string `json:"digest"`
			} `json:"layers"`
		}
		if b, err := os.ReadFile(p); err == nil && json.Unmarshal(b, &m) == nil {
			for _, l := range m.Layers {
				if l.MediaType == "application/vnd.ollama.image.system" {
					if d, err := os.ReadFile(filepath.Join(root, "blobs", strings.Replace(l.Digest, ":", "-", 1))); err == nil {
						fmt.Sscanf(string(d), "S%d", &id)
					}
				}
			}
		}
		out = append(out, map[string]any{"parts": hx.HexList(strings.Split(rel, "/")), "id": id})
	}
	return out
}

// scratchDir makes a fresh directory below the working directory whose last element is the given name ("" = plain)
func scratchDir(c map[string]any, prefix string) (top, dir string, err error) {
	top, err = os.MkdirTemp(".", prefix)
	if err != nil {
		return "", "", err
	}
	dir = top
	if v, ok := c["dirname"]; ok && hx.Unhex(v) != "" {
		dir = top + string(filepath.Separator) + hx.Unhex(v) // not Join: keep a trailing dot or the like as typed
		if err := os.MkdirAll(dir, 0o777); err != nil {
			return top, "", err
		}
	}
	return top, dir, nil
}

// symDirs makes the given directories below root (relative, in order) symbolic links to fresh real directories kept
// elsewhere below top ("models on another volume")
func symDirs(cwd, top, root string, c map[string]any) error {
	for i, rel := range hx.UnhexList(c["symdirs"]) {
		target := filepath.Join(cwd, top, fmt.Sprintf("vol%d", i))
		if err := os.MkdirAll(target, 0o777); err != nil {
			return err
		}
		p := root + "/" + rel
		if err := os.MkdirAll(filepath.Dir(p), 0o777); err != nil {
			return err
		}
		if err := os.Symlink(target, p); err != nil {
			return err
		}
	}
	return nil
}

// ---------------------------------------------------------------- clean-up paths (C13 cleanup)

// a registry that serves one manifest per "ns/model:tag"; the blobs are expected to be cached already
var (
	regOnce      sync.Once
	regAddr      string
	regMu        sync.Mutex
	regManifests = map[string][]byte{}
)

func startRegistry() string {
	regOnce.Do(func() {
		ln, err := net.Listen("tcp", "127.0.0.1:0")
		if err != nil {
			panic(err)
		}
		regAddr = ln.Addr().String()
		mux := http.NewServeMux()
		mux.HandleFunc("/v2/", func(w http.ResponseWriter, r *http.Request) {
			p := strings.TrimPrefix(r.URL.Path, "/v2/")
			if i := strings.Index(p, "/manifests/"); i >= 0 {
				regMu.Lock()
				m, ok := regManifests[strings.ToLower(p[:i]+":"+p[i+len("/manifests/"):])]
				regMu.Unlock()
				if ok {
					w.Header().Set("Content-Type", "application/vnd.docker.distribution.manifest.v2+json")
					w.Write(m)
					return
				}
			}
			http.NotFound(w, r)
		})
		go http.Serve(ln, mux)
	})
	return regAddr
}

// snapshot: every file (not directory) below top, relative path -> sha256 ("L:<target>" for symbolic links)
func snapshot(top string) map[string]string {
	out := map[string]string{}
	filepath.Walk(top, func(p string, info os.FileInfo, err error) error {
		if err != nil || info.IsDir() {
			return nil
		}
		rel, _ := filepath.Rel(top, p)
		if info.Mode()&os.ModeSymlink != 0 {
			t, _ := os.Readlink(p)
			out[rel] = "L:" + t
			return nil
		}
		b, _ := os.ReadFile(p)
		sum := sha256.Sum256(b)
		out[rel] = hex.EncodeToString(sum[:8])
		return nil
	})
	return out
}

func cleanupOp(cwd string, c map[string]any) any {
	top, err := os.MkdirTemp(".", "cl")
	if err != nil {
		return map[string]any{"harness_error": err.Error()}
	}
	defer os.RemoveAll(top)
	topAbs := filepath.Join(cwd, top)
	home := filepath.Join(topAbs, "home")
	root := filepath.Join(home, "models")
	os.Setenv("OLLAMA_MODELS", root)
	os.Unsetenv("OLLAMA_NOPRUNE")
	addr := startRegistry()
	// sentinels: a key next to the models directory, files outside, another model, a key inside the store
	os.MkdirAll(filepath.Join(home, "dir"), 0o755)
	os.MkdirAll(root, 0o755)
	os.WriteFile(filepath.Join(home, "id_ed25519"), []byte("PRIVATE KEY"), 0o600)
	os.WriteFile(filepath.Join(home, "dir", "x"), []byte("x"), 0o644)
	os.WriteFile(filepath.Join(topAbs, "outside.txt"), []byte("outside"), 0o644)
	os.WriteFile(filepath.Join(root, "id_ed25519"), []byte("PRIVATE KEY 2"), 0o600)
	victim := []string{"registry.ollama.ai", "library", "victim", "latest"}
	if err := seedModel(root, victim, 1); err != nil {
		return map[string]any{"harness_error": err.Error()}
	}
	// extra blobs: one referenced by nobody (legitimately removable), one with an odd name
	orphan := putBlob(root, []byte("orphan"))
	// the target model: a manifest on disk whose digests are the given (hostile) strings
	target := []string{addr, "n", "target", "t"}
	layers := []any{}
	for _, d := range hx.UnhexList(c["digests"]) {
		layers = append(layers, map[string]any{"mediaType": "application/vnd.ollama.image.model", "digest": d, "size": 1})
	}
	if b, _ := c["with_orphan"].(bool); b {
		layers = append(layers, map[string]any{"mediaType": "application/vnd.ollama.image.license", "digest": orphan["digest"], "size": orphan["size"]})
	}
	man := map[string]any{"schemaVersion": 2, "mediaType": "application/vnd.docker.distribution.manifest.v2+json",
		"config": map[string]any{"mediaType": "application/vnd.docker.container.image.v1+json", "digest": hx.Unhex(c["config"]), "size": 1},
		"layers": layers}
	tp := filepath.Join(root, "manifests", target[0], target[1], target[2], target[3])
	os.MkdirAll(filepath.Dir(tp), 0o755)
	mb, _ := json.Marshal(man)
	os.WriteFile(tp, mb, 0o644)
	tname := target[0] + "/" + target[1] + "/" + target[2] + ":" + target[3]

	before := snapshot(topAbs)
	var blobNames []string
	if es, err := os.ReadDir(filepath.Join(root, "blobs")); err == nil {
		for _, e := range es {
			blobNames = append(blobNames, e.Name())
		}
	}
	o := map[string]any{"root": hx.Hex(root), "target": hx.Hex(strings.TrimPrefix(tp, topAbs+"/")), "blobs_before": hx.HexList(blobNames)}
	f := false
	var code int
	var body string
	switch c["action"] {
	case "delete":
		code, body = doJSON("DELETE", "/api/delete", map[string]any{"model": tname})
	case "create":
		code, body = doJSON("POST", "/api/create", map[string]any{"model": tname, "from": "victim", "system": "S9", "stream": &f})
	case "prune":
		code = 200
		if err := server.PruneLayers(); err != nil {
			code, body = 500, err.Error()
		}
	case "pull":
		// the registry publishes the victim's (cached) layers under the target's name: nothing is downloaded, the old
		// manifest's digests become "unused layers"
		vb, _ := os.ReadFile(filepath.Join(root, "manifests", victim[0], victim[1], victim[2], victim[3]))
		regMu.Lock()
		regManifests["n/target:t"] = vb
		regMu.Unlock()
		code, body = doJSON("POST", "/api/pull", map[string]any{"model": "http://" + tname, "insecure": true, "stream": &f})
	}
	after := snapshot(topAbs)
	removed, created, changed := []string{}, []string{}, []string{}
	for k, v := range before {
		if w, ok := after[k]; !ok {
			removed = append(removed, k)
		} else if w != v {
			changed = append(changed, k)
		}
	}
	for k := range after {
		if _, ok := before[k]; !ok {
			created = append(created, k)
		}
	}
	sort.Strings(removed)
	sort.Strings(created)
	sort.Strings(changed)
	if len(body) > 300 {
		body = body[len(body)-300:]
	}
	_, blobsErr := os.Stat(filepath.Join(root, "blobs"))
	o["code"], o["body"], o["removed"], o["created"], o["changed"], o["blobsdir"] = code, body, hx.HexList(removed), hx.HexList(created), hx.HexList(changed), blobsErr == nil
	return o
}

func main() {
	cwd, _ := os.Getwd()
	// envconfig.Models() falls back to $HOME/.ollama/models for an empty OLLAMA_MODELS and GetBlobsPath creates
	// directories: keep every side effect below the scratch working directory.
	os.Setenv("HOME", cwd)
	hx.Loop(func(c map[string]any) any {
		switch c["op"] {
		case "mvalid":
			return map[string]any{"r": model.VerifC13IsValidPart(hx.Int(c["kind"]), hx.Unhex(c["s"]))}
		case "nvalid":
			return map[string]any{"r": server.VerifC13NamesValidPart(hx.Int(c["kind"]), hx.Unhex(c["s"]))}
		case "mvalid_tab", "nvalid_tab":
			// the table of one kind: prefix + every byte value
			kind, prefix := hx.Int(c["kind"]), hx.Unhex(c["prefix"])
			r := make([]bool, 256)
			for b := 0; b < 256; b++ {
				s := prefix + string([]byte{byte(b)})
				if c["op"] == "mvalid_tab" {
					r[b] = model.VerifC13IsValidPart(kind, s)
				} else {
					r[b] = server.VerifC13NamesValidPart(kind, s)
				}
			}
			return map[string]any{"r": r}
		case "mparse":
			s := hx.Unhex(c["s"])
			b := model.ParseNameBare(s)
			n := model.ParseName(s)
			code, fp := filepathOf(n)
			o := map[string]any{"bare": parts(b), "full": parts(n), "valid": n.IsValid(), "str": hx.Hex(n.String()),
				"short": hx.Hex(n.DisplayShortest()), "fpcode": code, "fp": hx.Hex(fp)}
			if n.IsValid() {
				// monitor aids: print/parse round trip, the other parser, the short form, the relative path form
				o["rt"] = parts(model.ParseName(n.String()))
				x := server.VerifC13NamesParse(n.String())
				o["cross"] = nparts(x)
				o["cross_fq"] = x.FQ
				sh := model.ParseName(n.DisplayShortest())
				o["short_rt"] = parts(sh)
				o["short_fold"] = sh.EqualFold(n)
				o["fp_rt"] = parts(model.ParseNameFromFilepath(fp))
				o["fp_rel"] = rel(".", fp)
			}
			return o
		case "mfromfp":
			s := hx.Unhex(c["s"])
			n := model.ParseNameFromFilepath(s)
			o := map[string]any{"parts": parts(n), "fq": n.IsFullyQualified()}
			if n.IsFullyQualified() {
				o["fp"] = hx.Hex(n.Filepath())
			}
			return o
		case "equalfold":
			return map[string]any{"r": strings.EqualFold(hx.Unhex(c["a"]), hx.Unhex(c["u"]))}
		case "nparse":
			s := hx.Unhex(c["s"])
			n := server.VerifC13NamesParse(s)
			o := map[string]any{"parts": nparts(n), "valid": n.Valid, "fq": n.FQ, "str": hx.Hex(n.Str)}
			if n.Valid {
				o["rt"] = nparts(server.VerifC13NamesParse(n.Str))
			}
			if n.FQ {
				m := model.ParseName(n.Str)
				o["cross"] = parts(m)
				o["cross_fq"] = m.IsFullyQualified()
				p, err := server.VerifC13NameToPath(n.Str)
				o["path_ok"] = err == nil
				o["path_rel"] = rel(".", p)
			}
			return o
		case "mp":
			root, s := hx.Unhex(c["root"]), hx.Unhex(c["s"])
			if root == "" {
				return map[string]any{"harness_error": "empty root (envconfig.Models() would fall back to $HOME)"}
			}
			os.Setenv("OLLAMA_MODELS", root)
			mp := server.ParseModelPath(s)
			o := map[string]any{"scheme": hx.Hex(mp.ProtocolScheme), "parts": hx.HexList([]string{mp.Registry, mp.Namespace, mp.Repository, mp.Tag})}
			p, err := mp.GetManifestPath()
			switch {
			case err == nil:
				o["code"], o["path"], o["rel"] = 0, hx.Hex(p), rel(root, p)
			case errors.Is(err, fs.ErrNotExist):
				o["code"], o["path"] = 1, ""
			default:
				o["code"], o["path"], o["err"] = 8, "", err.Error()
			}
			return o
		case "blobspath":
			root, d := hx.Unhex(c["root"]), hx.Unhex(c["d"])
			if root == "" || filepath.IsAbs(root) || strings.HasPrefix(filepath.Clean(root), "..") {
				return map[string]any{"harness_error": "blobspath root must be a non-empty relative path below the scratch directory"}
			}
			os.Setenv("OLLAMA_MODELS", root)
			p, err := server.GetBlobsPath(d)
			o := map[string]any{}
			switch {
			case err == nil:
				o["code"], o["path"], o["rel"] = 0, hx.Hex(p), rel(root, p)
			case errors.Is(err, server.ErrInvalidDigestFormat):
				o["code"], o["path"] = 2, ""
			default:
				o["code"], o["path"], o["err"] = 8, "", err.Error()
			}
			return o
		case "digest":
			dir, s := hx.Unhex(c["dir"]), hx.Unhex(c["s"])
			sum, file, err := server.VerifC13ParseDigest(dir, s)
			o := map[string]any{"cwd": hx.Hex(cwd)}
			if err != nil {
				o["code"], o["sum"], o["file"] = 2, "", ""
				return o
			}
			abs, _ := filepath.Abs(dir)
			o["code"], o["sum"], o["file"], o["rel"] = 0, hex.EncodeToString(sum[:]), hx.Hex(file), rel(abs, file)
			return o
		case "nametopath":
			p, err := server.VerifC13NameToPath(hx.Unhex(c["s"]))
			if err != nil {
				return map[string]any{"code": 3, "path": ""}
			}
			return map[string]any{"code": 0, "path": hx.Hex(p), "rel": rel(".", p)}
		case "manifestpath":
			// build a real cache directory with the given files, then resolve every name against it
			top, dir, err := scratchDir(c, "mp")
			if err != nil {
				return map[string]any{"harness_error": err.Error()}
			}
			defer os.RemoveAll(top)
			if b, _ := c["absdir"].(bool); b {
				dir = cwd + string(filepath.Separator) + dir
			}
			if err := symDirs(cwd, top, dir, c); err != nil {
				return map[string]any{"harness_error": err.Error()}
			}
			for _, f := range hx.UnhexList(c["files"]) {
				p := filepath.Join(dir, f)
				if err := os.MkdirAll(filepath.Dir(p), 0o777); err != nil {
					return map[string]any{"harness_error": err.Error()}
				}
				if err := os.WriteFile(p, []byte("{}"), 0o666); err != nil {
					return map[string]any{"harness_error": err.Error()}
				}
			}
			disk, _ := fs.Glob(os.DirFS(dir), "manifests/*/*/*/*")
			links, err := server.VerifC13Links(dir)
			if err != nil {
				return map[string]any{"dir": hx.Hex(dir), "disk": hx.HexList(disk), "links_error": err.Error()}
			}
			var res []any
			for _, name := range hx.UnhexList(c["names"]) {
				p, err := server.VerifC13ManifestPath(dir, name)
				if err != nil {
					res = append(res, map[string]any{"code": 3, "path": ""})
					continue
				}
				_, statErr := os.Stat(p)
				res = append(res, map[string]any{"code": 0, "path": hx.Hex(p), "rel": rel(dir, p), "exists": statErr == nil})
			}
			return map[string]any{"dir": hx.Hex(dir), "links": hx.HexList(links), "disk": hx.HexList(disk), "res": res}
		case "existing":
			// a real store below the scratch directory; getExistingName iterates over a Go map, so every query is
			// repeated and the set of distinct answers is reported
			top, dir, err := scratchDir(c, "store")
			if err != nil {
				return map[string]any{"harness_error": err.Error()}
			}
			defer os.RemoveAll(top)
			abs := cwd + string(filepath.Separator) + dir
			os.Setenv("OLLAMA_MODELS", abs)
			if err := symDirs(cwd, top, abs, c); err != nil {
				return map[string]any{"harness_error": err.Error()}
			}
			for _, x := range c["stored"].([]any) {
				q := hx.UnhexList(x)
				p := filepath.Join(abs, "manifests", q[0], q[1], q[2], q[3])
				if err := os.MkdirAll(filepath.Dir(p), 0o777); err != nil {
					return map[string]any{"harness_error": err.Error()}
				}
				if err := os.WriteFile(p, []byte("{}"), 0o666); err != nil {
					return map[string]any{"harness_error": err.Error()}
				}
			}
			// what is stored, listed independently of the code under test (and of the directory's name)
			listed := [][]string{}
			for _, e := range storeListing(abs) {
				listed = append(listed, e.(map[string]any)["parts"].([]string))
			}
			reps := hx.Int(c["reps"])
			var res []any
			for _, x := range c["queries"].([]any) {
				q := hx.UnhexList(x)
				n := model.Name{Host: q[0], Namespace: q[1], Model: q[2], Tag: q[3]}
				seen := map[string]bool{}
				distinct := [][]string{}
				for i := 0; i < reps; i++ {
					r, err := server.VerifC13GetExistingName(n)
					if err != nil {
						return map[string]any{"listed": listed, "lookup_error": err.Error()}
					}
					if k := r.String() + "|" + r.Host + "|" + r.Tag; !seen[k] {
						seen[k] = true
						distinct = append(distinct, parts(r))
					}
				}
				res = append(res, distinct)
			}
			return map[string]any{"listed": listed, "res": res}
		case "foldpair":
			s1, s2 := hx.Unhex(c["s1"]), hx.Unhex(c["s2"])
			m1, m2 := model.ParseName(s1), model.ParseName(s2)
			n1, n2 := server.VerifC13NamesParse(s1), server.VerifC13NamesParse(s2)
			return map[string]any{"v1": m1.IsValid(), "v2": m2.IsValid(), "ef": m1.EqualFold(m2),
				"nv1": n1.Valid, "nv2": n2.Valid, "nfq1": n1.FQ, "nfq2": n2.FQ}
		case "cachehist":
			top, dir, err := scratchDir(c, "ch")
			if err != nil {
				return map[string]any{"harness_error": err.Error()}
			}
			defer os.RemoveAll(top)
			if b, _ := c["absdir"].(bool); b {
				dir = cwd + string(filepath.Separator) + dir
			}
			if err := symDirs(cwd, top, dir, c); err != nil {
				return map[string]any{"harness_error": err.Error()}
			}
			var ops []server.VerifC13HOp
			for _, x := range c["ops"].([]any) {
				m := x.(map[string]any)
				op := server.VerifC13HOp{Op: m["op"].(string)}
				if v, ok := m["name"]; ok {
					op.Name = hx.Unhex(v)
				}
				if v, ok := m["path"]; ok {
					op.Path = hx.Unhex(v)
				}
				if v, ok := m["id"]; ok {
					op.Data = []byte(fmt.Sprintf("D%d", hx.Int(v)))
				}
				ops = append(ops, op)
			}
			obs, err := server.VerifC13History(dir, ops)
			if err != nil {
				return map[string]any{"harness_error": err.Error()}
			}
			var res []any
			for _, o := range obs {
				res = append(res, map[string]any{"code": o.Code, "err": o.Err, "digest": o.Digest, "ok": o.Ok, "links": hx.HexList(o.Links), "sums": o.Sums})
			}
			return map[string]any{"res": res}
		case "handlers":
			top, dir, err := scratchDir(c, "hs")
			if err != nil {
				return map[string]any{"harness_error": err.Error()}
			}
			defer os.RemoveAll(top)
			root := cwd + string(filepath.Separator) + dir
			os.Setenv("OLLAMA_MODELS", root)
			if err := symDirs(cwd, top, root, c); err != nil {
				return map[string]any{"harness_error": err.Error()}
			}
			for _, x := range c["seed"].([]any) {
				m := x.(map[string]any)
				if err := seedModel(root, hx.UnhexList(m["parts"]), hx.Int(m["id"])); err != nil {
					return map[string]any{"harness_error": err.Error()}
				}
			}
			f := false
			var res []any
			for _, x := range c["ops"].([]any) {
				m := x.(map[string]any)
				o := map[string]any{"id": -1}
				var code int
				var body string
				switch m["op"] {
				case "show":
					code, body = doJSON("POST", "/api/show", map[string]any{"model": hx.Unhex(m["name"])})
					var r struct {
						System string `json:"system"`
					}
					if code == 200 && json.Unmarshal([]byte(body), &r) == nil {
						id := -1
						fmt.Sscanf(r.System, "S%d", &id)
						o["id"] = id
					}
				case "list":
					code, body = doJSON("GET", "/api/tags", nil)
					var r struct {
						Models []struct {
							Name string `json:"name"`
						} `json:"models"`
					}
					if code == 200 && json.Unmarshal([]byte(body), &r) == nil {
						o["id"] = len(r.Models)
						var names []string
						for _, m := range r.Models {
							names = append(names, m.Name)
						}
						o["names"] = hx.HexList(names)
					}
					body = ""
				case "delete":
					code, body = doJSON("DELETE", "/api/delete", map[string]any{"model": hx.Unhex(m["name"])})
				case "copy":
					code, body = doJSON("POST", "/api/copy", map[string]any{"source": hx.Unhex(m["src"]), "destination": hx.Unhex(m["dst"])})
				case "create":
					code, body = doJSON("POST", "/api/create", map[string]any{"model": hx.Unhex(m["name"]), "from": hx.Unhex(m["from"]),
						"system": fmt.Sprintf("S%d", hx.Int(m["id"])), "stream": &f})
				}
				o["code"] = code
				o["ok"] = code == 200 && !strings.Contains(body, `"error"`)
				if len(body) > 300 {
					body = body[len(body)-300:]
				}
				o["body"] = body
				o["store"] = storeListing(root)
				res = append(res, o)
			}
			return map[string]any{"res": res}
		case "cleanup":
			return cleanupOp(cwd, c)
		case "splitnd":
			a, b := server.VerifC13SplitNameDigest(hx.Unhex(c["s"]))
			return map[string]any{"name": hx.Hex(a), "digest": hx.Hex(b)}
		case "ext":
			mask, s := hx.Unhex(c["mask"]), hx.Unhex(c["s"])
			a, b, d := server.VerifC13SplitExtended(s)
			o := map[string]any{"sp": hx.HexList([]string{a, b, d}), "complete": hx.Hex(server.VerifC13CompleteName(s))}
			e := server.VerifC13ParseNameExtended(mask, s)
			switch {
			case e.Err == "":
				o["code"], o["scheme"], o["parts"], o["sum"] = 0, hx.Hex(e.Scheme), hx.HexList([]string{e.H, e.N, e.M, e.T}), hex.EncodeToString(e.Sum[:])
				if e.M != "" {
					// monitor aid: the name the client will link is printed and parsed again by the cache
					str := server.VerifC13NamesParse(e.H + "/" + e.N + "/" + e.M + ":" + e.T)
					o["link"] = nparts(str)
					o["link_fq"] = str.FQ
				}
			case strings.HasPrefix(e.Err, "name:unsupported scheme"):
				o["code"] = 4
			case strings.HasPrefix(e.Err, "name:invalid digest"):
				o["code"] = 2
			case strings.HasPrefix(e.Err, "name:"):
				o["code"] = 3
			default:
				o["code"], o["err"] = 8, e.Err
			}
			return o
		case "clean":
			return map[string]any{"out": hx.Hex(filepath.Clean(hx.Unhex(c["p"])))}
		case "join":
			return map[string]any{"out": hx.Hex(filepath.Join(hx.UnhexList(c["elems"])...))}
		case "abs":
			p, err := filepath.Abs(hx.Unhex(c["p"]))
			if err != nil {
				return map[string]any{"harness_error": err.Error()}
			}
			return map[string]any{"out": hx.Hex(p), "cwd": hx.Hex(cwd)}
		}
		return map[string]any{"harness_error": "unknown op"}
	})
}
