// C20 harness: runs the real tokenizers of /repo/model (BytePairEncoding, SentencePieceModel) on the
// cases given on stdin.  Vocabularies are defined by "vocab"/"llama" lines and referred to by name.
package main

import (
	"bufio"
	"encoding/json"
	"fmt"
	"os"
	"path/filepath"
	"slices"
	"strings"
	"time"

	"github.com/dlclark/regexp2"
	"github.com/ollama/ollama/fs"
	"github.com/ollama/ollama/model"
	"github.com/ollama/ollama/model/models/gemma2"
	"github.com/ollama/ollama/model/models/gemma3"
	"github.com/ollama/ollama/model/models/llama"
	"github.com/ollama/ollama/model/models/mistral3"
	"github.com/ollama/ollama/model/models/mllama"
	"verifharness/hx"
)

// fakeConfig is GGUF metadata (fs.Config) backed by a map, with ggml.KV's key rule: keys that do not start with
// "tokenizer." or "general." are prefixed with the architecture.  A missing key or a value of another type yields the
// caller's default, as ggml.KV does.
type fakeConfig struct {
	arch string
	kv   map[string]any
}

func cfgGet[T any](c fakeConfig, key string, def []T) T {
	if !strings.HasPrefix(key, "tokenizer.") && !strings.HasPrefix(key, "general.") {
		key = c.arch + "." + key
	}
	if v, ok := c.kv[key]; ok {
		if t, ok := v.(T); ok {
			return t
		}
	}
	var zero T
	if len(def) > 0 {
		return def[0]
	}
	return zero
}

func (c fakeConfig) Architecture() string                    { return c.arch }
func (c fakeConfig) String(k string, d ...string) string      { return cfgGet(c, k, d) }
func (c fakeConfig) Uint(k string, d ...uint32) uint32        { return cfgGet(c, k, d) }
func (c fakeConfig) Float(k string, d ...float32) float32     { return cfgGet(c, k, d) }
func (c fakeConfig) Bool(k string, d ...bool) bool            { return cfgGet(c, k, d) }
func (c fakeConfig) Strings(k string, d ...[]string) []string { return cfgGet(c, k, d) }
func (c fakeConfig) Uints(k string, d ...[]uint32) []uint32   { return cfgGet(c, k, d) }
func (c fakeConfig) Floats(k string, d ...[]float32) []float32 {
	return cfgGet(c, k, d)
}

var _ fs.Config = fakeConfig{}

var constructors = map[string]func(fs.Config) (model.Model, error){
	"llama": llama.New, "mllama": mllama.New, "mistral3": mistral3.New, "gemma2": gemma2.New, "gemma3": gemma3.New,
}

// bpeOf digs the embedded BytePairEncoding out of a constructed model (for the pre-tokeniser observation)
func bpeOf(m model.Model) *model.BytePairEncoding {
	switch x := m.(type) {
	case *llama.Model:
		return &x.BytePairEncoding
	case *mllama.Model:
		return &x.BytePairEncoding
	case *mistral3.Model:
		return &x.TextModel.BytePairEncoding
	}
	return nil
}

// the Unicode classes the pre-tokeniser patterns mention, as the REAL engine (same options as NewBytePairEncoding)
// assigns them to single runes; order = bit index of the mask handed to the Coq model
var classPatterns = []string{`\p{L}`, `\p{N}`, `\s`, `\p{Lu}`, `\p{Lt}`, `\p{Lm}`, `\p{Lo}`, `\p{Ll}`, `\p{M}`}
var classRes []*regexp2.Regexp
var classCache = map[rune]int{}
var preCache = map[string]*model.BytePairEncoding{}

func classMask(r rune) int {
	if m, ok := classCache[r]; ok {
		return m
	}
	if classRes == nil {
		for _, p := range classPatterns {
			classRes = append(classRes, regexp2.MustCompile(`\A`+p+`\z`, regexp2.Unicode|regexp2.RE2))
		}
	}
	m := 0
	for i, re := range classRes {
		if ok, _ := re.MatchRunes([]rune{r}); ok {
			m |= 1 << i
		}
	}
	classCache[r] = m
	return m
}

const llamaPre = `(?i:'s|'t|'re|'ve|'m|'ll|'d)|[^\r\n\p{L}\p{N}]?\p{L}+|\p{N}{1,3}| ?[^\s\p{L}\p{N}]+[\r\n]*|\s*[\r\n]+|\s+(?!\S)|\s+`

type tok struct {
	kind string
	bpe  *model.BytePairEncoding
	spm  *model.SentencePieceModel
	v    *model.Vocabulary
	n    int
	pre  string
}

// fresh builds a NEW tokenizer object over a NEW Vocabulary struct (same token/merge slices, no shared lazily built
// state): what a first call on a just-constructed tokenizer answers
func (t *tok) fresh() model.TextProcessor {
	v := &model.Vocabulary{Values: t.v.Values, Types: t.v.Types, Scores: t.v.Scores, Merges: t.v.Merges,
		BOS: t.v.BOS, EOS: t.v.EOS, EOT: t.v.EOT, AddBOS: t.v.AddBOS, AddEOS: t.v.AddEOS, AddEOT: t.v.AddEOT}
	if t.kind == "bpe" {
		x := model.NewBytePairEncoding(t.pre, v)
		return &x
	}
	x := model.NewSentencePieceModel(v)
	return &x
}

var toks = map[string]*tok{}

func u32s(v any) []uint32 {
	l, _ := v.([]any)
	out := make([]uint32, 0, len(l))
	for _, x := range l {
		out = append(out, uint32(hx.Int(x)))
	}
	return out
}

func f32s(v any) []float32 {
	l, _ := v.([]any)
	out := make([]float32, 0, len(l))
	for _, x := range l {
		f, _ := x.(float64)
		out = append(out, float32(f))
	}
	return out
}

func i32s(v any) []int32 {
	l, _ := v.([]any)
	out := make([]int32, 0, len(l))
	for _, x := range l {
		out = append(out, int32(hx.Int(x)))
	}
	return out
}

func b(v any) bool { x, _ := v.(bool); return x }

// loadLlama builds the llama 3.2 test vocabulary exactly as model/process_text_test.go does.
func loadLlama(repo string) (*model.Vocabulary, error) {
	f, err := os.Open(filepath.Join(repo, "model", "testdata", "llama3.2", "encoder.json"))
	if err != nil {
		return nil, err
	}
	defer f.Close()
	vocab := make(map[string]int32)
	if err := json.NewDecoder(f).Decode(&vocab); err != nil {
		return nil, err
	}
	types := make([]uint32, len(vocab))
	tokens := make([]string, len(vocab))
	for token, id := range vocab {
		tokens[id] = token
		types[id] = 1
	}
	for _, token := range []string{"<|begin_of_text|>", "<|end_of_text|>"} {
		if _, ok := vocab[token]; !ok {
			tokens = append(tokens, token)
			types = append(types, 3)
			vocab[token] = int32(len(vocab))
		}
	}
	f2, err := os.Open(filepath.Join(repo, "model", "testdata", "llama3.2", "vocab.bpe"))
	if err != nil {
		return nil, err
	}
	defer f2.Close()
	merges := make([]string, 0, 300000)
	sc := bufio.NewScanner(f2)
	for sc.Scan() {
		if !strings.HasPrefix(sc.Text(), "#") {
			merges = append(merges, sc.Text())
		}
	}
	return &model.Vocabulary{Values: tokens, Types: types, Merges: merges}, nil
}

func main() {
	repo := "/repo"
	if len(os.Args) > 1 {
		repo = os.Args[1]
	}
	hx.Loop(func(c map[string]any) any {
		switch c["op"] {
		case "llama":
			v, err := loadLlama(repo)
			if err != nil {
				return map[string]any{"harness_error": err.Error()}
			}
			pre := llamaPre
			if p, ok := c["pre"].(string); ok && p != "" {
				pre = p
			}
			bpe := model.NewBytePairEncoding(pre, v)
			toks[c["name"].(string)] = &tok{kind: "bpe", bpe: &bpe, v: v, n: len(v.Values), pre: pre}
			return map[string]any{"ok": true, "n": len(v.Values), "merges": len(v.Merges), "specials": hx.HexList(v.SpecialVocabulary())}
		case "vocab":
			v := &model.Vocabulary{
				Values: hx.UnhexList(c["values"]),
				Types:  u32s(c["types"]),
				Scores: f32s(c["scores"]),
				Merges: hx.UnhexList(c["merges"]),
				BOS:    int32(hx.Int(c["bos"])), EOS: int32(hx.Int(c["eos"])),
				AddBOS: b(c["add_bos"]), AddEOS: b(c["add_eos"]),
			}
			t := &tok{kind: c["kind"].(string), v: v, n: len(v.Values)}
			if t.kind == "bpe" {
				pre := llamaPre
				if p, ok := c["pre"].(string); ok && p != "" {
					pre = p
				}
				bpe := model.NewBytePairEncoding(pre, v)
				t.bpe = &bpe
				t.pre = pre
			} else {
				spm := model.NewSentencePieceModel(v)
				t.spm = &spm
			}
			toks[c["name"].(string)] = t
			return map[string]any{"ok": true, "n": len(v.Values), "specials": hx.HexList(v.SpecialVocabulary())}
		case "ctor":
			// the tokenizer as a MODEL CONSTRUCTOR builds it from GGUF metadata (fake fs.Config carrying the vocabulary
			// of an already defined tokenizer + the metadata variant), then the round trip of each text
			t := toks[c["vocab"].(string)]
			if t == nil {
				return map[string]any{"harness_error": "unknown vocab"}
			}
			arch := c["arch"].(string)
			kv := map[string]any{
				"general.architecture":         arch,
				"tokenizer.ggml.tokens":        t.v.Values,
				"tokenizer.ggml.token_type":    t.v.Types,
				"tokenizer.ggml.scores":        t.v.Scores,
				"tokenizer.ggml.merges":        t.v.Merges,
				"tokenizer.ggml.bos_token_id":  uint32(t.v.BOS),
				"tokenizer.ggml.eos_token_id":  uint32(t.v.EOS),
				arch + ".vision.block_count":   uint32(1),
				arch + ".block_count":          uint32(0),
				arch + ".attention.head_count": uint32(1),
			}
			if meta, ok := c["meta"].(map[string]any); ok {
				for k, v := range meta {
					kv[k] = v
				}
			}
			var m model.Model
			var cerr error
			r := hx.Guard(func() any {
				m, cerr = constructors[arch](fakeConfig{arch: arch, kv: kv})
				return nil
			})
			if r != nil {
				return map[string]any{"ctor_panic": r}
			}
			if cerr != nil {
				return map[string]any{"ctor_err": cerr.Error()}
			}
			tp, ok := m.(model.TextProcessor)
			if !ok {
				return map[string]any{"ctor_err": "constructed model is not a TextProcessor"}
			}
			var direct model.TextProcessor
			if d, ok := c["direct"].(string); ok && toks[d] != nil {
				if toks[d].kind == "bpe" {
					direct = toks[d].bpe
				} else {
					direct = toks[d].spm
				}
			}
			bp := bpeOf(m)
			res := []map[string]any{}
			for _, text := range hx.UnhexList(c["texts"]) {
				st := hx.Guard(func() any {
					st := map[string]any{}
					ids, err := tp.Encode(text, false)
					if err != nil {
						st["enc_err"] = err.Error()
						return st
					}
					inr := true
					for _, id := range ids {
						if id < 0 || int(id) >= t.n {
							inr = false
						}
					}
					st["ids_in_range"] = inr
					dec, err := tp.Decode(ids)
					if err != nil {
						st["dec_err"] = err.Error()
						return st
					}
					st["ok"] = dec == text
					if dec != text {
						st["dec"] = hx.Hex(dec)
					}
					if direct != nil {
						dids, _ := direct.Encode(text, false)
						same := len(dids) == len(ids)
						for i := 0; same && i < len(ids); i++ {
							same = ids[i] == dids[i]
						}
						st["same_as_direct"] = same
						if !same {
							st["ids"], st["direct_ids"] = ids, dids
						}
					}
					if bp != nil {
						ps := bp.VerifSplit(text)
						if strings.Join(ps, "") != text || slices.Contains(ps, "") {
							st["split"] = hx.HexList(ps)
						}
					}
					return st
				}).(map[string]any)
				res = append(res, st)
			}
			return map[string]any{"res": res, "n": t.n}
		case "seq":
			// a sequence of Encode calls on ONE long-lived tokenizer object; every call is compared with the same call on
			// a fresh tokenizer (no state may leak from one call into the next)
			t := toks[c["vocab"].(string)]
			if t == nil {
				return map[string]any{"harness_error": "unknown vocab"}
			}
			var live model.TextProcessor
			if b(c["new_live"]) {
				live = t.fresh()
			} else if t.kind == "bpe" {
				live = t.bpe
			} else {
				live = t.spm
			}
			steps := []map[string]any{}
			for _, text := range hx.UnhexList(c["texts"]) {
				st := map[string]any{}
				ids, err := live.Encode(text, b(c["add_special"]))
				if err != nil {
					st["enc_err"] = err.Error()
				}
				fids, ferr := t.fresh().Encode(text, b(c["add_special"]))
				if ferr != nil {
					st["fresh_err"] = ferr.Error()
				}
				same := len(ids) == len(fids)
				for i := 0; same && i < len(ids); i++ {
					same = ids[i] == fids[i]
				}
				if ids == nil {
					ids = []int32{}
				}
				if fids == nil {
					fids = []int32{}
				}
				st["same"] = same
				st["ids"] = ids
				if !same {
					st["fresh"] = fids
				}
				func() {
					defer func() {
						if r := recover(); r != nil {
							st["dec_panic"] = fmt.Sprint(r)
						}
					}()
					if d, err := live.Decode(ids); err == nil {
						st["dec"] = hx.Hex(d)
					} else {
						st["dec_err"] = err.Error()
					}
				}()
				steps = append(steps, st)
			}
			return map[string]any{"steps": steps, "n": t.n}
		case "sleep":
			// idle period (the tokenizer must behave the same after it)
			time.Sleep(time.Duration(hx.Int(c["ms"])) * time.Millisecond)
			return map[string]any{"ok": true}
		case "rt":
			// round trip of a (possibly very long) text, summarised: no ids/bytes are sent back
			t := toks[c["vocab"].(string)]
			if t == nil {
				return map[string]any{"harness_error": "unknown vocab"}
			}
			text := hx.Unhex(c["text"])
			var tp model.TextProcessor
			if t.kind == "bpe" {
				tp = t.bpe
			} else {
				tp = t.spm
			}
			t0 := time.Now()
			out := map[string]any{"text_len": len(text)}
			if b(c["split_only"]) && t.kind == "bpe" {
				// only the real pre-tokeniser (texts too large for the merge loop's memory)
				total, empty, okp := 0, false, true
				for _, p := range t.bpe.VerifSplit(text) {
					if p == "" {
						empty = true
					}
					if okp && (total+len(p) > len(text) || text[total:total+len(p)] != p) {
						okp = false
					}
					total += len(p)
				}
				out["split_ok"] = okp && !empty && total == len(text)
				out["split_len"] = total
				out["ms"] = time.Since(t0).Milliseconds()
				return out
			}
			ids, err := tp.Encode(text, false)
			if err != nil {
				out["enc_err"] = err.Error()
				return out
			}
			inr := true
			for _, id := range ids {
				if id < 0 || int(id) >= t.n {
					inr = false
				}
			}
			out["n_ids"] = len(ids)
			out["ids_in_range"] = inr
			dec, err := tp.Decode(ids)
			if err != nil {
				out["dec_err"] = err.Error()
				return out
			}
			out["dec_len"] = len(dec)
			out["ok"] = dec == text
			if dec != text {
				i := 0
				for i < len(dec) && i < len(text) && dec[i] == text[i] {
					i++
				}
				out["diff_at"] = i
				lo, hi := max(0, i-8), min(len(dec), i+16)
				out["dec_snip"] = hx.Hex(dec[lo:hi])
				out["text_snip"] = hx.Hex(text[lo:min(len(text), i+16)])
			}
			if t.kind == "bpe" {
				// the real pre-tokeniser on the whole text (the generator puts no special literal into these texts)
				total, empty := 0, false
				okp := true
				for _, p := range t.bpe.VerifSplit(text) {
					if p == "" {
						empty = true
					}
					if okp && (total+len(p) > len(text) || text[total:total+len(p)] != p) {
						okp = false
					}
					total += len(p)
				}
				out["split_ok"] = okp && !empty && total == len(text)
				out["split_len"] = total
			}
			out["ms"] = time.Since(t0).Milliseconds()
			return out
		case "pretok":
			// the real BytePairEncoding.split (regexp2) for a pattern, plus the classes of the runes of the text
			pre := c["pre"].(string)
			bpe := preCache[pre]
			if bpe == nil {
				b := model.NewBytePairEncoding(pre, &model.Vocabulary{})
				bpe = &b
				preCache[pre] = bpe
			}
			text := hx.Unhex(c["text"])
			cls := [][]int{}
			seen := map[rune]bool{}
			for _, r := range []rune(text) {
				if !seen[r] {
					seen[r] = true
					cls = append(cls, []int{int(r), classMask(r)})
				}
			}
			return map[string]any{"pieces": hx.HexList(bpe.VerifSplit(text)), "classes": cls}
		case "vlookup":
			// what the real Vocabulary answers for strings / merge pairs (used to validate the sparse tables
			// that props/c20.py hands to the Coq model for the 128k-token vocabulary)
			t := toks[c["vocab"].(string)]
			if t == nil {
				return map[string]any{"harness_error": "unknown vocab"}
			}
			ids := []int32{}
			for _, s := range hx.UnhexList(c["strings"]) {
				ids = append(ids, t.v.Encode(s))
			}
			ranks := []int{}
			ps := hx.UnhexList(c["pairs"])
			for i := 0; i+1 < len(ps); i += 2 {
				ranks = append(ranks, t.v.Merge(ps[i], ps[i+1]))
			}
			return map[string]any{"ids": ids, "ranks": ranks}
		case "enc":
			t := toks[c["vocab"].(string)]
			if t == nil {
				return map[string]any{"harness_error": "unknown vocab"}
			}
			text := hx.Unhex(c["text"])
			var tp model.TextProcessor
			out := map[string]any{}
			if t.kind == "bpe" {
				tp = t.bpe
				splits := [][]string{}
				for _, f := range hx.UnhexList(c["frags"]) {
					splits = append(splits, hx.HexList(t.bpe.VerifSplit(f)))
				}
				out["splits"] = splits
				cls := [][]int{}
				seen := map[rune]bool{}
				for _, r := range []rune(text) {
					if !seen[r] {
						seen[r] = true
						cls = append(cls, []int{int(r), classMask(r)})
					}
				}
				out["classes"] = cls
			} else {
				tp = t.spm
			}
			ids, err := tp.Encode(text, b(c["add_special"]))
			if err != nil {
				out["enc_err"] = err.Error()
				return out
			}
			if ids == nil {
				ids = []int32{}
			}
			out["ids"] = ids
			out["n"] = t.n
			r := hx.Guard(func() any {
				s, err := tp.Decode(ids)
				if err != nil {
					return map[string]any{"dec_err": err.Error()}
				}
				return map[string]any{"dec": hx.Hex(s)}
			}).(map[string]any)
			for k, v := range r {
				if k == "panic" {
					k = "dec_panic"
				}
				out[k] = v
			}
			return out
		case "dec":
			t := toks[c["vocab"].(string)]
			if t == nil {
				return map[string]any{"harness_error": "unknown vocab"}
			}
			var tp model.TextProcessor
			if t.kind == "bpe" {
				tp = t.bpe
			} else {
				tp = t.spm
			}
			return hx.Guard(func() any {
				s, err := tp.Decode(i32s(c["ids"]))
				if err != nil {
					return map[string]any{"dec_err": err.Error()}
				}
				return map[string]any{"dec": hx.Hex(s)}
			})
		}
		return map[string]any{"harness_error": "unknown op"}
	})
}
