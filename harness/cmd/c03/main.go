// C03 harness.
//
//	c03            reads JSONL cases on stdin, answers one JSON observation per line, in order.
//	               ops "getvalue"/"challenge" run the real parser in-process; op "hist" (a history of
//	               pull attempts against a scripted fake registry + CDN) is run in a child process
//	               (c03 child <out-file>), many children concurrently, because a panic in the pull
//	               goroutine of the real handler kills the whole process.
//	c03 child F    reads ONE hist case on stdin, writes its observation to file F.
package main

import (
	"bytes"
	"context"
	"crypto/ed25519"
	"crypto/rand"
	"crypto/sha256"
	"encoding/hex"
	"encoding/json"
	"encoding/pem"
	"fmt"
	"io"
	"net"
	"net/http"
	"net/http/httptest"
	"os"
	"os/exec"
	"path/filepath"
	"sort"
	"strconv"
	"strings"
	"sync"
	"time"

	"github.com/gin-gonic/gin"
	"golang.org/x/crypto/ssh"

	"github.com/ollama/ollama/server"
	"verifharness/hx"
)

func main() {
	if len(os.Args) >= 3 && os.Args[1] == "child" {
		child(os.Args[2])
		return
	}
	parent()
}

// ---------------------------------------------------------------- parent

func parent() {
	var cases []map[string]any
	dec := json.NewDecoder(os.Stdin)
	for {
		var c map[string]any
		if err := dec.Decode(&c); err != nil {
			break
		}
		cases = append(cases, c)
	}
	jobs := 24
	if s := os.Getenv("C03_JOBS"); s != "" {
		if n, err := strconv.Atoi(s); err == nil && n > 0 {
			jobs = n
		}
	}
	out := make([]any, len(cases))
	sem := make(chan struct{}, jobs)
	var wg sync.WaitGroup
	// long histories first so that they overlap with everything else
	order := make([]int, len(cases))
	for i := range order {
		order[i] = i
	}
	sort.SliceStable(order, func(a, b int) bool { return cost(cases[order[a]]) > cost(cases[order[b]]) })
	for _, i := range order {
		c := cases[i]
		switch c["op"] {
		case "hist":
			wg.Add(1)
			sem <- struct{}{}
			go func(i int, c map[string]any) {
				defer wg.Done()
				defer func() { <-sem }()
				out[i] = runChild(i, c)
			}(i, c)
		default:
			out[i] = hx.Guard(func() any { return pure(c) })
		}
	}
	wg.Wait()
	w := json.NewEncoder(os.Stdout)
	for _, o := range out {
		w.Encode(o)
	}
}

func cost(c map[string]any) float64 {
	f, _ := c["cost"].(float64)
	return f
}

func pure(c map[string]any) any {
	switch c["op"] {
	case "getvalue":
		return map[string]any{"v": hx.Hex(server.VerifGetValue(hx.Unhex(c["header"]), hx.Unhex(c["key"])))}
	case "challenge":
		r, s, sc := server.VerifParseChallenge(hx.Unhex(c["auth"]))
		return map[string]any{"realm": hx.Hex(r), "service": hx.Hex(s), "scope": hx.Hex(sc)}
	case "consts":
		n, mn, mx, r := server.VerifDownloadConsts()
		return map[string]any{"num": n, "min": mn, "max": mx, "retries": r}
	}
	return map[string]any{"harness_error": "unknown op"}
}

func runChild(i int, c map[string]any) any {
	dir, err := os.MkdirTemp(".", "c03-")
	if err != nil {
		return map[string]any{"harness_error": err.Error()}
	}
	dir, _ = filepath.Abs(dir)
	defer os.RemoveAll(dir)
	outf := filepath.Join(dir, "obs.json")
	in, _ := json.Marshal(c)
	to := 150.0
	if f, ok := c["timeout"].(float64); ok {
		to = f
	}
	ctx, cancel := context.WithTimeout(context.Background(), time.Duration(to*float64(time.Second)))
	defer cancel()
	cmd := exec.CommandContext(ctx, os.Args[0], "child", outf)
	cmd.Dir = dir
	cmd.Stdin = bytes.NewReader(in)
	var stderr tailBuf
	cmd.Stderr = &stderr
	cmd.Stdout = io.Discard
	cmd.Env = append(os.Environ(), "GIN_MODE=release", "OLLAMA_MODELS="+filepath.Join(dir, "models"), "HOME="+filepath.Join(dir, "home"),
		"OLLAMA_NOPRUNE=", "HTTP_PROXY=", "HTTPS_PROXY=", "http_proxy=", "https_proxy=", "NO_PROXY=*")
	runErr := cmd.Run()
	b, rerr := os.ReadFile(outf)
	var obs map[string]any
	if rerr == nil && json.Unmarshal(b, &obs) == nil && runErr == nil {
		return obs
	}
	// the child died: keep what it had written (it rewrites the file after every step) and say how it died
	res := map[string]any{"crashed": true, "stderr": stderr.String()}
	if runErr != nil {
		res["exit"] = runErr.Error()
	}
	if ctx.Err() != nil {
		res["timeout"] = true
	}
	if obs != nil {
		res["partial"] = obs
	}
	return res
}

type tailBuf struct {
	mu sync.Mutex
	b  []byte
}

func (t *tailBuf) Write(p []byte) (int, error) {
	t.mu.Lock()
	defer t.mu.Unlock()
	t.b = append(t.b, p...)
	if len(t.b) > 1<<16 {
		// keep the head of a panic if there is one, else the tail
		if i := bytes.Index(t.b, []byte("panic:")); i >= 0 {
			t.b = t.b[i:]
			if len(t.b) > 1<<15 {
				t.b = t.b[:1<<15]
			}
		} else {
			t.b = t.b[len(t.b)-(1<<15):]
		}
	}
	return len(p), nil
}

func (t *tailBuf) String() string {
	t.mu.Lock()
	defer t.mu.Unlock()
	s := string(t.b)
	if i := strings.Index(s, "panic:"); i >= 0 {
		s = s[i:]
		if len(s) > 3000 {
			s = s[:3000]
		}
		return s
	}
	if len(s) > 3000 {
		s = s[len(s)-3000:]
	}
	return s
}

// ---------------------------------------------------------------- child: one history

type spec map[string]any

func (s spec) str(k string) string { v, _ := s[k].(string); return v }
func (s spec) num(k string) (int64, bool) {
	switch v := s[k].(type) {
	case float64:
		return int64(v), true
	case json.Number:
		n, err := v.Int64()
		return n, err == nil
	}
	return 0, false
}
func (s spec) has(k string) bool { _, ok := s[k]; return ok }

type served struct {
	K       string  `json:"k"`
	Seq     int     `json:"seq"`
	Method  string  `json:"method"`
	Range   []int64 `json:"range"`
	Auth    string  `json:"auth"`
	Query   string  `json:"query,omitempty"`
	Status  int     `json:"status"`
	Body    string  `json:"body"` // hex of the body bytes written to the connection
	BodyN   int64   `json:"body_n"`
	End     string  `json:"end"` // clean | unexp | reset | nohdr
	Loc     string  `json:"loc,omitempty"`
	WwwAuth string  `json:"www_auth,omitempty"`
}

type fake struct {
	mu        sync.Mutex
	blobs     [][]byte
	digests   []string // "sha256:<hex>" of blobs
	script    map[string][]spec
	count     map[string]int
	log       []served
	manifest  []byte
	manifests map[string][]byte    // par steps: by ns/model/tag
	cancels   []context.CancelFunc // par steps: the clients of the concurrent pulls
	client2   bool
	authOn    bool // the registry wants a bearer token of the current epoch on every request
	epoch     int  // tokens issued in an earlier epoch are no longer accepted
	issued    int
	regHost   string // 127.0.0.1:p
	cdnHost   string // localhost:p2
	cancelK   string
	cancelN   int
	cancel    func()
	big       bool // do not log bodies
}

func (f *fake) blobIndex(digest string) int {
	d := strings.ToLower(strings.Replace(digest, "sha256-", "sha256:", 1))
	for i, x := range f.digests {
		if x == d {
			return i
		}
	}
	return -1
}

func parseRange(h string) []int64 {
	if !strings.HasPrefix(h, "bytes=") {
		return nil
	}
	a, b, ok := strings.Cut(h[6:], "-")
	if !ok {
		return nil
	}
	x, e1 := strconv.ParseInt(a, 10, 64)
	y, e2 := strconv.ParseInt(b, 10, 64)
	if e1 != nil || e2 != nil {
		return nil
	}
	return []int64{x, y}
}

func (f *fake) subst(s string) string {
	s = strings.ReplaceAll(s, "$REG", "http://"+f.regHost)
	s = strings.ReplaceAll(s, "$CDN", "http://"+f.cdnHost)
	return s
}

// next pops the scripted response for key (nil = honest) and triggers the scripted client cancel
func (f *fake) next(key string) (spec, int) {
	f.mu.Lock()
	defer f.mu.Unlock()
	f.count[key]++
	n := f.count[key]
	var sp spec
	if l := f.script[key]; len(l) >= n {
		sp = l[n-1]
	}
	if w, ok := sp["wait"].(map[string]any); ok {
		// hold this request until another request has been seen n times (e.g. the manifest GET of a second,
		// concurrent pull) plus a grace period: deterministic overlap of concurrent pulls
		wk, _ := w["key"].(string)
		wn := hx.Int(w["n"])
		extra := time.Duration(hx.Int(w["extra_ms"])) * time.Millisecond
		deadline := time.Now().Add(20 * time.Second)
		for f.count[wk] < wn && time.Now().Before(deadline) {
			f.mu.Unlock()
			time.Sleep(10 * time.Millisecond)
			f.mu.Lock()
		}
		f.mu.Unlock()
		time.Sleep(extra)
		f.mu.Lock()
	}
	if f.cancel != nil && f.cancelK == key && f.cancelN == n {
		f.cancel()
		// give the cancellation time to reach the pull before this request is answered
		f.mu.Unlock()
		time.Sleep(150 * time.Millisecond)
		f.mu.Lock()
	}
	return sp, n
}

func (f *fake) record(s served) {
	f.mu.Lock()
	defer f.mu.Unlock()
	s.Seq = len(f.log)
	f.log = append(f.log, s)
}

// cancelAfter: the client of one of the concurrent pulls goes away some time after this response has been sent
// (e.g. while the part goroutine sleeps in its retry back-off)
func (f *fake) cancelAfter(sp spec) {
	n, ok := sp.num("cancel_after_ms")
	if !ok {
		return
	}
	who, _ := sp.num("cancel_pull")
	f.mu.Lock()
	var cf context.CancelFunc
	if int(who) < len(f.cancels) {
		cf = f.cancels[who]
	}
	f.mu.Unlock()
	if cf != nil {
		go func() {
			time.Sleep(time.Duration(n) * time.Millisecond)
			cf()
		}()
	}
}

// respond writes one response according to the scripted spec; body is the honest body for this request.
func (f *fake) respond(w http.ResponseWriter, r *http.Request, key string, sp spec, status int, hdr map[string]string, body []byte) {
	sv := served{K: key, Method: r.Method, Range: parseRange(r.Header.Get("Range")), Auth: r.Header.Get("Authorization"), Query: r.URL.RawQuery}
	if sp == nil {
		sp = spec{}
	}
	if n, ok := sp.num("status"); ok {
		status = int(n)
	}
	if sp.has("raw") {
		body = []byte(hx.Unhex(sp["raw"]))
	}
	if n, ok := sp.num("flip"); ok && len(body) > 0 {
		b2 := append([]byte(nil), body...)
		b2[int(n)%len(b2)] ^= 0x01
		body = b2
	}
	declared := int64(len(body))
	if n, ok := sp.num("cl"); ok {
		declared = n
	}
	end := sp.str("end")
	if end == "" {
		end = "clean"
	}
	if n, ok := sp.num("cut"); ok && n < int64(len(body)) {
		body = body[:n]
		if end == "clean" && !sp.has("cl") {
			declared = int64(len(body))
		}
	}
	if h, ok := sp["hdr"].(map[string]any); ok {
		if hdr == nil {
			hdr = map[string]string{}
		}
		for k, v := range h {
			s, _ := v.(string)
			hdr[k] = f.subst(s)
		}
	}
	sv.Status = status
	sv.Loc = hdr["Location"]
	sv.WwwAuth = hex.EncodeToString([]byte(hdr["Www-Authenticate"]))
	// what the client can observe: at most `declared` body bytes; fewer bytes than declared end in io.ErrUnexpectedEOF
	eff := body
	if declared >= 0 && declared < int64(len(eff)) {
		eff = eff[:declared]
		end = "clean"
	} else if declared > int64(len(eff)) && end == "clean" {
		end = "unexp"
	}
	sv.BodyN = int64(len(eff))
	if !f.big || len(eff) <= 1<<16 {
		sv.Body = hex.EncodeToString(eff)
	}
	sv.End = end
	if sp.has("stall") {
		sv.End = "stall"
	}
	end = sp.str("end")
	if end == "" {
		end = "clean"
	}
	if r.Method == http.MethodHead {
		sv.Body, sv.BodyN, sv.End = "", declared, "clean"
	}
	if sp.has("nohdr") {
		// connection closed before any response
		sv.End = "nohdr"
		f.record(sv)
		f.cancelAfter(sp)
		// bytes that are not an HTTP response, then close: a transport error that net/http does not
		// retry by itself (it silently retries idempotent requests on connections that died unused)
		if hj, ok := w.(http.Hijacker); ok {
			c, bw, _ := hj.Hijack()
			bw.WriteString("\x00\x01garbage\r\n\r\n")
			bw.Flush()
			c.Close()
		}
		return
	}
	f.record(sv)
	f.cancelAfter(sp)
	if sp.has("rotate_after") {
		// every token issued so far stops being accepted once this response has been sent
		f.mu.Lock()
		f.epoch++
		f.mu.Unlock()
	}
	if end == "clean" && (declared == int64(len(body)) || r.Method == http.MethodHead) && !sp.has("rawcl") && !sp.has("stall") {
		for k, v := range hdr {
			w.Header().Set(k, v)
		}
		w.Header().Set("Content-Length", strconv.FormatInt(declared, 10))
		w.WriteHeader(status)
		if r.Method != http.MethodHead {
			w.Write(body)
		}
		return
	}
	// anything irregular is written by hand on the hijacked connection
	hj, ok := w.(http.Hijacker)
	if !ok {
		panic("no hijacker")
	}
	c, bw, _ := hj.Hijack()
	defer c.Close()
	fmt.Fprintf(bw, "HTTP/1.1 %d %s\r\n", status, http.StatusText(status))
	for k, v := range hdr {
		fmt.Fprintf(bw, "%s: %s\r\n", k, v)
	}
	if sp.has("rawcl") {
		fmt.Fprintf(bw, "Content-Length: %s\r\n", sp.str("rawcl"))
	} else {
		fmt.Fprintf(bw, "Content-Length: %d\r\n", declared)
	}
	fmt.Fprintf(bw, "Connection: close\r\n\r\n")
	if r.Method != http.MethodHead {
		bw.Write(body)
	}
	bw.Flush()
	if n, ok := sp.num("stall"); ok {
		// nothing more arrives for n seconds (longer than the 30 s stall timer of downloadChunk)
		select {
		case <-time.After(time.Duration(n) * time.Second):
		case <-r.Context().Done():
		}
	}
	if end == "reset" {
		// let the client read what was sent, then reset
		time.Sleep(100 * time.Millisecond)
		if tc, ok := c.(*net.TCPConn); ok {
			tc.SetLinger(0)
		}
	}
}

// authGate answers 401 with a bearer challenge unless the request carries a token of the current epoch.
// Such an answer does not consume an entry of the fault script.
func (f *fake) authGate(w http.ResponseWriter, r *http.Request, key string) bool {
	f.mu.Lock()
	on, epoch := f.authOn, f.epoch
	f.mu.Unlock()
	if !on {
		return false
	}
	var e, n int
	if c, _ := fmt.Sscanf(r.Header.Get("Authorization"), "Bearer t%d.%d", &e, &n); c == 2 && e == epoch {
		return false
	}
	f.respond(w, r, key, spec{}, 401, map[string]string{
		"Www-Authenticate": `Bearer realm="http://` + f.regHost + `/token",service="svc",scope="repository:ns/m:pull"`,
		"Content-Type":     "application/json",
	}, []byte(`{"errors":[{"code":"UNAUTHORIZED","message":"authentication required"}]}`))
	return true
}

func (f *fake) registry(w http.ResponseWriter, r *http.Request) {
	p := r.URL.Path
	switch {
	case p == "/token":
		sp, _ := f.next("token")
		f.mu.Lock()
		f.issued++
		e := f.epoch
		if sp != nil && sp.has("stale") {
			e-- // a token that is already superseded when it is issued
		}
		tok := fmt.Sprintf(`{"token":"t%d.%d"}`, e, f.issued)
		f.mu.Unlock()
		f.respond(w, r, "token", sp, 200, map[string]string{"Content-Type": "application/json"}, []byte(tok))
	case strings.Contains(p, "/manifests/"):
		if f.authGate(w, r, "manifest") {
			return
		}
		sp, _ := f.next("manifest")
		body := f.manifest
		if f.manifests != nil {
			// /v2/<ns>/<model>/manifests/<tag>
			parts := strings.Split(strings.TrimPrefix(p, "/v2/"), "/")
			if len(parts) == 4 {
				body = f.manifests[parts[0]+"/"+parts[1]+"/"+parts[3]]
			}
		}
		f.respond(w, r, "manifest", sp, 200, map[string]string{"Content-Type": "application/vnd.docker.distribution.manifest.v2+json"}, body)
	case strings.Contains(p, "/blobs/") || strings.HasPrefix(p, "/alt/"):
		digest := p[strings.LastIndex(p, "/")+1:]
		i := f.blobIndex(digest)
		if r.Method == http.MethodHead {
			key := fmt.Sprintf("head:%d", i)
			if f.authGate(w, r, key) {
				return
			}
			sp, _ := f.next(key)
			if i < 0 {
				f.respond(w, r, key, sp, 404, nil, nil)
				return
			}
			if sp == nil {
				sp = spec{}
			}
			if !sp.has("cl") && !sp.has("rawcl") {
				sp2 := spec{"cl": float64(len(f.blobs[i]))}
				for k, v := range sp {
					sp2[k] = v
				}
				sp = sp2
			}
			f.respond(w, r, key, sp, 200, nil, nil)
			return
		}
		kind := "get"
		if strings.HasPrefix(p, "/alt/") {
			kind = "alt"
		}
		key := fmt.Sprintf("%s:%d", kind, i)
		if f.authGate(w, r, key) {
			return
		}
		sp, _ := f.next(key)
		if sp == nil {
			sp = spec{}
		}
		if i < 0 && !sp.has("status") {
			f.respond(w, r, key, sp, 404, nil, nil)
			return
		}
		to := sp.str("to")
		if to == "" {
			to = "cdn"
		}
		switch to {
		case "cdn":
			f.respond(w, r, key, sp, 307, map[string]string{"Location": "http://" + f.cdnHost + "/blob/" + digest}, nil)
		case "same":
			f.respond(w, r, key, sp, 307, map[string]string{"Location": "http://" + f.regHost + "/alt/" + digest}, nil)
		case "direct":
			var body []byte
			if i >= 0 {
				body = f.blobs[i]
			}
			f.respond(w, r, key, sp, 200, nil, body)
		default:
			f.respond(w, r, key, sp, 500, nil, []byte("bad script"))
		}
	default:
		f.respond(w, r, "other", nil, 404, nil, nil)
	}
}

func (f *fake) cdn(w http.ResponseWriter, r *http.Request) {
	p := r.URL.Path
	digest := p[strings.LastIndex(p, "/")+1:]
	i := f.blobIndex(digest)
	rg := parseRange(r.Header.Get("Range"))
	endKey := "none"
	if rg != nil {
		endKey = strconv.FormatInt(rg[1], 10)
	}
	kind := "cdn"
	if strings.HasPrefix(p, "/blob2/") {
		kind = "cdn2"
	}
	key := fmt.Sprintf("%s:%d:%s", kind, i, endKey)
	sp, _ := f.next(key)
	if sp == nil {
		sp = spec{}
	}
	if i < 0 {
		f.respond(w, r, key, sp, 404, nil, []byte("not found"))
		return
	}
	if sp.str("to") == "cdn2" {
		f.respond(w, r, key, sp, 302, map[string]string{"Location": "http://" + f.cdnHost + "/blob2/" + digest}, nil)
		return
	}
	blob := f.blobs[i]
	if rg == nil || sp.str("mode") == "full" {
		f.respond(w, r, key, sp, 200, nil, blob)
		return
	}
	a, b := rg[0], rg[1]+1
	if a < 0 || b <= a {
		// last byte before first byte: not a valid byte-range-spec, a server ignores the header (RFC 9110 14.1.1)
		f.respond(w, r, key, sp, 200, nil, blob)
		return
	}
	if a >= int64(len(blob)) {
		f.respond(w, r, key, sp, 416, map[string]string{"Content-Range": fmt.Sprintf("bytes */%d", len(blob))}, nil)
		return
	}
	if b > int64(len(blob)) {
		b = int64(len(blob))
	}
	f.respond(w, r, key, sp, 206, map[string]string{"Content-Range": fmt.Sprintf("bytes %d-%d/%d", a, b-1, len(blob))}, blob[a:b])
}

func writeKey(home string) error {
	_, priv, err := ed25519.GenerateKey(rand.Reader)
	if err != nil {
		return err
	}
	blk, err := ssh.MarshalPrivateKey(priv, "")
	if err != nil {
		return err
	}
	p := filepath.Join(home, ".ollama", "id_ed25519")
	if err := os.MkdirAll(filepath.Dir(p), 0o755); err != nil {
		return err
	}
	return os.WriteFile(p, pem.EncodeToMemory(blk), 0o600)
}

func snapshot(models string, withData bool) map[string]any {
	blobs := map[string]any{}
	ents, _ := os.ReadDir(filepath.Join(models, "blobs"))
	for _, e := range ents {
		p := filepath.Join(models, "blobs", e.Name())
		fi, err := os.Stat(p)
		if err != nil || fi.IsDir() {
			continue
		}
		ent := map[string]any{"size": fi.Size()}
		if strings.Contains(e.Name(), "-partial-") {
			b, _ := os.ReadFile(p)
			var rec any
			if json.Unmarshal(b, &rec) == nil {
				ent["rec"] = rec
			} else {
				ent["raw"] = hex.EncodeToString(b)
			}
		} else {
			fh, err := os.Open(p)
			if err == nil && !withData && strings.HasSuffix(e.Name(), "-partial") && fi.Size() > 1<<26 {
				// a big sparse -partial file: not read
				fh.Close()
			} else if err == nil {
				h := sha256.New()
				if withData && fi.Size() <= 1<<16 {
					b, _ := io.ReadAll(io.TeeReader(fh, h))
					ent["data"] = hex.EncodeToString(b)
				} else {
					io.Copy(h, fh)
				}
				fh.Close()
				ent["sha256"] = hex.EncodeToString(h.Sum(nil))
			}
		}
		blobs[e.Name()] = ent
	}
	mans := map[string]any{}
	root := filepath.Join(models, "manifests")
	filepath.Walk(root, func(p string, fi os.FileInfo, err error) error {
		if err != nil || fi.IsDir() {
			return nil
		}
		rel, _ := filepath.Rel(root, p)
		b, _ := os.ReadFile(p)
		mans[rel] = string(b)
		return nil
	})
	return map[string]any{"blobs": blobs, "manifests": mans}
}

func child(outf string) {
	gin.SetMode(gin.ReleaseMode)
	gin.DefaultWriter = io.Discard
	gin.DefaultErrorWriter = os.Stderr
	var c map[string]any
	if err := json.NewDecoder(os.Stdin).Decode(&c); err != nil {
		fatal(outf, "bad case: "+err.Error())
	}
	models := os.Getenv("OLLAMA_MODELS")
	home := os.Getenv("HOME")
	os.MkdirAll(filepath.Join(models, "blobs"), 0o755)
	if nk, _ := c["nokey"].(bool); !nk {
		if err := writeKey(home); err != nil {
			fatal(outf, "key: "+err.Error())
		}
	}
	f := &fake{}
	if b, _ := c["big"].(bool); b {
		f.big = true
	}
	if a, _ := c["auth"].(bool); a {
		f.authOn = true
	}
	if l, ok := c["blobs"].([]any); ok {
		for _, x := range l {
			var b []byte
			switch v := x.(type) {
			case string:
				b = []byte(hx.Unhex(v))
			case map[string]any:
				// procedurally generated big body: {"gen": seed, "n": size}
				n := int64(v["n"].(float64))
				seed := uint32(v["gen"].(float64))
				b = make([]byte, n)
				s := seed*2654435761 + 12345
				for i := range b {
					s = s*1664525 + 1013904223
					b[i] = byte(s >> 24)
				}
			}
			f.blobs = append(f.blobs, b)
			sum := sha256.Sum256(b)
			f.digests = append(f.digests, "sha256:"+hex.EncodeToString(sum[:]))
		}
	}
	regL, err := net.Listen("tcp", "127.0.0.1:0")
	if err != nil {
		fatal(outf, err.Error())
	}
	cdnL, err := net.Listen("tcp", "127.0.0.1:0")
	if err != nil {
		fatal(outf, err.Error())
	}
	f.regHost = regL.Addr().String()
	_, cdnPort, _ := net.SplitHostPort(cdnL.Addr().String())
	f.cdnHost = "localhost:" + cdnPort
	go http.Serve(regL, http.HandlerFunc(f.registry))
	go http.Serve(cdnL, http.HandlerFunc(f.cdn))

	var s server.Server
	var h http.Handler
	if c2, _ := c["client2"].(bool); c2 {
		// the other /api/pull endpoint: the routes as Serve builds them under OLLAMA_EXPERIMENT=client2
		// (registry.Local.handlePull in front of the legacy handler); layers are never fetched in chunks here
		f.client2 = true
		h, err = server.VerifClient2Routes(&s, models, 1<<40, 1)
	} else {
		h, err = s.GenerateRoutes(nil)
	}
	if err != nil {
		fatal(outf, "routes: "+err.Error())
	}
	api := httptest.NewServer(h)
	defer api.Close()
	// on a client2 server the old handlers are reachable too (a server started without the experiment on the same
	// store): steps with "endpoint": "legacy" go there
	legacyURL := api.URL
	if f.client2 {
		var s2 server.Server
		h2, err := s2.GenerateRoutes(nil)
		if err != nil {
			fatal(outf, "routes: "+err.Error())
		}
		legacy := httptest.NewServer(h2)
		defer legacy.Close()
		legacyURL = legacy.URL
	}

	obs := map[string]any{"digests": f.digests, "reg": f.regHost, "cdn": f.cdnHost}
	var stepObs []any
	flush := func() {
		obs["steps"] = stepObs
		b, _ := json.Marshal(obs)
		os.WriteFile(outf+".tmp", b, 0o644)
		os.Rename(outf+".tmp", outf)
	}
	steps, _ := c["steps"].([]any)
	for _, st0 := range steps {
		st, _ := st0.(map[string]any)
		switch st["t"] {
		case "plant":
			// resume state as an interrupted attempt would have left it
			i := hx.Int(st["blob"])
			name := filepath.Join(models, "blobs", strings.Replace(f.digests[i], ":", "-", 1))
			if d, ok := st["data"].(string); ok {
				os.WriteFile(name+"-partial", []byte(hx.Unhex(d)), 0o644)
			}
			if ps, ok := st["parts"].([]any); ok {
				for _, p0 := range ps {
					p := p0.(map[string]any)
					if raw, ok := p["raw"].(string); ok {
						// a record a crash left unreadable (empty, cut off)
						os.WriteFile(fmt.Sprintf("%s-partial-%d", name, hx.Int(p["N"])), []byte(hx.Unhex(raw)), 0o644)
						continue
					}
					b, _ := json.Marshal(p)
					os.WriteFile(fmt.Sprintf("%s-partial-%d", name, hx.Int(p["N"])), append(b, '\n'), 0o644)
				}
			}
			stepObs = append(stepObs, map[string]any{"t": "plant", "store": snapshot(models, !f.big)})
		case "pull":
			if ep, _ := st["endpoint"].(string); ep == "legacy" && f.client2 {
				f.client2 = false
				stepObs = append(stepObs, f.pull(legacyURL, models, st))
				f.client2 = true
			} else {
				stepObs = append(stepObs, f.pull(api.URL, models, st))
			}
		case "delete":
			// the old DeleteHandler (manifest removed, layers no other manifest uses removed)
			name, _ := st["name"].(string)
			b, _ := json.Marshal(map[string]any{"model": f.regHost + "/" + name})
			rq, _ := http.NewRequest(http.MethodDelete, legacyURL+"/api/delete", bytes.NewReader(b))
			rq.Header.Set("Content-Type", "application/json")
			o := map[string]any{"t": "delete"}
			if resp, err := http.DefaultClient.Do(rq); err != nil {
				o["error"] = err.Error()
			} else {
				o["http_status"] = resp.StatusCode
				resp.Body.Close()
			}
			o["store"] = snapshot(models, !f.big)
			stepObs = append(stepObs, o)
		case "par":
			stepObs = append(stepObs, f.par(api.URL, models, st))
		case "prune":
			// what Serve does before it listens: remove partial downloads and unreferenced blobs
			err := server.PruneLayers()
			o := map[string]any{"t": "prune", "store": snapshot(models, !f.big)}
			if err != nil {
				o["error"] = err.Error()
			}
			stepObs = append(stepObs, o)
		}
		flush()
	}
	obs["alive"] = true
	flush()
}

func fatal(outf, msg string) {
	b, _ := json.Marshal(map[string]any{"harness_error": msg})
	os.WriteFile(outf, b, 0o644)
	os.Exit(0)
}

func (f *fake) buildManifest(m map[string]any) []byte {
	if raw, ok := m["raw"].(string); ok {
		return []byte(hx.Unhex(raw))
	}
	layer := func(l map[string]any) map[string]any {
		out := map[string]any{"mediaType": "application/vnd.ollama.image.model"}
		if mt, ok := l["mediaType"].(string); ok {
			out["mediaType"] = mt
		}
		if bi, ok := l["blob"].(float64); ok {
			out["digest"] = f.digests[int(bi)]
			out["size"] = len(f.blobs[int(bi)])
		}
		if d, ok := l["digest"].(string); ok {
			out["digest"] = d
		}
		if sz, ok := l["size"].(float64); ok {
			out["size"] = int64(sz)
		}
		return out
	}
	mm := map[string]any{"schemaVersion": 2, "mediaType": "application/vnd.docker.distribution.manifest.v2+json"}
	var ls []any
	if l, ok := m["layers"].([]any); ok {
		for _, x := range l {
			ls = append(ls, layer(x.(map[string]any)))
		}
	}
	mm["layers"] = ls
	if cfg, ok := m["config"].(map[string]any); ok {
		lc := layer(cfg)
		if _, ok := cfg["mediaType"]; !ok {
			lc["mediaType"] = "application/vnd.docker.container.image.v1+json"
		}
		mm["config"] = lc
	}
	b, _ := json.Marshal(mm)
	return b
}

func (f *fake) loadScript(st map[string]any) {
	if r, _ := st["rotate"].(bool); r {
		f.epoch++
	}
	f.script = map[string][]spec{}
	f.count = map[string]int{}
	f.log = nil
	if sc, ok := st["script"].(map[string]any); ok {
		for k, v := range sc {
			l, _ := v.([]any)
			for _, x := range l {
				m, _ := x.(map[string]any)
				f.script[k] = append(f.script[k], spec(m))
			}
		}
	}
}

type pullResult struct {
	Name    string   `json:"name"`
	Status  int      `json:"http_status"`
	Msgs    []string `json:"msgs"`
	Error   any      `json:"error"`
	Success bool     `json:"success"`
	CErr    string   `json:"client_error,omitempty"`
}

func doPull(ctx context.Context, apiURL, full string) pullResult {
	return doPullOpts(ctx, apiURL, full, nil)
}

func doPullOpts(ctx context.Context, apiURL, full string, stream *bool) pullResult {
	rq := map[string]any{"model": full, "insecure": true}
	if stream != nil {
		rq["stream"] = *stream
	}
	body, _ := json.Marshal(rq)
	res := pullResult{Name: full}
	req, _ := http.NewRequestWithContext(ctx, http.MethodPost, apiURL+"/api/pull", bytes.NewReader(body))
	req.Header.Set("Content-Type", "application/json")
	resp, err := http.DefaultClient.Do(req)
	if err != nil {
		res.CErr = err.Error()
		return res
	}
	defer resp.Body.Close()
	res.Status = resp.StatusCode
	dec := json.NewDecoder(resp.Body)
	success := false
	for {
		var m map[string]any
		if err := dec.Decode(&m); err != nil {
			if err != io.EOF {
				res.CErr = err.Error()
			}
			break
		}
		if e, ok := m["error"]; ok {
			res.Error = e
		}
		if s, ok := m["status"].(string); ok {
			if len(res.Msgs) == 0 || res.Msgs[len(res.Msgs)-1] != s {
				res.Msgs = append(res.Msgs, s)
			}
			if s == "success" {
				success = true
			}
		}
	}
	res.Success = success && res.Error == nil
	return res
}

func waitIdle() bool {
	for i := 0; i < 400; i++ {
		if server.VerifDownloadsIdle() {
			return true
		}
		time.Sleep(25 * time.Millisecond)
	}
	return false
}

// par: several pulls at the same time (shared layers are downloaded once: blobDownloadManager)
func (f *fake) par(apiURL, models string, st map[string]any) map[string]any {
	f.mu.Lock()
	f.loadScript(st)
	f.manifest = nil
	f.manifests = map[string][]byte{}
	f.cancel, f.cancelK, f.cancelN = nil, "", 0
	pulls, _ := st["pulls"].([]any)
	var names []string
	for _, p0 := range pulls {
		p := p0.(map[string]any)
		name := p["name"].(string)
		names = append(names, name)
		f.manifests[strings.Replace(name, ":", "/", 1)] = f.buildManifest(p["manifest"].(map[string]any))
	}
	f.mu.Unlock()
	ctxs := make([]context.Context, len(names))
	cancels := make([]context.CancelFunc, len(names))
	for i := range names {
		ctxs[i], cancels[i] = context.WithCancel(context.Background())
		defer cancels[i]()
	}
	f.mu.Lock()
	f.cancels = cancels
	f.mu.Unlock()
	if cs, ok := st["cancel"].(map[string]any); ok {
		// the client of one of the pulls goes away when the n-th request for a key arrives
		f.mu.Lock()
		f.cancel, f.cancelK, f.cancelN = cancels[hx.Int(cs["pull"])], cs["key"].(string), hx.Int(cs["n"])
		f.mu.Unlock()
	}
	results := make([]pullResult, len(names))
	var wg sync.WaitGroup
	for i, name := range names {
		wg.Add(1)
		go func(i int, name string) {
			defer wg.Done()
			time.Sleep(time.Duration(i) * 150 * time.Millisecond)
			if a, ok := pulls[i].(map[string]any)["after"].(map[string]any); ok {
				// start this pull only after a request has been seen n times, plus a delay
				wk, _ := a["key"].(string)
				wn := hx.Int(a["n"])
				deadline := time.Now().Add(20 * time.Second)
				for time.Now().Before(deadline) {
					f.mu.Lock()
					seen := f.count[wk]
					f.mu.Unlock()
					if seen >= wn {
						break
					}
					time.Sleep(5 * time.Millisecond)
				}
				time.Sleep(time.Duration(hx.Int(a["extra_ms"])) * time.Millisecond)
			}
			results[i] = doPull(ctxs[i], apiURL, f.regHost+"/"+name)
		}(i, name)
	}
	wg.Wait()
	time.Sleep(100 * time.Millisecond)
	res := map[string]any{"t": "par", "results": results, "idle": waitIdle()}
	f.mu.Lock()
	res["served"] = append([]served(nil), f.log...)
	ms := map[string]string{}
	for k, v := range f.manifests {
		ms[k] = string(v)
	}
	res["manifests_served"] = ms
	f.mu.Unlock()
	res["store"] = snapshot(models, !f.big)
	return res
}

func (f *fake) pull(apiURL, models string, st map[string]any) map[string]any {
	f.mu.Lock()
	f.loadScript(st)
	// the manifest this attempt's registry publishes
	f.manifest = nil
	f.manifests = nil
	if m, ok := st["manifest"].(map[string]any); ok {
		f.manifest = f.buildManifest(m)
	}
	ctx, cancel := context.WithCancel(context.Background())
	defer cancel()
	f.cancel, f.cancelK, f.cancelN = nil, "", 0
	if cs, ok := st["cancel"].(map[string]any); ok {
		f.cancel, f.cancelK, f.cancelN = cancel, cs["key"].(string), hx.Int(cs["n"])
	}
	f.mu.Unlock()

	name, _ := st["name"].(string)
	full := f.regHost + "/" + name
	if f.client2 {
		full = "http://" + full
	}
	reqBody := map[string]any{"model": full, "insecure": true}
	if sv, ok := st["stream"].(bool); ok {
		reqBody["stream"] = sv
	}
	body, _ := json.Marshal(reqBody)
	res := map[string]any{"t": "pull", "name": full}
	if ms, ok := st["timeout_ms"].(float64); ok {
		// the client gives up after this long (the client2 handler retries retryable failures without bound)
		var c2 context.CancelFunc
		ctx, c2 = context.WithTimeout(ctx, time.Duration(ms)*time.Millisecond)
		defer c2()
	}
	req, _ := http.NewRequestWithContext(ctx, http.MethodPost, apiURL+"/api/pull", bytes.NewReader(body))
	req.Header.Set("Content-Type", "application/json")
	t0 := time.Now()
	resp, err := http.DefaultClient.Do(req)
	var msgs []string
	var perr any
	success := false
	if err != nil {
		res["client_error"] = err.Error()
	} else {
		res["http_status"] = resp.StatusCode
		dec := json.NewDecoder(resp.Body)
		for {
			var m map[string]any
			if err := dec.Decode(&m); err != nil {
				if err != io.EOF {
					res["client_error"] = err.Error()
				}
				break
			}
			if e, ok := m["error"]; ok {
				perr = e
			}
			if s, ok := m["status"].(string); ok {
				if len(msgs) == 0 || msgs[len(msgs)-1] != s {
					msgs = append(msgs, s)
				}
				if s == "success" {
					success = true
				}
			}
		}
		resp.Body.Close()
	}
	cancel()
	// quiescence: every background blobDownload.run has returned
	idle := false
	for i := 0; i < 400; i++ {
		if server.VerifDownloadsIdle() {
			idle = true
			break
		}
		time.Sleep(25 * time.Millisecond)
	}
	if f.cancelK != "" {
		time.Sleep(200 * time.Millisecond)
	}
	res["idle"] = idle
	res["msgs"] = msgs
	res["error"] = perr
	if hs, ok := res["http_status"].(int); ok && hs >= 400 {
		success = false
	}
	res["success"] = success && perr == nil
	res["wall_ms"] = time.Since(t0).Milliseconds()
	f.mu.Lock()
	res["served"] = append([]served(nil), f.log...)
	res["manifest_served"] = string(f.manifest)
	f.mu.Unlock()
	res["store"] = snapshot(models, !f.big)
	return res
}
