package main

// The scripted world behind the real ollamarunner.Server: an ml.Backend/Context/Tensor that only carries
// []float32, a kvcache.Cache stub that stores nothing (non-nil => the runner's input cache is "enabled"), and a
// model.Model + model.TextProcessor whose next token is a fixed function of the last token it was shown:
// the i-th token sampled for a sequence decodes to the i-th scripted piece (arbitrary bytes) or is EOS.

import (
	"errors"
	"math"
	"strconv"

	"github.com/ollama/ollama/kvcache"
	"github.com/ollama/ollama/ml"
	"github.com/ollama/ollama/model"
	"github.com/ollama/ollama/model/input"
)

type fakeBackend struct{ ml.Backend }

func (b *fakeBackend) NewContext() ml.Context        { return &fakeContext{} }
func (b *fakeBackend) NewContextSize(int) ml.Context { return &fakeContext{} }

type fakeContext struct{ ml.Context }

func (c *fakeContext) FromFloatSlice(s []float32, shape ...int) (ml.Tensor, error) {
	return &fakeTensor{data: append([]float32{}, s...), shape: append([]int{}, shape...)}, nil
}

func (c *fakeContext) FromIntSlice(s []int32, shape ...int) (ml.Tensor, error) {
	f := make([]float32, len(s))
	for i := range f {
		f[i] = float32(s[i])
	}
	return &fakeTensor{data: f, shape: append([]int{}, shape...)}, nil
}

func (c *fakeContext) Input() ml.Context               { return c }
func (c *fakeContext) Layer(int) ml.Context            { return c }
func (c *fakeContext) Forward(...ml.Tensor) ml.Context { return c }
func (c *fakeContext) Compute(...ml.Tensor)            {}
func (c *fakeContext) Reserve() error                  { return nil }
func (c *fakeContext) MaxGraphNodes() int              { return 64 }
func (c *fakeContext) Close()                          {}

type fakeTensor struct {
	ml.Tensor
	data  []float32
	shape []int
}

func (t *fakeTensor) Dim(n int) int     { return t.shape[n] }
func (t *fakeTensor) Shape() []int      { return t.shape }
func (t *fakeTensor) Floats() []float32 { return append([]float32{}, t.data...) }

// stubCache: a kvcache.Cache that stores nothing.  noPartial: every Remove other than "clear the whole
// sequence" fails (as recurrent caches do), which sends a context shift down the ErrReprocessInputs path.
type stubCache struct {
	kvcache.Cache
	noPartial bool
}

func (c *stubCache) Init(ml.Backend, ml.DType, int, int, int)            {}
func (c *stubCache) Close()                                              {}
func (c *stubCache) SetLayer(int)                                        {}
func (c *stubCache) SetConfig(ml.CacheConfig)                            {}
func (c *stubCache) StartForward(ml.Context, input.Batch, bool) error    { return nil }
func (c *stubCache) CopyPrefix(int, int, int32)                          {}
func (c *stubCache) CanResume(int, int32) bool                           { return true }
func (c *stubCache) Remove(seq int, beginIndex, endIndex int32) error {
	if c.noPartial && !(beginIndex == 0 && (endIndex == math.MaxInt32 || endIndex == -1)) {
		return errors.New("partial erase not supported")
	}
	return nil
}

var errExhausted = errors.New("c14run: script exhausted")

type tokInfo struct {
	piece string
	eos   bool
	next  int32 // token sampled after this one; -1: script exhausted
}

type scripted struct {
	model.Base
	toks    []tokInfo
	prompts [][]int32 // prompt "k" -> token ids
	sampled int       // number of Forward calls that produced logits
}

func (m *scripted) Forward(ctx ml.Context, batch input.Batch) (ml.Tensor, error) {
	in := batch.Inputs.(*fakeTensor).data
	vocab := len(m.toks)
	logits := make([]float32, vocab*len(batch.Outputs))
	for oi, o := range batch.Outputs {
		last := int32(in[o])
		nx := m.toks[last].next
		if nx < 0 {
			return nil, errExhausted
		}
		logits[oi*vocab+int(nx)] = 1
	}
	m.sampled++
	return ctx.FromFloatSlice(logits, vocab, len(batch.Outputs))
}

func (m *scripted) Encode(s string, addSpecial bool) ([]int32, error) {
	k, err := strconv.Atoi(s)
	if err != nil || k < 0 || k >= len(m.prompts) {
		return nil, errors.New("c14run tokenizer: prompt must be a sequence index")
	}
	return append([]int32{}, m.prompts[k]...), nil
}

func (m *scripted) Decode(toks []int32) (string, error) {
	out := ""
	for _, t := range toks {
		out += m.toks[t].piece
	}
	return out, nil
}

func (m *scripted) Is(t int32, s model.Special) bool {
	return s == model.SpecialEOS && m.toks[t].eos
}
