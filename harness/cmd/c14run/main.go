// C14 run harness: drives the REAL ollamarunner Server (NewSequence, LoadCacheSlot, processBatch, flushPending,
// removeSequence; in "http" mode also the real completion handler and run loop) with a scripted model whose
// i-th sampled token decodes to the i-th scripted piece, and reports everything streamed on Sequence.responses,
// the done reason and numPredicted.
package main

import (
	"bufio"
	"bytes"
	"context"
	"encoding/json"
	"errors"
	"net/http"
	"net/http/httptest"
	"strconv"
	"sync"
	"time"

	"github.com/ollama/ollama/api"
	"github.com/ollama/ollama/kvcache"
	"github.com/ollama/ollama/llm"
	"github.com/ollama/ollama/model"
	"github.com/ollama/ollama/runner/ollamarunner"
	"verifharness/hx"
)

type seqCase struct {
	prompt int
	toks   []string // hex, or "EOS"
	stops  []string
	limit  int
	keep   int
}

type event struct {
	Emit  []string `json:"emit"`
	Pend  []string `json:"pend"`
	Npred int      `json:"npred"`
	Done  bool     `json:"done"`
}

type seqObs struct {
	Submit string   `json:"submit"`
	Outs   []string `json:"outs"`
	Reason string   `json:"reason"`
	Closed bool     `json:"closed"`
	Npred  int      `json:"npred"`
	Events []event  `json:"events"`
	Status int      `json:"status,omitempty"`
	Body   string   `json:"body,omitempty"`
}

type obs struct {
	Seqs      []*seqObs `json:"seqs"`
	Err       string    `json:"err,omitempty"`
	Exhausted bool      `json:"exhausted"`
	Steps     int       `json:"steps"`
	Panic     string    `json:"panic,omitempty"`
	Hang      bool      `json:"hang,omitempty"`
}

func parse(c map[string]any) (mode string, parallel, batch, ctxSize int, cache string, seqs []seqCase) {
	mode, _ = c["mode"].(string)
	parallel, batch, ctxSize = hx.Int(c["parallel"]), hx.Int(c["batch"]), hx.Int(c["ctx"])
	cache, _ = c["cache"].(string)
	l, _ := c["seqs"].([]any)
	for _, x := range l {
		m := x.(map[string]any)
		sc := seqCase{prompt: hx.Int(m["prompt"]), limit: hx.Int(m["limit"]), keep: hx.Int(m["keep"])}
		tl, _ := m["toks"].([]any)
		for _, t := range tl {
			sc.toks = append(sc.toks, t.(string))
		}
		sc.stops = hx.UnhexList(m["stops"])
		seqs = append(seqs, sc)
	}
	return
}

func build(cache string, seqs []seqCase) *scripted {
	m := &scripted{}
	var kc kvcache.Cache
	switch cache {
	case "stub":
		kc = &stubCache{}
	case "stub-nopartial":
		kc = &stubCache{noPartial: true}
	}
	m.Base = model.C14NewBase(&fakeBackend{}, kc)
	for _, sc := range seqs {
		var p []int32
		for j := 0; j < sc.prompt; j++ {
			p = append(p, int32(len(m.toks)))
			m.toks = append(m.toks, tokInfo{piece: "<prompt>", next: int32(len(m.toks)) + 1})
		}
		m.prompts = append(m.prompts, p)
		for _, t := range sc.toks {
			ti := tokInfo{next: int32(len(m.toks)) + 1}
			if t == "EOS" {
				ti.eos = true
			} else {
				ti.piece = hx.Unhex(t)
			}
			m.toks = append(m.toks, ti)
		}
		m.toks[len(m.toks)-1].next = -1
	}
	return m
}

func runStep(parallel, batch, ctxSize int, cache string, seqs []seqCase) *obs {
	m := build(cache, seqs)
	o := &obs{}
	srv, err := ollamarunner.C14NewServer(m, parallel, batch, ctxSize*parallel)
	if err != nil {
		o.Err = err.Error()
		return o
	}
	live := make([]*ollamarunner.Sequence, len(seqs))
	last := make([]int, len(seqs))
	for range seqs {
		o.Seqs = append(o.Seqs, &seqObs{Submit: "waiting", Outs: []string{}, Events: []event{}})
	}
	submit := func() {
		for k, sc := range seqs {
			if o.Seqs[k].Submit != "waiting" {
				continue
			}
			q, kind, err := srv.C14Submit(strconv.Itoa(k), sc.limit, int32(sc.keep), sc.stops)
			if kind == "busy" {
				return
			}
			if kind != "" {
				o.Seqs[k].Submit = kind
				if err != nil {
					o.Seqs[k].Submit += ": " + err.Error()
				}
				continue
			}
			o.Seqs[k].Submit = "ok"
			live[k] = q
		}
	}
	total := 8
	for _, sc := range seqs {
		total += sc.prompt + len(sc.toks) + 2
	}
	for o.Steps = 0; o.Steps < 4*total; o.Steps++ {
		submit()
		if srv.C14Idle() {
			break
		}
		err := srv.C14Step()
		for k, q := range live {
			so := o.Seqs[k]
			if q == nil || so.Closed {
				continue
			}
			emit, closed := q.C14Drain()
			np := q.C14Predicted()
			if len(emit) > 0 || closed || np != last[k] {
				so.Events = append(so.Events, event{Emit: hx.HexList(emit), Pend: hx.HexList(q.C14Pending()), Npred: np, Done: closed})
			}
			last[k] = np
			so.Outs = append(so.Outs, hx.HexList(emit)...)
			so.Npred = np
			if closed {
				so.Closed = true
				so.Reason = q.C14DoneReason()
			}
		}
		if err != nil {
			if errors.Is(err, errExhausted) {
				o.Exhausted = true
			} else {
				o.Err = err.Error()
			}
			break
		}
	}
	return o
}

func runHTTP(parallel, batch, ctxSize int, cache string, seqs []seqCase) *obs {
	m := build(cache, seqs)
	o := &obs{}
	srv, err := ollamarunner.C14NewServer(m, parallel, batch, ctxSize*parallel)
	if err != nil {
		o.Err = err.Error()
		return o
	}
	ctx, cancel := context.WithCancel(context.Background())
	defer cancel()
	var mu sync.Mutex
	go srv.C14Run(ctx, func(p string) {
		mu.Lock()
		o.Panic = p
		mu.Unlock()
		cancel()
	})
	var wg sync.WaitGroup
	for k, sc := range seqs {
		so := &seqObs{Submit: "http", Outs: []string{}, Events: []event{}}
		o.Seqs = append(o.Seqs, so)
		wg.Add(1)
		go func(k int, sc seqCase, so *seqObs) {
			defer wg.Done()
			opts := api.DefaultOptions()
			opts.Temperature = 0
			opts.NumPredict = sc.limit
			opts.NumKeep = sc.keep
			opts.Stop = sc.stops
			body, _ := json.Marshal(llm.CompletionRequest{Prompt: strconv.Itoa(k), Options: &opts})
			req := httptest.NewRequest(http.MethodPost, "/completion", bytes.NewReader(body)).WithContext(ctx)
			rec := httptest.NewRecorder()
			srv.C14Completion(rec, req)
			so.Status = rec.Code
			sc2 := bufio.NewScanner(rec.Body)
			sc2.Buffer(make([]byte, 1<<20), 1<<26)
			for sc2.Scan() {
				var r llm.CompletionResponse
				if err := json.Unmarshal(sc2.Bytes(), &r); err != nil {
					so.Body += sc2.Text() + "\n"
					continue
				}
				if r.Done {
					so.Closed = true
					so.Reason = r.DoneReason.String()
					so.Npred = r.EvalCount
				} else {
					so.Outs = append(so.Outs, hx.Hex(r.Content))
				}
			}
		}(k, sc, so)
	}
	wg.Wait()
	return o
}


// runSlow: one sequence, reader that does not read Sequence.responses until the producer blocks on the full channel
// (100 buffered) and after the end; a blocked flush must wait for the reader, it must not drop text.
func runSlow(parallel, batch, ctxSize int, cache string, seqs []seqCase) *obs {
	m := build(cache, seqs)
	o := &obs{}
	srv, err := ollamarunner.C14NewServer(m, parallel, batch, ctxSize*parallel)
	if err != nil {
		o.Err = err.Error()
		return o
	}
	sc := seqs[0]
	so := &seqObs{Submit: "slow", Outs: []string{}, Events: []event{}}
	o.Seqs = append(o.Seqs, so)
	q, kind, err := srv.C14Submit("0", sc.limit, int32(sc.keep), sc.stops)
	if kind != "" {
		so.Submit = kind
		if err != nil {
			so.Submit += ": " + err.Error()
		}
		return o
	}
	ch := q.C14Responses()
	total := 8 + sc.prompt + len(sc.toks)
	for o.Steps = 0; o.Steps < 20*total+50; o.Steps++ {
		if srv.C14Idle() {
			break
		}
		done := make(chan error, 1)
		go func() { done <- srv.C14Step() }()
		var serr error
		select {
		case serr = <-done:
		case <-time.After(40 * time.Millisecond):
			so.Status++ // number of times the producer was found blocked
			rd := ch
			for fin := false; !fin; {
				select {
				case serr = <-done:
					fin = true
				case r, ok := <-rd:
					if !ok {
						so.Closed = true
						rd = nil
					} else {
						so.Outs = append(so.Outs, hx.Hex(r))
					}
				}
			}
		}
		if serr != nil {
			if errors.Is(serr, errExhausted) {
				o.Exhausted = true
			} else {
				o.Err = serr.Error()
			}
			break
		}
	}
	if !so.Closed {
		emit, closed := q.C14Drain()
		so.Outs = append(so.Outs, hx.HexList(emit)...)
		so.Closed = closed
	}
	so.Npred = q.C14Predicted()
	if so.Closed {
		so.Reason = q.C14DoneReason()
	}
	return o
}

func main() {
	hx.Loop(func(c map[string]any) any {
		mode, parallel, batch, ctxSize, cache, seqs := parse(c)
		done := make(chan any, 1)
		go func() {
			done <- hx.Guard(func() any {
				if mode == "http" {
					return runHTTP(parallel, batch, ctxSize, cache, seqs)
				}
				if mode == "slow" {
					return runSlow(parallel, batch, ctxSize, cache, seqs)
				}
				return runStep(parallel, batch, ctxSize, cache, seqs)
			})
		}()
		select {
		case r := <-done:
			return r
		case <-time.After(20 * time.Second):
			return &obs{Hang: true}
		}
	})
}
