// C19 harness: runs the real server.chatPrompt (through the add-only overlay export VerifChatPrompt) and the real
// template.Template.Execute on the conversations given on stdin.
//
// case:  {"tmpl": hex template text, "tok": "fields"|"len4", "mllama": bool, "proj": 0 (nil) | 1 (empty, non-nil) | 2 (["vision"]),
//         "num_ctx": int, "msgs": [{"role": hex, "content": hex, "images": [hex data, ...]}, ...]}
// reply: {"err": "", "prompt": hex, "images": [{"id": n, "data": hex}], "after": [hex content of every message after the call],
//         "cand": [for every k: number of tokens of Execute(system messages of msgs[:k] ++ msgs[k:]), computed here, not by chatPrompt],
//         "cand_prompt": [hex of these renderings]}
package main

import (
	"bytes"
	"context"

	"github.com/ollama/ollama/api"
	"github.com/ollama/ollama/server"
	"github.com/ollama/ollama/template"
	"verifharness/hx"
)

func isSpace(b byte) bool { return b == ' ' || (b >= 9 && b <= 13) }

// whitespace tokenizer on bytes (the shape of mockRunner.Tokenize in server/routes_generate_test.go, ASCII white space only)
func tokFields(_ context.Context, s string) ([]int, error) {
	var toks []int
	in := false
	for i := 0; i < len(s); i++ {
		if isSpace(s[i]) {
			in = false
		} else if !in {
			in = true
			toks = append(toks, len(toks))
		}
	}
	return toks, nil
}

// length tokenizer: one token per started group of four bytes
func tokLen4(_ context.Context, s string) ([]int, error) {
	return make([]int, (len(s)+3)/4), nil
}

func messages(v any) []api.Message {
	l, _ := v.([]any)
	out := make([]api.Message, 0, len(l))
	for _, x := range l {
		m := x.(map[string]any)
		msg := api.Message{Role: hx.Unhex(m["role"]), Content: hx.Unhex(m["content"])}
		if imgs, ok := m["images"].([]any); ok {
			for _, i := range imgs {
				msg.Images = append(msg.Images, api.ImageData(hx.Unhex(i)))
			}
		}
		out = append(out, msg)
	}
	return out
}

func main() {
	hx.Loop(func(c map[string]any) any {
		tmpl, err := template.Parse(hx.Unhex(c["tmpl"]))
		if err != nil {
			return map[string]any{"harness_error": "template: " + err.Error()}
		}
		tok := tokFields
		if c["tok"] == "len4" {
			tok = tokLen4
		}
		m := &server.Model{Template: tmpl}
		switch hx.Int(c["proj"]) {
		case 1:
			m.ProjectorPaths = []string{}
		case 2:
			m.ProjectorPaths = []string{"vision"}
		}
		if b, _ := c["mllama"].(bool); b {
			m.Config.ModelFamilies = []string{"mllama"}
		}
		opts := api.Options{Runner: api.Runner{NumCtx: hx.Int(c["num_ctx"])}}

		// candidate prompts, rendered by the real template engine independently of chatPrompt (for the monitor)
		orig := messages(c["msgs"])
		cand := []int{}
		candPrompt := []string{}
		for k := range orig {
			var l []api.Message
			for _, x := range orig[:k] {
				if x.Role == "system" {
					l = append(l, x)
				}
			}
			l = append(l, orig[k:]...)
			var b bytes.Buffer
			if err := tmpl.Execute(&b, template.Values{Messages: l}); err != nil {
				return map[string]any{"harness_error": "execute: " + err.Error()}
			}
			t, _ := tok(context.Background(), b.String())
			cand = append(cand, len(t))
			candPrompt = append(candPrompt, hx.Hex(b.String()))
		}

		msgs := messages(c["msgs"])
		prompt, images, err := server.VerifChatPrompt(context.Background(), m, tok, &opts, msgs, nil)
		res := map[string]any{"cand": cand, "cand_prompt": candPrompt}
		if err != nil {
			res["err"] = err.Error()
			return res
		}
		res["err"] = ""
		res["prompt"] = hx.Hex(prompt)
		imgs := []map[string]any{}
		for _, i := range images {
			imgs = append(imgs, map[string]any{"id": i.ID, "data": hx.Hex(string(i.Data))})
		}
		res["images"] = imgs
		after := []string{}
		for _, x := range msgs {
			after = append(after, hx.Hex(x.Content))
		}
		res["after"] = after
		return res
	})
}
