// C19 harness: runs the real server.chatPrompt (through the add-only overlay export VerifChatPrompt) and the real
// template.Template.Execute on the conversations given on stdin.
//
// case:  {"tmpl": hex template text, "tok": 0 (white-space fields) | k>0 (one token per started group of k bytes),
//         "mllama": bool, "proj": 0 (nil) | 1 (empty, non-nil) | 2 (["vision"]),
//         "num_ctx": int, "png": bool (images are {"w","h","c"} descriptions turned into real PNGs; needed for mllama+proj 2),
//         "msgs": [{"role": hex, "content": hex, "images": [hex data, ...], "tool_calls": n}, ...],
//         "tok_fail": k (the tokenizer handed to chatPrompt returns an error on its k-th call; 0 = never)}
// All cases of one run go through ONE process in order, so state that chatPrompt keeps across requests (pooled buffers,
// caches) is exercised: a case whose tokenizer/template fails is followed by ordinary cases.
// Candidate renderings that the template refuses (execution error) are reported as cand = -1.
// reply: {"outcome": 0 ok | 1 errTooManyImages | 2 panic | 3 other error, "err": text, "prompt": hex,
//         "images": [{"id": n, "data": hex, "src": index of the original image (conversation order) with these bytes, -1 if none}],
//         "after": [hex content of every message after the call],
//         "cand": [for every k: number of tokens of Execute(system messages of msgs[:k] ++ msgs[k:]), computed here, not by chatPrompt],
//         "cand_prompt": [hex of these renderings]}
package main

import (
	"bytes"
	"context"
	"encoding/binary"
	"errors"
	"fmt"
	"image"
	"image/color"
	"image/png"

	"github.com/ollama/ollama/api"
	"github.com/ollama/ollama/llm"
	"github.com/ollama/ollama/model/models/mllama"
	"github.com/ollama/ollama/server"
	"github.com/ollama/ollama/template"
	"verifharness/hx"
)

func isSpace(b byte) bool { return b == ' ' || (b >= 9 && b <= 13) }

// whitespace tokenizer on bytes (the shape of mockRunner.Tokenize in server/routes_generate_test.go, ASCII white space only)
func tokFields(_ context.Context, s string) ([]int, error) {
	var toks []int
	in := false
	for i := 0; i < len(s); i++ {
		if isSpace(s[i]) {
			in = false
		} else if !in {
			in = true
			toks = append(toks, len(toks))
		}
	}
	return toks, nil
}

// length tokenizer: one token per started group of k bytes
func tokLen(k int) func(context.Context, string) ([]int, error) {
	return func(_ context.Context, s string) ([]int, error) {
		return make([]int, (len(s)+k-1)/k), nil
	}
}

func mkPNG(d map[string]any) string {
	w, h, c := hx.Int(d["w"]), hx.Int(d["h"]), hx.Int(d["c"])
	img := image.NewRGBA(image.Rect(0, 0, w, h))
	for y := 0; y < h; y++ {
		for x := 0; x < w; x++ {
			img.Set(x, y, color.RGBA{uint8(c), uint8(c >> 8), uint8(c >> 16), 255})
		}
	}
	var buf bytes.Buffer
	if err := png.Encode(&buf, img); err != nil {
		panic(err)
	}
	return buf.String()
}

func messages(v any, asPNG bool) []api.Message {
	l, _ := v.([]any)
	out := make([]api.Message, 0, len(l))
	for _, x := range l {
		m := x.(map[string]any)
		msg := api.Message{Role: hx.Unhex(m["role"]), Content: hx.Unhex(m["content"])}
		for j := 0; j < hx.Int(m["tool_calls"]); j++ {
			msg.ToolCalls = append(msg.ToolCalls, api.ToolCall{Function: api.ToolCallFunction{
				Name: fmt.Sprintf("fn%d", j), Arguments: api.ToolCallFunctionArguments{"arg": j}}})
		}
		if imgs, ok := m["images"].([]any); ok {
			for _, i := range imgs {
				if asPNG {
					msg.Images = append(msg.Images, api.ImageData(mkPNG(i.(map[string]any))))
				} else {
					msg.Images = append(msg.Images, api.ImageData(hx.Unhex(i)))
				}
			}
		}
		out = append(out, msg)
	}
	return out
}

// what chatPrompt is expected to store for an image of an mllama model with a projector (the preprocessing itself
// is not the subject of C19; it is used to recognise which original image an entry of the result came from)
func preprocessed(b []byte) []byte {
	data, _, err := mllama.Preprocess(bytes.NewReader(b))
	if err != nil {
		return nil
	}
	buf := new(bytes.Buffer)
	if err := binary.Write(buf, binary.LittleEndian, data); err != nil {
		return nil
	}
	return buf.Bytes()
}

func main() {
	hx.Loop(func(c map[string]any) any {
		tmpl, err := template.Parse(hx.Unhex(c["tmpl"]))
		if err != nil {
			return map[string]any{"harness_error": "template: " + err.Error()}
		}
		tok := tokFields
		if k := hx.Int(c["tok"]); k > 0 {
			tok = tokLen(k)
		}
		asPNG, _ := c["png"].(bool)
		m := &server.Model{Template: tmpl}
		switch hx.Int(c["proj"]) {
		case 1:
			m.ProjectorPaths = []string{}
		case 2:
			m.ProjectorPaths = []string{"vision"}
		}
		isMllama, _ := c["mllama"].(bool)
		if isMllama {
			m.Config.ModelFamilies = []string{"mllama"}
		}
		opts := api.Options{Runner: api.Runner{NumCtx: hx.Int(c["num_ctx"])}}

		// candidate prompts, rendered by the real template engine independently of chatPrompt (for the monitor)
		orig := messages(c["msgs"], asPNG)
		cand := []int{}
		candPrompt := []string{}
		for k := range orig {
			var l []api.Message
			for _, x := range orig[:k] {
				if x.Role == "system" {
					l = append(l, x)
				}
			}
			l = append(l, orig[k:]...)
			var b bytes.Buffer
			if err := tmpl.Execute(&b, template.Values{Messages: l}); err != nil {
				cand = append(cand, -1)
				candPrompt = append(candPrompt, "")
				continue
			}
			t, _ := tok(context.Background(), b.String())
			cand = append(cand, len(t))
			candPrompt = append(candPrompt, hx.Hex(b.String()))
		}
		res := map[string]any{"cand": cand, "cand_prompt": candPrompt}

		msgs := messages(c["msgs"], asPNG)
		chatTok := tok
		ncalls := 0
		if k := hx.Int(c["tok_fail"]); k > 0 {
			chatTok = func(ctx context.Context, s string) ([]int, error) {
				ncalls++
				if ncalls == k {
					return nil, errors.New("verif: tokenizer failure")
				}
				return tok(ctx, s)
			}
		}
		var prompt string
		var images []llm.ImageData
		if p := hx.Guard(func() any {
			prompt, images, err = server.VerifChatPrompt(context.Background(), m, chatTok, &opts, msgs, nil)
			return nil
		}); p != nil {
			res["outcome"] = 2
			res["err"] = p.(map[string]any)["panic"]
			return res
		}
		if err != nil {
			res["outcome"] = 3
			if errors.Is(err, server.VerifErrTooManyImages) {
				res["outcome"] = 1
			}
			res["err"] = err.Error()
			return res
		}
		res["outcome"] = 0
		res["err"] = ""
		res["prompt"] = hx.Hex(prompt)
		// the original images in conversation order (what an entry of the result may have come from)
		var srcs [][]byte
		for _, x := range orig {
			for _, i := range x.Images {
				if isMllama && len(m.ProjectorPaths) > 0 {
					srcs = append(srcs, preprocessed(i))
				} else {
					srcs = append(srcs, i)
				}
			}
		}
		imgs := []map[string]any{}
		for _, i := range images {
			src := -1
			for k, s := range srcs {
				if s != nil && bytes.Equal(s, i.Data) {
					src = k
					break
				}
			}
			e := map[string]any{"id": i.ID, "src": src}
			if len(i.Data) <= 4096 {
				e["data"] = hx.Hex(string(i.Data))
			}
			imgs = append(imgs, e)
		}
		res["images"] = imgs
		after := []string{}
		for _, x := range msgs {
			after = append(after, hx.Hex(x.Content))
		}
		res["after"] = after
		return res
	})
}
