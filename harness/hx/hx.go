// Package hx: shared helpers of the verification harness mains (JSONL in/out, hex strings).
package hx

import (
	"bufio"
	"encoding/hex"
	"encoding/json"
	"fmt"
	"os"
)

// Loop reads one JSON object per line from stdin, calls f, writes one JSON object per line to stdout.
// A panic inside f is reported as {"panic": "..."} so that the harness survives and the check sees it.
func Loop(f func(c map[string]any) any) {
	sc := bufio.NewScanner(os.Stdin)
	sc.Buffer(make([]byte, 1<<20), 1<<30)
	w := bufio.NewWriter(os.Stdout)
	defer w.Flush()
	enc := json.NewEncoder(w)
	for sc.Scan() {
		line := sc.Bytes()
		if len(line) == 0 {
			continue
		}
		var c map[string]any
		if err := json.Unmarshal(line, &c); err != nil {
			enc.Encode(map[string]any{"harness_error": err.Error()})
			continue
		}
		enc.Encode(Guard(func() any { return f(c) }))
	}
}

func Guard(f func() any) (res any) {
	defer func() {
		if r := recover(); r != nil {
			res = map[string]any{"panic": fmt.Sprint(r)}
		}
	}()
	return f()
}

func Unhex(v any) string {
	s, _ := v.(string)
	b, err := hex.DecodeString(s)
	if err != nil {
		panic("bad hex " + s)
	}
	return string(b)
}

func UnhexList(v any) []string {
	l, _ := v.([]any)
	out := make([]string, 0, len(l))
	for _, x := range l {
		out = append(out, Unhex(x))
	}
	return out
}

func Hex(s string) string { return hex.EncodeToString([]byte(s)) }

func HexList(l []string) []string {
	out := make([]string, 0, len(l))
	for _, x := range l {
		out = append(out, Hex(x))
	}
	return out
}

func Int(v any) int {
	f, _ := v.(float64)
	return int(f)
}
