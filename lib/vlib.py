"""Common machinery of the /verif checks (see DESIGN.md section 2).

One check = proof stage (Coq build of the property's theorems + Print Assumptions audit)
          + implementation build from /repo's *current working tree*
          + correspondence (model evaluated by coqc/vm_compute on the cases the implementation ran)
          + monitor (the property's oracle evaluated on the implementation's observations)
          + verdict / evidence.
"""
import fcntl
import glob
import hashlib
import json
import os
import random
import re
import shutil
import subprocess
import sys
import tempfile
import time

VERIF = os.path.dirname(os.path.dirname(os.path.abspath(__file__)))
REPO = os.environ.get("VERIF_REPO", "/repo")
COQ = os.path.join(VERIF, "coq")
BUILD = os.path.join(VERIF, "build")
HARNESS_SRC = os.path.join(VERIF, "harness")
HARNESS = os.path.join(BUILD, "harness")
NCPU = os.cpu_count() or 4

# axioms that the Coq standard library itself declares; anything else fails the audit
STDLIB_AXIOMS = {
    "functional_extensionality_dep", "FunctionalExtensionality.functional_extensionality_dep",
    "proof_irrelevance", "ProofIrrelevance.proof_irrelevance", "Classical_Prop.classic", "classic",
    "Eqdep.Eq_rect_eq.eq_rect_eq", "eq_rect_eq", "JMeq_eq", "JMeq.JMeq_eq",
    "propositional_extensionality", "PropExtensionality.propositional_extensionality",
    "ClassicalDedekindReals.sig_forall_dec", "ClassicalDedekindReals.sig_not_dec",
    "constructive_indefinite_description", "excluded_middle_informative",
}
FORBIDDEN = re.compile(
    r"\b(Admitted|admit|Axiom|Axioms|Parameter|Parameters|Conjecture|Conjectures)\b|Admit Obligations|"
    r"Unset Guard Checking|Unset Positivity Checking|Unset Universe Checking|bypass_check|type-in-type|impredicative-set")


def goenv():
    e = dict(os.environ)
    e["GOFLAGS"] = "-mod=mod"
    e["GOPROXY"] = "off"
    e.pop("GOTOOLCHAIN", None)  # default auto switches to the cached go1.24.0 toolchain (DESIGN 10)
    e.pop("GOSUMDB", None)
    e.setdefault("HOME", "/root")
    return e


def sh(cmd, cwd=None, env=None, timeout=None, input=None):
    """run, return (rc, stdout+stderr)"""
    try:
        p = subprocess.run(cmd, cwd=cwd, env=env, timeout=timeout, input=input, shell=isinstance(cmd, str),
                           stdout=subprocess.PIPE, stderr=subprocess.STDOUT, text=True, errors="replace")
        return p.returncode, p.stdout
    except subprocess.TimeoutExpired as ex:
        out = ex.stdout or ""
        if isinstance(out, bytes):
            out = out.decode(errors="replace")
        return 124, out + "\n[timeout after %ss]" % timeout


class Lock:
    def __init__(self, name):
        os.makedirs(BUILD, exist_ok=True)
        self.path = os.path.join(BUILD, "." + name + ".lock")

    def __enter__(self):
        self.f = open(self.path, "w")
        fcntl.flock(self.f, fcntl.LOCK_EX)

    def __exit__(self, *a):
        fcntl.flock(self.f, fcntl.LOCK_UN)
        self.f.close()


# ------------------------------------------------------------------ Coq side

def coq_files():
    out = []
    for root, _, files in os.walk(COQ):
        for f in files:
            if f.endswith(".v"):
                out.append(os.path.relpath(os.path.join(root, f), COQ))
    return sorted(out)


def coq_configure():
    """(re)generate _CoqProject and Makefile when the set of .v files changed"""
    files = coq_files()
    proj = "-Q . V\n-arg -w -arg -notation-overridden,-deprecated-hint-without-locality,-deprecated-instance-without-locality,-ambiguous-paths,-redundant-canonical-projection\n" + "\n".join(files) + "\n"
    pj = os.path.join(COQ, "_CoqProject")
    old = open(pj).read() if os.path.exists(pj) else None
    if old != proj or not os.path.exists(os.path.join(COQ, "Makefile")):
        with open(pj, "w") as f:
            f.write(proj)
        rc, out = sh(["coq_makefile", "-f", "_CoqProject", "-o", "Makefile"], cwd=COQ)
        if rc != 0:
            raise RuntimeError("coq_makefile failed: " + out)


def coq_make(targets, timeout=1500):
    with Lock("coq"):
        coq_configure()
        return sh(["make", "-j%d" % NCPU] + list(targets), cwd=COQ, timeout=timeout)


def coqc(path, timeout=900, cwd=None):
    return sh(["coqc", "-Q", COQ, "V", "-w", "-notation-overridden,-deprecated-hint-without-locality,-deprecated-instance-without-locality", path], cwd=cwd or os.path.dirname(path), timeout=timeout)


def hygiene(group_dirs):
    """forbidden-construct scan of the Coq sources of the given groups (+Common)"""
    bad = []
    for rel in coq_files():
        if not any(rel.startswith(g + "/") for g in list(group_dirs) + ["Common"]):
            continue
        depth = 0
        txt = open(os.path.join(COQ, rel)).read()
        txt = re.sub(r"\(\*.*?\*\)", lambda m: " " * len(m.group(0)) if "\n" not in m.group(0) else re.sub(r"[^\n]", " ", m.group(0)), txt, flags=re.S)
        for ln, line in enumerate(txt.split("\n"), 1):
            s = line.strip()
            if re.match(r"(Section|Module Type|Module)\s+\w+\s*\.", s) or re.match(r"Module\s+(Import\s+|Export\s+)?\w+\s*\.", s):
                depth += 1
            elif re.match(r"End\s+\w+\s*\.", s):
                depth = max(0, depth - 1)
            m = FORBIDDEN.search(line)
            if m:
                bad.append("%s:%d: %s" % (rel, ln, m.group(0)))
            if depth == 0 and re.match(r"(Variable|Variables|Hypothesis|Hypotheses|Context)\b", s):
                bad.append("%s:%d: %s outside a section" % (rel, ln, s.split()[0]))
    return bad


def parse_assumptions(out):
    """-> (n_closed, axioms:set) from the coqc output of a Properties file"""
    closed = out.count("Closed under the global context")
    axioms = set()
    in_ax = False
    for line in out.split("\n"):
        if line.startswith("Axioms:"):
            in_ax = True
            continue
        if in_ax:
            m = re.match(r"^([A-Za-z_][\w.']*)\s*(:|$)", line)
            if m:
                axioms.add(m.group(1))
            elif line.startswith(" ") or line.strip() == "":
                if line.strip() == "":
                    in_ax = False
            else:
                in_ax = False
    return closed, axioms


# ------------------------------------------------------------------ rendering of Coq terms

def cq_bytes(b):
    if isinstance(b, str):
        b = b.encode("utf-8", "surrogateescape")
    return "[" + ";".join(str(x) for x in b) + "]%N" if len(b) else "(@nil N)"


def cq_list(items, ty=None):
    items = list(items)
    if not items:
        return "(@nil %s)" % ty if ty else "[]"
    return "[" + "; ".join(items) + "]"


def cq_bool(b):
    return "true" if b else "false"


def cq_Z(z):
    return "(%d)%%Z" % z


def cq_N(n):
    return "%d%%N" % n


def cq_nat(n):
    return "%d%%nat" % n


def cq_opt(x, ty=None):
    return ("(@None %s)" % ty if ty else "None") if x is None else "(Some %s)" % x


# ------------------------------------------------------------------ the check context

class Ctx:
    def __init__(self, pid, tier, seed, level="proof"):
        self.pid, self.tier, self.seed, self.level = pid, tier, seed, level
        self.t0 = time.time()
        self.rng = random.Random(seed * 1000003 + int(hashlib.sha256(pid.encode()).hexdigest()[:8], 16))
        self.tmp = tempfile.mkdtemp(prefix="verif-%s-" % pid)
        self.violations = []     # property fails on the implementation (or on the model with a witness)
        self.mismatches = []     # model /= implementation, monitor silent
        self.proof_failures = []
        self.obligations = []    # (name, ok)
        self.axioms = set()
        self.cases = 0
        self.distinct = set()
        self.nontrivial = set()
        self.dist = {}
        self.samples = []
        self.rule = ""
        self.trusted = []
        self.assumptions = []
        self.extra = {}
        self.checker_cmds = []
        self.disagreements_checked = 0
        self.known = [k for k in load_known() if k.get("property") == pid and k.get("kind") == "known"]
        self.log_lines = []

    # --- bookkeeping
    def quick(self):
        return self.tier == "quick"

    def log(self, *a):
        s = " ".join(str(x) for x in a)
        self.log_lines.append(s)
        print("[%s %.1fs] %s" % (self.pid, time.time() - self.t0, s), file=sys.stderr, flush=True)

    def count(self, klass, n=1):
        self.dist[klass] = self.dist.get(klass, 0) + n

    def note_case(self, canon, nontrivial=True, klass=None, sample=None):
        """register one explored case; canon must be hashable/serialisable"""
        self.cases += 1
        h = hashlib.sha1(json.dumps(canon, sort_keys=True, default=str).encode()).digest()[:10]
        self.distinct.add(h)
        if nontrivial:
            self.nontrivial.add(h)
        if klass:
            self.count(klass)
        if sample is not None and len(self.samples) < 6 and (self.cases % 37 == 1 or len(self.samples) < 2):
            self.samples.append(sample)

    def obligation(self, name, ok, detail=""):
        self.obligations.append((name, bool(ok)))
        if not ok:
            self.log("OBLIGATION FAILED:", name, detail[:2000])

    # --- proof stage
    def proof_stage(self, groups, prop_file, extra_targets=(), expect_theorems=None, timeout=1500):
        """build the property's theorems and audit them. prop_file like 'Runner/Properties_C14.v'"""
        t = time.time()
        bad = hygiene(groups)
        self.obligation("hygiene: no Admitted/admit/Axiom/Parameter/Conjecture/disabled checks in " + ",".join(groups), not bad, "\n".join(bad))
        if bad:
            self.proof_failures.append({"obligation": "hygiene", "detail": bad[:20]})
        targets = [prop_file + "o"] + [x + "o" if x.endswith(".v") else x for x in extra_targets]
        rc, out = coq_make(targets, timeout=timeout)
        self.checker_cmds.append("make -C coq " + " ".join(targets))
        if rc != 0:
            self.obligation("coq build of " + prop_file, False, out[-3000:])
            self.proof_failures.append({"obligation": "coq build of " + prop_file, "detail": out[-3000:]})
            return False
        path = os.path.join(COQ, prop_file)
        src = open(path).read()
        thms = re.findall(r"^\s*(?:Theorem|Corollary)\s+([\w']+)", src, flags=re.M)
        with Lock("coq"):
            rc, out = coqc(path, cwd=COQ)
        self.checker_cmds.append("coqc -Q coq V coq/" + prop_file + "  (Print Assumptions captured)")
        if rc != 0:
            self.obligation("coqc " + prop_file, False, out[-3000:])
            self.proof_failures.append({"obligation": "coqc " + prop_file, "detail": out[-3000:]})
            return False
        closed, axioms = parse_assumptions(out)
        nprint = len(re.findall(r"^\s*Print Assumptions\s+([\w']+)", src, flags=re.M))
        self.axioms |= axioms
        foreign = sorted(a for a in axioms if a not in STDLIB_AXIOMS and a.split(".")[-1] not in STDLIB_AXIOMS)
        for th in thms:
            self.obligation("theorem " + th, True)
        ok = True
        if nprint < len(thms):
            ok = False
            self.obligation("every theorem of %s has Print Assumptions (%d/%d)" % (prop_file, nprint, len(thms)), False)
        if foreign:
            ok = False
            self.obligation("assumptions of %s are standard-library axioms only" % prop_file, False, str(foreign))
        else:
            self.obligation("assumptions of %s: %d closed, axioms=%s" % (prop_file, closed, sorted(axioms)), True)
        if expect_theorems:
            miss = [x for x in expect_theorems if x not in thms]
            if miss:
                ok = False
                self.obligation("expected theorems present in " + prop_file, False, str(miss))
        if not ok:
            self.proof_failures.append({"obligation": "audit of " + prop_file, "detail": out[-2000:]})
        self.extra.setdefault("theorems", []).extend(thms)
        self.extra["proof_stage_s"] = round(self.extra.get("proof_stage_s", 0) + time.time() - t, 1)
        return ok

    def coqchk(self, vo_logical, timeout=3000):
        """thorough tier: independent re-check, lists axioms"""
        with Lock("coq"):
            rc, out = sh(["coqchk", "-silent", "-o", "-Q", COQ, "V"] + list(vo_logical), cwd=COQ, timeout=timeout)
        self.checker_cmds.append("coqchk -silent -o -Q coq V " + " ".join(vo_logical))
        ok = rc == 0
        self.obligation("coqchk " + " ".join(vo_logical), ok, out[-2000:])
        self.extra["coqchk_tail"] = out[-1500:]
        if not ok:
            self.proof_failures.append({"obligation": "coqchk", "detail": out[-2000:]})
        return ok

    # --- implementation side
    def go_build(self, name, tags="verif", race=False, test_pkg=None, extra_env=None, timeout=1500, overlays=None):
        """build harness/cmd/<name> (or, with test_pkg, `go test -c` of a /repo package with overlay-added
        in-package test files) against /repo's current working tree.  Returns the binary path or None."""
        t = time.time()
        with Lock("go"):
            os.makedirs(HARNESS, exist_ok=True)
            sh(["rsync", "-a", "--delete", "--exclude", "go.sum", HARNESS_SRC + "/", HARNESS + "/"])
            shutil.copy(os.path.join(REPO, "go.sum"), os.path.join(HARNESS, "go.sum"))
            gm = open(os.path.join(HARNESS, "go.mod")).read().replace("/repo", REPO)
            open(os.path.join(HARNESS, "go.mod"), "w").write(gm)
            repl = {}
            ovroot = os.path.join(HARNESS, "overlay")
            # harness/cmd/<name>/overlays.txt (one path relative to harness/overlay per line) selects the overlay
            # files this harness needs, so that one group's unfinished overlay cannot break another group's build;
            # without that file every overlay file is injected.
            sel = None
            selp = os.path.join(HARNESS, "cmd", name, "overlays.txt")
            if overlays is not None:
                sel = set(overlays)
            elif os.path.exists(selp):
                sel = set(l.strip() for l in open(selp) if l.strip() and not l.startswith("#"))
            for root, _, files in os.walk(ovroot):
                for f in files:
                    if f.endswith(".go"):
                        pkg = os.path.relpath(root, ovroot)
                        if sel is not None and os.path.join(pkg, f) not in sel:
                            continue
                        dst = os.path.join(REPO, pkg, "zz_verif_" + f)
                        repl[dst] = os.path.join(root, f)
            ovj = os.path.join(HARNESS, "overlay-%s.json" % name)
            json.dump({"Replace": repl}, open(ovj, "w"))
            os.makedirs(os.path.join(BUILD, "bin"), exist_ok=True)
            tag = "" if REPO == "/repo" else "-" + hashlib.sha1(REPO.encode()).hexdigest()[:8]
            outp = os.path.join(BUILD, "bin", name + ("-race" if race else "") + tag)
            env = goenv()
            if extra_env:
                env.update(extra_env)
            if test_pkg:
                cmd = ["go", "test", "-c", "-tags", tags, "-overlay", ovj, "-o", outp]
                if race:
                    cmd.append("-race")
                cmd.append(test_pkg)
                rc, out = sh(cmd, cwd=REPO, env=env, timeout=timeout)
            else:
                cmd = ["go", "build", "-tags", tags, "-overlay", ovj, "-o", outp]
                if race:
                    cmd.append("-race")
                cmd.append("./cmd/" + name)
                rc, out = sh(cmd, cwd=HARNESS, env=env, timeout=timeout)
        self.extra["go_build_s"] = round(self.extra.get("go_build_s", 0) + time.time() - t, 1)
        if rc != 0:
            self.obligation("implementation builds with harness " + name, False, out[-3000:])
            self.proof_failures.append({"obligation": "correspondence: harness %s no longer builds against /repo" % name, "detail": out[-3000:]})
            return None
        self.obligation("implementation builds with harness " + name, True)
        return outp

    def run_jsonl(self, binpath, cases, args=(), timeout=600, env=None):
        """feed one JSON case per line, read one JSON observation per line"""
        inp = "".join(json.dumps(c) + "\n" for c in cases)
        try:
            p = subprocess.run([binpath] + list(args), input=inp, stdout=subprocess.PIPE, stderr=subprocess.PIPE, text=True,
                               timeout=timeout, env=env or goenv(), cwd=self.tmp)
        except subprocess.TimeoutExpired:
            return None, "timeout"
        outs = []
        for line in p.stdout.split("\n"):
            line = line.strip()
            if line.startswith("{") or line.startswith("["):
                try:
                    outs.append(json.loads(line))
                except Exception:
                    pass
        return outs, p.stderr[-4000:] + ("\n[rc=%d]" % p.returncode if p.returncode else "")

    # --- model side
    def coq_eval(self, header, items, per_file=250, timeout=900, name="cases"):
        """items: list of Coq terms of type bool-producing checks `check` applied already, i.e. each item is a
        closed term of type bool (true = model agrees with the observation).  Returns list of indices whose
        term evaluated to false (or None on a Coq error, with the log)."""
        d = os.path.join(self.tmp, "coq_" + name)
        os.makedirs(d, exist_ok=True)
        shards = [items[i:i + per_file] for i in range(0, len(items), per_file)]
        procs = []
        for si, sh_items in enumerate(shards):
            path = os.path.join(d, "%s_%d.v" % (name, si))
            with open(path, "w") as f:
                f.write(header + "\n")
                f.write("Definition items : list bool := \n  [ " + "\n  ; ".join(sh_items) + " ].\n")
                f.write("Fixpoint bad_idx (i : nat) (l : list bool) : list nat := match l with nil => nil | cons b t => if b then bad_idx (S i) t else cons i (bad_idx (S i) t) end.\n")
                f.write("Definition bad := Eval vm_compute in bad_idx 0 items.\nPrint bad.\n")
            procs.append((si, path))
        bad = []
        t = time.time()
        running = []
        results = {}

        def launch(si, path):
            return subprocess.Popen(["coqc", "-Q", COQ, "V", "-w", "-notation-overridden", path], cwd=d, stdout=subprocess.PIPE, stderr=subprocess.STDOUT, text=True)
        queue = list(procs)
        while queue or running:
            while queue and len(running) < NCPU:
                si, path = queue.pop(0)
                running.append((si, launch(si, path)))
            si, p = running.pop(0)
            try:
                out, _ = p.communicate(timeout=timeout)
            except subprocess.TimeoutExpired:
                p.kill()
                out = "timeout"
            results[si] = (p.returncode, out)
        for si, _ in procs:
            rc, out = results[si]
            m = re.search(r"bad\s*=\s*(.*?)\s*:\s*list nat", out, flags=re.S)
            if rc != 0 or not m:
                self.extra["coq_eval_s"] = round(self.extra.get("coq_eval_s", 0) + time.time() - t, 1)
                return None, out[-3000:]
            body = m.group(1).replace("%nat", "").strip()
            if body not in ("[]", "nil"):
                for x in re.findall(r"\d+", body):
                    bad.append(si * per_file + int(x))
        self.extra["coq_eval_s"] = round(self.extra.get("coq_eval_s", 0) + time.time() - t, 1)
        return bad, ""

    def coq_print(self, header, term, timeout=300):
        """evaluate one term with vm_compute and return Coq's printed value (for replays)"""
        d = os.path.join(self.tmp, "coq_print")
        os.makedirs(d, exist_ok=True)
        path = os.path.join(d, "p%d.v" % len(os.listdir(d)))
        with open(path, "w") as f:
            f.write(header + "\nDefinition v := Eval vm_compute in (" + term + ").\nPrint v.\n")
        rc, out = sh(["coqc", "-Q", COQ, "V", "-w", "-notation-overridden", path], cwd=d, timeout=timeout)
        return out.strip()[-4000:]

    # --- verdict
    def violation(self, sig, what, replay):
        self.violations.append({"sig": sig, "what": what, "replay": replay})

    def mismatch(self, obligation, case, impl, model=None):
        self.mismatches.append({"obligation": obligation, "case": case, "impl": impl, "model": model})

    def finish(self):
        os.makedirs(os.path.join(VERIF, "replays"), exist_ok=True)
        os.makedirs(os.path.join(VERIF, "evidence"), exist_ok=True)
        lines, nviol = [], 0
        seen_known = set()

        def write_replay(obj, tag):
            p = os.path.join(VERIF, "replays", "%s-%s-%d-%d.json" % (self.pid, tag, self.seed, len(os.listdir(os.path.join(VERIF, "replays")))))
            json.dump(obj, open(p, "w"), indent=1, default=str)
            return p
        reported_sigs = set()
        for v in self.violations:
            k = match_known(self.known, v["sig"])
            if k:
                if k["id"] not in seen_known:
                    seen_known.add(k["id"])
                    lines.append("KNOWN-FINDING: property=%s %s [%s]" % (self.pid, k["what"], k["id"]))
                continue
            key = json.dumps(v["sig"], sort_keys=True, default=str)
            if key in reported_sigs:
                continue
            reported_sigs.add(key)
            nviol += 1
            p = write_replay({"property": self.pid, "kind": "violation", "what": v["what"], "signature": v["sig"], "replay": v["replay"], "seed": self.seed}, "violation")
            lines.append("VIOLATION property=%s replay=%s" % (self.pid, p))
        if self.mismatches and nviol == 0:
            m = self.mismatches[0]
            p = write_replay({"property": self.pid, "kind": "correspondence-break", "obligation": m["obligation"],
                              "note": "model and implementation disagree; the search around the disagreeing case found no input on which the property itself fails",
                              "disagreements": self.mismatches[:10], "seed": self.seed}, "corr")
            nviol += 1
            lines.append("VIOLATION property=%s replay=%s no-failing-input-found" % (self.pid, p))
        if self.proof_failures and nviol == 0:
            p = write_replay({"property": self.pid, "kind": "proof-obligation-break", "failures": self.proof_failures, "seed": self.seed}, "proof")
            nviol += 1
            lines.append("VIOLATION property=%s replay=%s no-failing-input-found" % (self.pid, p))
        nob = len(self.obligations)
        ndis = sum(1 for _, ok in self.obligations if ok)
        cov = {
            "obligations": max(nob, 1), "discharged": ndis,
            "checker_cmd": " ; ".join(self.checker_cmds) or "none",
            "trusted_base": self.trusted + ["axioms reported by Print Assumptions: " + (", ".join(sorted(self.axioms)) or "none (closed under the global context)")],
            "evaluations": max(self.cases, 1), "distinct_nontrivial": len(self.nontrivial), "distinct": len(self.distinct),
            "rule": self.rule, "samples": self.samples or ["(no sample recorded)"],
            "input_distribution": self.dist, "disagreements_checked": self.disagreements_checked,
            "model_impl_mismatches": len(self.mismatches), "property_violations_on_impl": len(self.violations),
            "known_findings_seen": sorted(seen_known),
            "obligation_list": [{"name": n, "ok": ok} for n, ok in self.obligations],
        }
        cov.update(self.extra)
        ev = {"property_id": self.pid, "tier": self.tier, "seed": self.seed, "level": self.level, "coverage": cov,
              "assumptions": self.assumptions, "wall_s": round(time.time() - self.t0, 2), "violations": nviol}
        # evidence/<ID>.json describes runs against /repo itself; a run against another checkout (VERIF_REPO: seeded
        # changes, scratch worktrees of fixes) must not overwrite it
        evdir = os.path.join(VERIF, "evidence") if REPO == "/repo" else os.path.join(BUILD, "evidence-scratch")
        os.makedirs(evdir, exist_ok=True)
        json.dump(ev, open(os.path.join(evdir, self.pid + ".json"), "w"), indent=1, default=str)
        for l in lines:
            print(l, flush=True)
        shutil.rmtree(self.tmp, ignore_errors=True)
        print("%s %s: %d cases (%d distinct non-trivial), %d/%d obligations, %d violation(s), %.1fs" % (
            self.pid, self.tier, self.cases, len(self.nontrivial), ndis, nob, nviol, time.time() - self.t0), flush=True)
        return 1 if nviol else 0


def load_known():
    """known_findings.json plus per-property fragments known_findings.d/*.json (all committed, never written at run time)"""
    out, seen = [], set()
    paths = [os.path.join(VERIF, "known_findings.json")] + sorted(glob.glob(os.path.join(VERIF, "known_findings.d", "*.json")))
    for p in paths:
        if not os.path.exists(p):
            continue
        for k in json.load(open(p)).get("findings", []):
            if k.get("id") in seen:
                continue
            seen.add(k.get("id"))
            out.append(k)
    return out


def match_known(known, sig):
    for k in known:
        if all(sig.get(a) == b for a, b in k.get("match", {}).items()):
            return k
    return None


def ddmin(items, fails, max_tests=400):
    """delta debugging over a list: smallest sublist for which fails(sub) is True"""
    n, tests = 2, 0
    items = list(items)
    while len(items) >= 2 and tests < max_tests:
        chunk = max(1, len(items) // n)
        reduced = False
        for i in range(0, len(items), chunk):
            cand = items[:i] + items[i + chunk:]
            tests += 1
            if cand and fails(cand):
                items, n, reduced = cand, max(n - 1, 2), True
                break
        if not reduced:
            if chunk == 1:
                break
            n = min(len(items), n * 2)
    return items
